// ---------------------------------------------------------------------------------------------
// SYM prelude: trusted boundary (hashbrown map, ToString, AST node handles, error list) and the
// stack-of-maps view of C19.  Nothing here is executable code of /repo.
// ---------------------------------------------------------------------------------------------

// module paths of the real crate (`types::IsConst`) resolve to the copied items
pub mod types { pub use super::{IsConst, Type, ArrayDims, SubroutineDef}; }
use std::ops::Index;

/// stand-in for `hashbrown::HashMap` (external crate; only reached through trusted methods)
#[verifier::external_body]
#[verifier::accept_recursive_types(K)]
#[verifier::accept_recursive_types(V)]
pub struct HashMap<K, V> { _p: std::marker::PhantomData<(K, V)> }
impl<K, V> HashMap<K, V> {
    /// hashbrown::HashMap::new (only the const-value table of Context is built here)
    #[verifier::external_body] pub fn new() -> HashMap<K, V> { unimplemented!() }
}

/// what `ToString::to_string` yields; for `&str` it is the string itself (assumed-dep: std)
pub uninterp spec fn to_string_spec<T>(t: T) -> Seq<char>;
pub broadcast axiom fn to_string_spec_str(s: &str)
    ensures #[trigger] to_string_spec::<&str>(s) == s@;

pub type SMap = Map<Seq<char>, SymbolId>;

impl ScopeSymbolTable {
    /// abstract content of one scope: name -> id   (trusted view of the hashbrown map)
    pub uninterp spec fn map(&self) -> SMap;
    pub uninterp spec fn stype(&self) -> ScopeType;
}

/// innermost-first resolution over a stack of maps (written from the statement of C19)
pub open spec fn resolve(st: Seq<SMap>, name: Seq<char>) -> Option<SymbolId>
    decreases st.len()
{
    if st.len() == 0 { None }
    else if st.last().contains_key(name) { Some(st.last()[name]) }
    else { resolve(st.drop_last(), name) }
}

impl SymbolTable {
    pub closed spec fn scopes(&self) -> Seq<SMap> {
        self.scope_symbol_table_stack@.map_values(|t: ScopeSymbolTable| t.map())
    }
    pub closed spec fn scope_types(&self) -> Seq<ScopeType> {
        self.scope_symbol_table_stack@.map_values(|t: ScopeSymbolTable| t.stype())
    }
    pub closed spec fn store(&self) -> Seq<Symbol> { self.all_symbols@ }
    pub closed spec fn counter(&self) -> nat { self.symbol_id_counter.0 as nat }
    pub closed spec fn depth(&self) -> nat { self.scope_symbol_table_stack@.len() }

    /// representation invariant except for "the stack is not empty"
    pub closed spec fn wf_core(&self) -> bool {
        let st = self.scope_symbol_table_stack@;
        &&& self.symbol_id_counter.0 == self.all_symbols@.len()
        &&& forall|i: int| 0 <= i < st.len() ==> (((#[trigger] st[i]).stype() == ScopeType::Global) <==> i == 0)
        &&& forall|i: int, n: Seq<char>| 0 <= i < st.len() && #[trigger] st[i].map().contains_key(n) ==>
                st[i].map()[n].0 < self.all_symbols@.len() && self.all_symbols@[st[i].map()[n].0 as int].name@ == n
    }
    /// global bound (DESIGN §7): fewer than usize::MAX symbols (a Symbol occupies > 24 bytes)
    pub closed spec fn room(&self) -> bool { self.all_symbols@.len() < usize::MAX }
    pub closed spec fn wf(&self) -> bool { self.wf_core() && self.scope_symbol_table_stack@.len() >= 1 }
}

// precondition of `table[&id]` (std::ops::Index has no `requires`; vstd's hook for it)
impl vstd::std_specs::core::IndexSpecImpl<&SymbolId> for SymbolTable {
    open spec fn index_req(&self, idx: &&SymbolId) -> bool { idx.0 < self.all_symbols@.len() }
}

pub open spec fn sym_of(name: Seq<char>, typ: Type, s: Symbol) -> bool { s.name@ == name && s.typ == typ }

// ---- Context boundary (C07): opaque ASG / AST handles, error list with a ghost kind log -------
/// rowan (trusted): a syntax node handle with its text range
#[verifier::external_body] pub struct SyntaxNode { _p: u8 }
#[verifier::external_body] pub struct TextRange { _p: u8 }
impl SyntaxNode {
    pub uninterp spec fn sp_text_range(&self) -> TextRange;
    #[verifier::external_body] pub fn text_range(&self) -> (r: TextRange) ensures r == self.sp_text_range() { unimplemented!() }
}
impl Clone for SyntaxNode { #[verifier::external_body] fn clone(&self) -> (r: SyntaxNode) ensures r == *self { unimplemented!() } }
/// oq3_syntax::AstNode as far as diagnostics need it: every typed node wraps a syntax node
pub trait AstNode {
    spec fn sp_syntax(&self) -> SyntaxNode;
    fn syntax(&self) -> (r: &SyntaxNode) ensures *r == self.sp_syntax();
}
pub mod asg {
    use vstd::prelude::*;
    #[verifier::external_body] pub struct Program { _p: u8 }
    impl Program {
        /// the statements of the program (ghost view of asg::Program, verified in unit SEMA)
        pub uninterp spec fn n_stmts(&self) -> nat;
        /// asg.rs Program::new: no version, no statements (verified in unit SEMA)
        #[verifier::external_body] pub fn new() -> (r: Program) ensures r.n_stmts() == 0 { unimplemented!() }
    }
    #[verifier::external_body] pub struct TExpr { _p: u8 }
    #[verifier::external_body] pub struct Annotation { _p: u8 }
    impl Clone for Annotation { #[verifier::external_body] fn clone(&self) -> (r: Annotation) ensures r == *self { unimplemented!() } }
    // asg.rs: #[derive(PartialEq)] (structural)
    impl vstd::std_specs::cmp::PartialEqSpecImpl for Annotation { open spec fn obeys_eq_spec() -> bool { true } open spec fn eq_spec(&self, other: &Annotation) -> bool { *self == *other } }
    impl PartialEq for Annotation { #[verifier::external_body] fn eq(&self, other: &Self) -> (r: bool) { unimplemented!() } }
}
#[verifier::external_body] pub struct PathBuf { _p: u8 }
impl SemanticErrorList {
    /// kinds of the diagnostics recorded for this file, in order
    pub open spec fn kinds(&self) -> Seq<SemanticErrorKind> { self.list@.map_values(|e: SemanticError| e.error_kind) }
    /// nodes the diagnostics are attached to, in order (C12: a semantic diagnostic's range is the range of that node)
    pub open spec fn nodes(&self) -> Seq<SyntaxNode> { self.list@.map_values(|e: SemanticError| e.node) }
}
use SemanticErrorKind::*;
