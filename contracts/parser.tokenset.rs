// ---- TokenSet as a set of kinds < 128 (ghost) ------------------------------------------------
pub open spec fn hasbit(bits: u128, k: SyntaxKind) -> bool { (k as usize) < 128 && bits & (1u128 << (k as usize)) != 0 }
pub open spec fn has(ts: TokenSet, k: SyntaxKind) -> bool { hasbit(ts.0, k) }
proof fn bv_or_bit(a: u128, j: usize, k: usize)
    requires j < 128, k < 128,
    ensures ((a | (1u128 << j)) & (1u128 << k) != 0) == ((a & (1u128 << k) != 0) || j == k)
{
    assert(((a | (1u128 << j)) & (1u128 << k) != 0) == ((a & (1u128 << k) != 0) || j == k)) by (bit_vector) requires j < 128, k < 128;
}
proof fn bv_or_sets(a: u128, b: u128, k: usize)
    ensures ((a | b) & (1u128 << k) != 0) == ((a & (1u128 << k) != 0) || (b & (1u128 << k) != 0))
{
    assert(((a | b) & (1u128 << k) != 0) == ((a & (1u128 << k) != 0) || (b & (1u128 << k) != 0))) by (bit_vector);
}
proof fn bv_zero(k: usize) ensures (0u128 & (1u128 << k)) == 0 { assert((0u128 & (1u128 << k)) == 0) by (bit_vector); }
/// discriminants are injective (declaration-order discriminants of a fieldless #[repr(u16)] enum)
pub proof fn lemma_kind_injective(j: SyntaxKind, k: SyntaxKind)
    ensures ((j as usize) == (k as usize)) == (j == k)
{}
pub proof fn lemma_hasbit_zero(k: SyntaxKind) ensures !hasbit(0u128, k) { bv_zero(k as usize); }
pub proof fn lemma_hasbit_or_bit(a: u128, j: SyntaxKind, k: SyntaxKind)
    requires (j as usize) < 128,
    ensures hasbit(a | (1u128 << (j as usize)), k) == (hasbit(a, k) || ((k as usize) < 128 && k == j))
{
    if (k as usize) < 128 { bv_or_bit(a, j as usize, k as usize); lemma_kind_injective(j, k); }
}
pub proof fn lemma_hasbit_or(a: u128, b: u128, k: SyntaxKind)
    ensures hasbit(a | b, k) == (hasbit(a, k) || hasbit(b, k))
{
    bv_or_sets(a, b, k as usize);
}
pub proof fn lemma_take_step_contains(s: Seq<SyntaxKind>, i: int, k: SyntaxKind)
    requires 0 <= i < s.len(),
    ensures s.take(i + 1).contains(k) <==> (s.take(i).contains(k) || s[i] == k)
{
    let a = s.take(i);
    let b = s.take(i + 1);
    assert(b =~= a.push(s[i]));
    if a.contains(k) {
        let j = choose|j: int| 0 <= j < a.len() && a[j] == k;
        assert(b[j] == k);
    }
    if s[i] == k { assert(b[i] == k); }
    if b.contains(k) {
        let j = choose|j: int| 0 <= j < b.len() && b[j] == k;
        if j < i { assert(a[j] == k); }
    }
}
