// assumed-dep (std, per its documentation): `str` methods that take a pattern, for a `char` or `&str` LITERAL pattern,
// and the whitespace trims.  std's methods are generic over `Pattern`, which a specification cannot case on; rule D32
// routes `RECV.m('c')` / `RECV.m("lit")` / `RECV.trim_end()` to these monomorphic stand-ins (each one calls the std
// method it stands for).  Present in every unit so that an edit which starts using one of them is judged against its
// real meaning instead of leaving the run undecided.  `@` is the sequence of chars; bytes = `spec_bytes()`.
use vstd::string::StringSliceAdditionalSpecFns as _;
/// `char::is_whitespace`: the Unicode White_Space property
pub open spec fn oq3_is_ws(c: char) -> bool {
    let u = c as u32;
    (0x09 <= u && u <= 0x0D) || u == 0x20 || u == 0x85 || u == 0xA0 || u == 0x1680 || (0x2000 <= u && u <= 0x200A)
        || u == 0x2028 || u == 0x2029 || u == 0x202F || u == 0x205F || u == 0x3000
}
/// r is s without its last n chars (n >= 0): same chars, same bytes, in front
pub open spec fn oq3_str_prefix_of(r: &str, s: &str) -> bool {
    &&& r@.len() <= s@.len() && r@ == s@.take(r@.len() as int)
    &&& r.spec_bytes().len() <= s.spec_bytes().len() && r.spec_bytes() == s.spec_bytes().take(r.spec_bytes().len() as int)
    &&& (r@.len() == s@.len()) == (r.spec_bytes().len() == s.spec_bytes().len())
}
/// r is s without its first n chars
pub open spec fn oq3_str_suffix_of(r: &str, s: &str) -> bool {
    &&& r@.len() <= s@.len() && r@ == s@.skip(s@.len() - r@.len())
    &&& r.spec_bytes().len() <= s.spec_bytes().len() && r.spec_bytes() == s.spec_bytes().skip(s.spec_bytes().len() - r.spec_bytes().len())
    &&& (r@.len() == s@.len()) == (r.spec_bytes().len() == s.spec_bytes().len())
}
#[verifier::external_body] pub fn oq3_str_starts_with_char(s: &str, c: char) -> (r: bool)
    ensures r == (s@.len() > 0 && s@[0] == c) { s.starts_with(c) }
#[verifier::external_body] pub fn oq3_str_ends_with_char(s: &str, c: char) -> (r: bool)
    ensures r == (s@.len() > 0 && s@.last() == c) { s.ends_with(c) }
#[verifier::external_body] pub fn oq3_str_contains_char(s: &str, c: char) -> (r: bool)
    ensures r == s@.contains(c) { s.contains(c) }
#[verifier::external_body] pub fn oq3_str_strip_prefix_char<'a>(s: &'a str, c: char) -> (r: Option<&'a str>)
    ensures (r is Some) == (s@.len() > 0 && s@[0] == c), r is Some ==> oq3_str_suffix_of(r->Some_0, s) && r->Some_0@.len() == s@.len() - 1 { s.strip_prefix(c) }
#[verifier::external_body] pub fn oq3_str_strip_suffix_char<'a>(s: &'a str, c: char) -> (r: Option<&'a str>)
    ensures (r is Some) == (s@.len() > 0 && s@.last() == c), r is Some ==> oq3_str_prefix_of(r->Some_0, s) && r->Some_0@.len() == s@.len() - 1 { s.strip_suffix(c) }
#[verifier::external_body] pub fn oq3_str_trim_end_matches_char<'a>(s: &'a str, c: char) -> (r: &'a str)
    ensures oq3_str_prefix_of(r, s), r@.len() > 0 ==> r@.last() != c, forall|j: int| r@.len() <= j < s@.len() ==> s@[j] == c { s.trim_end_matches(c) }
#[verifier::external_body] pub fn oq3_str_trim_start_matches_char<'a>(s: &'a str, c: char) -> (r: &'a str)
    ensures oq3_str_suffix_of(r, s), r@.len() > 0 ==> r@[0] != c, forall|j: int| 0 <= j < s@.len() - r@.len() ==> s@[j] == c { s.trim_start_matches(c) }
#[verifier::external_body] pub fn oq3_str_trim_end<'a>(s: &'a str) -> (r: &'a str)
    ensures oq3_str_prefix_of(r, s), r@.len() > 0 ==> !oq3_is_ws(r@.last()), forall|j: int| r@.len() <= j < s@.len() ==> oq3_is_ws(s@[j]) { s.trim_end() }
#[verifier::external_body] pub fn oq3_str_trim_start<'a>(s: &'a str) -> (r: &'a str)
    ensures oq3_str_suffix_of(r, s), r@.len() > 0 ==> !oq3_is_ws(r@[0]), forall|j: int| 0 <= j < s@.len() - r@.len() ==> oq3_is_ws(s@[j]) { s.trim_start() }
#[verifier::external_body] pub fn oq3_str_starts_with_str(s: &str, p: &str) -> (r: bool)
    ensures r == (p@.len() <= s@.len() && s@.take(p@.len() as int) == p@) { s.starts_with(p) }
#[verifier::external_body] pub fn oq3_str_ends_with_str(s: &str, p: &str) -> (r: bool)
    ensures r == (p@.len() <= s@.len() && s@.skip(s@.len() - p@.len()) == p@) { s.ends_with(p) }
#[verifier::external_body] pub fn oq3_str_strip_prefix_str<'a>(s: &'a str, p: &str) -> (r: Option<&'a str>)
    ensures (r is Some) == (p@.len() <= s@.len() && s@.take(p@.len() as int) == p@), r is Some ==> oq3_str_suffix_of(r->Some_0, s) && r->Some_0@.len() == s@.len() - p@.len() { s.strip_prefix(p) }
#[verifier::external_body] pub fn oq3_str_strip_suffix_str<'a>(s: &'a str, p: &str) -> (r: Option<&'a str>)
    ensures (r is Some) == (p@.len() <= s@.len() && s@.skip(s@.len() - p@.len()) == p@), r is Some ==> oq3_str_prefix_of(r->Some_0, s) && r->Some_0@.len() == s@.len() - p@.len() { s.strip_suffix(p) }
