// ---------------------------------------------------------------------------------------------
// PARSER model (module `parser`): abstract parser state, composite-token test, error accounting.
// Nothing here is executable code of /repo.
// ---------------------------------------------------------------------------------------------
/// stand-in for `std::cell::Cell` (only the step counter of `Parser::nth`, which is trusted)
#[verifier::external_body]
#[verifier::accept_recursive_types(T)]
pub struct Cell<T> { _p: std::marker::PhantomData<T> }
impl<T> Cell<T> {
    #[verifier::external_body] pub fn new(v: T) -> Cell<T> { unimplemented!() }
    #[verifier::external_body] pub fn set(&self, v: T) { unimplemented!() }
}

/// abstract parser state: the token kinds, the jointness bits (as a predicate of the input) and the cursor
pub struct PState { pub toks: Seq<SyntaxKind>, pub inp: Input, pub pos: nat }

pub open spec fn kind_at(st: PState, i: nat) -> SyntaxKind { if i < st.toks.len() { st.toks[i as int] } else { SyntaxKind::EOF } }
pub open spec fn jt(st: PState, i: nat) -> bool { i < st.toks.len() && st.inp.jbit(i as int) }
pub open spec fn comp2(st: PState, n: nat, k1: SyntaxKind, k2: SyntaxKind) -> bool {
    kind_at(st, st.pos + n) == k1 && kind_at(st, st.pos + n + 1) == k2 && jt(st, st.pos + n)
}
pub open spec fn comp3(st: PState, n: nat, k1: SyntaxKind, k2: SyntaxKind, k3: SyntaxKind) -> bool {
    kind_at(st, st.pos + n) == k1 && kind_at(st, st.pos + n + 1) == k2 && kind_at(st, st.pos + n + 2) == k3
    && jt(st, st.pos + n) && jt(st, st.pos + n + 1)
}
/// number of raw input tokens a (possibly composite) kind stands for
pub open spec fn raw_len(kind: SyntaxKind) -> nat {
    match kind {
        SyntaxKind::MINUSEQ | SyntaxKind::THIN_ARROW | SyntaxKind::COLON2 | SyntaxKind::NEQ | SyntaxKind::DOT2
        | SyntaxKind::STAREQ | SyntaxKind::SLASHEQ | SyntaxKind::AMP2 | SyntaxKind::AMPEQ | SyntaxKind::PERCENTEQ
        | SyntaxKind::CARETEQ | SyntaxKind::PLUSEQ | SyntaxKind::DOUBLE_PLUS | SyntaxKind::DOUBLE_STAR | SyntaxKind::SHL
        | SyntaxKind::LTEQ | SyntaxKind::EQ2 | SyntaxKind::FAT_ARROW | SyntaxKind::GTEQ | SyntaxKind::SHR
        | SyntaxKind::PIPEEQ | SyntaxKind::PIPE2 => 2,
        SyntaxKind::DOT3 | SyntaxKind::DOT2EQ | SyntaxKind::SHLEQ | SyntaxKind::SHREQ => 3,
        _ => 1,
    }
}
/// the composite-aware "the n-th token ahead is `kind`" of Parser::nth_at, written from the
/// operator spellings (`-=` is MINUS EQ glued, ...)
pub open spec fn at_n(st: PState, n: nat, kind: SyntaxKind) -> bool {
    match kind {
        SyntaxKind::MINUSEQ => comp2(st, n, SyntaxKind::MINUS, SyntaxKind::EQ),
        SyntaxKind::THIN_ARROW => comp2(st, n, SyntaxKind::MINUS, SyntaxKind::R_ANGLE),
        SyntaxKind::COLON2 => comp2(st, n, SyntaxKind::COLON, SyntaxKind::COLON),
        SyntaxKind::NEQ => comp2(st, n, SyntaxKind::BANG, SyntaxKind::EQ),
        SyntaxKind::DOT2 => comp2(st, n, SyntaxKind::DOT, SyntaxKind::DOT),
        SyntaxKind::STAREQ => comp2(st, n, SyntaxKind::STAR, SyntaxKind::EQ),
        SyntaxKind::SLASHEQ => comp2(st, n, SyntaxKind::SLASH, SyntaxKind::EQ),
        SyntaxKind::AMP2 => comp2(st, n, SyntaxKind::AMP, SyntaxKind::AMP),
        SyntaxKind::AMPEQ => comp2(st, n, SyntaxKind::AMP, SyntaxKind::EQ),
        SyntaxKind::PERCENTEQ => comp2(st, n, SyntaxKind::PERCENT, SyntaxKind::EQ),
        SyntaxKind::CARETEQ => comp2(st, n, SyntaxKind::CARET, SyntaxKind::EQ),
        SyntaxKind::PLUSEQ => comp2(st, n, SyntaxKind::PLUS, SyntaxKind::EQ),
        SyntaxKind::DOUBLE_PLUS => comp2(st, n, SyntaxKind::PLUS, SyntaxKind::PLUS),
        SyntaxKind::DOUBLE_STAR => comp2(st, n, SyntaxKind::STAR, SyntaxKind::STAR),
        SyntaxKind::SHL => comp2(st, n, SyntaxKind::L_ANGLE, SyntaxKind::L_ANGLE),
        SyntaxKind::LTEQ => comp2(st, n, SyntaxKind::L_ANGLE, SyntaxKind::EQ),
        SyntaxKind::EQ2 => comp2(st, n, SyntaxKind::EQ, SyntaxKind::EQ),
        SyntaxKind::FAT_ARROW => comp2(st, n, SyntaxKind::EQ, SyntaxKind::R_ANGLE),
        SyntaxKind::GTEQ => comp2(st, n, SyntaxKind::R_ANGLE, SyntaxKind::EQ),
        SyntaxKind::SHR => comp2(st, n, SyntaxKind::R_ANGLE, SyntaxKind::R_ANGLE),
        SyntaxKind::PIPEEQ => comp2(st, n, SyntaxKind::PIPE, SyntaxKind::EQ),
        SyntaxKind::PIPE2 => comp2(st, n, SyntaxKind::PIPE, SyntaxKind::PIPE),
        SyntaxKind::DOT3 => comp3(st, n, SyntaxKind::DOT, SyntaxKind::DOT, SyntaxKind::DOT),
        SyntaxKind::DOT2EQ => comp3(st, n, SyntaxKind::DOT, SyntaxKind::DOT, SyntaxKind::EQ),
        SyntaxKind::SHLEQ => comp3(st, n, SyntaxKind::L_ANGLE, SyntaxKind::L_ANGLE, SyntaxKind::EQ),
        SyntaxKind::SHREQ => comp3(st, n, SyntaxKind::R_ANGLE, SyntaxKind::R_ANGLE, SyntaxKind::EQ),
        _ => kind_at(st, st.pos + n) == kind,
    }
}
pub open spec fn at(st: PState, kind: SyntaxKind) -> bool { at_n(st, 0, kind) }
pub open spec fn cur(st: PState) -> SyntaxKind { kind_at(st, st.pos) }
pub open spec fn rem(st: PState) -> int { st.toks.len() - st.pos }
/// well-formed parser state.  `EOF ∉ toks` is what `LexedStr::to_input` establishes (LEX unit:
/// EOF only comes from the lexer's Eof, which `tokenize` never yields)
pub open spec fn wf(st: PState) -> bool {
    &&& st.pos <= st.toks.len()
    &&& st.toks == st.inp.kind@
    &&& st.toks.len() <= 0x7fff_ffff          // global bound: one token per input byte at most (DESIGN §7)
    &&& forall|i: int| 0 <= i < st.toks.len() ==> #[trigger] st.toks[i] != SyntaxKind::EOF
}

impl crate::input::Input {
    pub open spec fn jbit(&self, n: int) -> bool {
        0 <= n / 64 < self.joint@.len() && (self.joint@[n / 64] & (1u64 << ((n % 64) as u64))) != 0
    }
    pub open spec fn wf(&self) -> bool {
        &&& self.joint@.len() == (self.kind@.len() + 63) / 64
        &&& self.kind@.len() <= 0x7fff_ffff
    }
}
pub open spec fn is_error_event(e: Event) -> bool { e is Error }
pub open spec fn has_err_seq(ev: Seq<Event>) -> bool { exists|i: int| 0 <= i < ev.len() && is_error_event(#[trigger] ev[i]) }
/// raw tokens accounted for by the Token events of the list (each Token event carries the number of raw tokens it glues)
pub open spec fn tok_n(e: Event) -> int { match e { Event::Token { n_raw_tokens, .. } => n_raw_tokens as int, _ => 0 } }
pub open spec fn ev_sum(ev: Seq<Event>) -> int
    decreases ev.len()
{ if ev.len() == 0 { 0 } else { ev_sum(ev.drop_last()) + tok_n(ev.last()) } }
pub open spec fn is_token(e: Event) -> bool { e is Token }
/// every Token event stands for at least one raw token
pub open spec fn toks_ok(ev: Seq<Event>) -> bool { forall|i: int| 0 <= i < ev.len() && #[trigger] is_token(ev[i]) ==> tok_n(ev[i]) >= 1 }
/// a Start event of a node that was completed (pending and abandoned slots are tombstones)
pub open spec fn is_real(e: Event) -> bool { e matches Event::Start { kind, .. } && kind != SyntaxKind::TOMBSTONE }
pub open spec fn real_n(e: Event) -> int { if is_real(e) { 1 } else { 0 } }
pub open spec fn fin_n(e: Event) -> int { if e is Finish { 1 } else { 0 } }
/// completed nodes minus Finish events: 0 in every reachable parser state (a node gets its kind and its Finish together)
pub open spec fn bal(ev: Seq<Event>) -> int
    decreases ev.len()
{ if ev.len() == 0 { 0 } else { bal(ev.drop_last()) + real_n(ev.last()) - fin_n(ev.last()) } }
pub proof fn lemma_bal_update(ev: Seq<Event>, i: int, e: Event)
    requires 0 <= i < ev.len(),
    ensures bal(ev.update(i, e)) == bal(ev) - real_n(ev[i]) + fin_n(ev[i]) + real_n(e) - fin_n(e)
    decreases ev.len()
{
    let s2 = ev.update(i, e);
    if i == ev.len() - 1 { assert(s2.drop_last() =~= ev.drop_last()); }
    else { assert(s2.drop_last() =~= ev.drop_last().update(i, e)); lemma_bal_update(ev.drop_last(), i, e); }
}
pub proof fn lemma_ev_sum_update(ev: Seq<Event>, i: int, e: Event)
    requires 0 <= i < ev.len(), tok_n(ev[i]) == tok_n(e),
    ensures ev_sum(ev.update(i, e)) == ev_sum(ev)
    decreases ev.len()
{
    let s2 = ev.update(i, e);
    if i == ev.len() - 1 { assert(s2.drop_last() =~= ev.drop_last()); }
    else { assert(s2.drop_last() =~= ev.drop_last().update(i, e)); lemma_ev_sum_update(ev.drop_last(), i, e); }
}
pub proof fn lemma_has_err_push(ev: Seq<Event>, e: Event)
    ensures has_err_seq(ev.push(e)) == (has_err_seq(ev) || e is Error),
        ev_sum(ev.push(e)) == ev_sum(ev) + tok_n(e), toks_ok(ev.push(e)) == (toks_ok(ev) && (e is Token ==> tok_n(e) >= 1)),
        bal(ev.push(e)) == bal(ev) + real_n(e) - fin_n(e),
{
    let s2 = ev.push(e);
    if has_err_seq(ev) { let i = choose|i: int| 0 <= i < ev.len() && is_error_event(#[trigger] ev[i]); assert(is_error_event(s2[i])); }
    if e is Error { assert(is_error_event(s2[ev.len() as int])); }
    if has_err_seq(s2) { let i = choose|i: int| 0 <= i < s2.len() && is_error_event(#[trigger] s2[i]); if i < ev.len() { assert(is_error_event(ev[i])); } }
    assert(s2.drop_last() =~= ev);
    if toks_ok(s2) { assert forall|i: int| 0 <= i < ev.len() && #[trigger] is_token(ev[i]) implies tok_n(ev[i]) >= 1 by { assert(is_token(s2[i])); } assert(is_token(s2[ev.len() as int]) == (e is Token)); }
}
pub proof fn lemma_has_err_update(ev: Seq<Event>, i: int, e: Event)
    requires 0 <= i < ev.len(), !(ev[i] is Error), !(e is Error),
    ensures has_err_seq(ev.update(i, e)) == has_err_seq(ev),
        (ev[i] is Start && e is Start) ==> ev_sum(ev.update(i, e)) == ev_sum(ev) && toks_ok(ev.update(i, e)) == toks_ok(ev),
        bal(ev.update(i, e)) == bal(ev) - real_n(ev[i]) + fin_n(ev[i]) + real_n(e) - fin_n(e),
{
    lemma_bal_update(ev, i, e);
    let s2 = ev.update(i, e);
    if has_err_seq(ev) { let j = choose|j: int| 0 <= j < ev.len() && is_error_event(#[trigger] ev[j]); assert(is_error_event(s2[j])); }
    if has_err_seq(s2) { let j = choose|j: int| 0 <= j < s2.len() && is_error_event(#[trigger] s2[j]); assert(is_error_event(ev[j])); }
    if ev[i] is Start && e is Start {
        lemma_ev_sum_update(ev, i, e);
        if toks_ok(ev) { assert forall|j: int| 0 <= j < s2.len() && #[trigger] is_token(s2[j]) implies tok_n(s2[j]) >= 1 by { assert(is_token(ev[j])); } }
        if toks_ok(s2) { assert forall|j: int| 0 <= j < ev.len() && #[trigger] is_token(ev[j]) implies tok_n(ev[j]) >= 1 by { assert(is_token(s2[j])); } }
    }
}
pub proof fn lemma_has_err_drop_last(ev: Seq<Event>)
    requires ev.len() > 0, !(ev.last() is Error),
    ensures has_err_seq(ev.drop_last()) == has_err_seq(ev),
        ev.last() is Start ==> ev_sum(ev.drop_last()) == ev_sum(ev) && (toks_ok(ev) ==> toks_ok(ev.drop_last())),
        bal(ev.drop_last()) == bal(ev) - real_n(ev.last()) + fin_n(ev.last()),
{
    let s2 = ev.drop_last();
    if has_err_seq(ev) { let j = choose|j: int| 0 <= j < ev.len() && is_error_event(#[trigger] ev[j]); assert(j < s2.len()); assert(is_error_event(s2[j])); }
    if has_err_seq(s2) { let j = choose|j: int| 0 <= j < s2.len() && is_error_event(#[trigger] s2[j]); assert(is_error_event(ev[j])); }
    if toks_ok(ev) { assert forall|j: int| 0 <= j < s2.len() && #[trigger] is_token(s2[j]) implies tok_n(s2[j]) >= 1 by { assert(is_token(ev[j])); } }
}
impl<'t> Parser<'t> {
    pub open spec fn st(&self) -> PState {
        PState { toks: self.inp.kind@, inp: *self.inp, pos: self.pos as nat }
    }
    /// at least one error event has been recorded
    pub open spec fn has_err(&self) -> bool { has_err_seq(self.events@) }
    /// state well formed; forward_parent links valid; the Token events account for exactly the raw tokens consumed so far;
    /// as many Finish events as completed nodes
    pub open spec fn wf(&self) -> bool { wf(self.st()) && self.inp.wf() && fp_ok(self.events@) && toks_ok(self.events@) && ev_sum(self.events@) == self.pos && bal(self.events@) == 0 }
}
// ---- event slots (marker discipline) -------------------------------------------------------------
pub open spec fn is_start(e: Event) -> bool { e is Start }
/// a slot reserved by `Parser::start` and not completed / preceded-into yet
pub open spec fn is_pending(e: Event) -> bool { e == (Event::Start { kind: SyntaxKind::TOMBSTONE, forward_parent: None }) }
pub open spec fn start_at(ev: Seq<Event>, i: int) -> bool { 0 <= i < ev.len() && is_start(ev[i]) }
pub open spec fn pending_at(ev: Seq<Event>, i: int) -> bool { 0 <= i < ev.len() && is_pending(ev[i]) }
/// the slot of a completed node: a Start event that is not pending any more
pub open spec fn done_at(ev: Seq<Event>, i: int) -> bool { 0 <= i < ev.len() && is_start(ev[i]) && !is_pending(ev[i]) }
/// frame of the event list below `lo`: nothing is removed, a Start slot stays a Start slot and stays pending / completed as it was
/// forward_parent links: the event carries `forward_parent: Some(d)`; `fp_of` is that distance (0 when there is none)
pub open spec fn has_fp(e: Event) -> bool { e matches Event::Start { forward_parent: Some(_), .. } }
pub open spec fn fp_of(e: Event) -> int { match e { Event::Start { forward_parent: Some(d), .. } => d as int, _ => 0 } }
/// every forward_parent link points forward, inside the list, at a Start event: what `event::process` relies on
/// when it follows the chain (`events[idx]` in bounds, and the `unreachable!()` of its inner match)
pub open spec fn fp_ok(ev: Seq<Event>) -> bool {
    forall|i: int| 0 <= i < ev.len() && #[trigger] has_fp(ev[i]) ==> fp_of(ev[i]) >= 1 && start_at(ev, i + fp_of(ev[i]))
}
/// no forward_parent link points at slot `j` (so removing slot `j` leaves no dangling link)
pub open spec fn no_incoming(ev: Seq<Event>, j: int) -> bool {
    forall|i: int| 0 <= i < ev.len() && #[trigger] has_fp(ev[i]) ==> i + fp_of(ev[i]) != j
}
/// a slot reserved by `Parser::start` that nothing points at: it may still be abandoned
pub open spec fn fresh_at(ev: Seq<Event>, i: int) -> bool { pending_at(ev, i) && no_incoming(ev, i) }
/// frame of the event list below `lo`: nothing is removed, a Start slot stays a Start slot and stays pending / completed as it was,
/// and no new forward_parent link is aimed at a slot that was pending
pub open spec fn evf(e0: Seq<Event>, e1: Seq<Event>, lo: int) -> bool {
    &&& 0 <= lo <= e0.len() && lo <= e1.len()
    &&& forall|i: int| #![trigger e0[i]] #![trigger e1[i]] 0 <= i < lo ==> (is_start(e0[i]) ==> is_start(e1[i]) && is_pending(e0[i]) == is_pending(e1[i]))
    &&& forall|i: int| 0 <= i < e1.len() && #[trigger] has_fp(e1[i]) && 0 <= i + fp_of(e1[i]) < lo && is_pending(e0[i + fp_of(e1[i])])
            ==> i < e0.len() && has_fp(e0[i]) && fp_of(e0[i]) == fp_of(e1[i])
}
pub broadcast proof fn lemma_evf_trans(e0: Seq<Event>, e1: Seq<Event>, e2: Seq<Event>, lo1: int, lo2: int)
    requires #[trigger] evf(e0, e1, lo1), #[trigger] evf(e1, e2, lo2),
    ensures evf(e0, e2, if lo1 <= lo2 { lo1 } else { lo2 })
{}
pub broadcast proof fn lemma_evf_weaken(e0: Seq<Event>, e1: Seq<Event>, lo: int, lo2: int)
    requires #[trigger] evf(e0, e1, lo), 0 <= lo2 <= lo,
    ensures #[trigger] evf(e0, e1, lo2)
{}
/// what every grammar function guarantees: same input, cursor only moves forward, state stays
/// well formed, recorded errors are never lost, and the event slots that existed before are kept
/// (every marker that was valid stays valid)
pub open spec fn mono(a: Parser, b: Parser) -> bool {
    b.wf() && b.inp == a.inp && b.pos >= a.pos && (a.has_err() ==> b.has_err()) && evf(a.events@, b.events@, a.events@.len() as int)
}
/// the same for a function that was handed the pending marker at `lo` (it may complete or abandon it)
pub open spec fn mono_from(a: Parser, b: Parser, lo: int) -> bool {
    b.wf() && b.inp == a.inp && b.pos >= a.pos && (a.has_err() ==> b.has_err()) && evf(a.events@, b.events@, lo)
}
pub open spec fn unmoved(a: Parser, b: Parser) -> bool {
    b.wf() && b.inp == a.inp && b.pos == a.pos && (a.has_err() ==> b.has_err())
}
/// the cursor moved forward by at least one raw token (=> the remaining input strictly decreased)
pub open spec fn adv(a: Parser, b: Parser) -> bool { b.pos > a.pos }
/// C05: the position at which ONE `index_operator` call started at this token state stops (uninterpreted; see the AP
/// assumption in index_operator)
pub uninterp spec fn io_end(st: PState) -> nat;
/// neither at the end of input nor at a closing brace: the states in which a statement must consume
pub open spec fn live(st: PState) -> bool { cur(st) != SyntaxKind::EOF && cur(st) != SyntaxKind::R_CURLY }
