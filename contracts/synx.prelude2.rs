
// ---- rowan / syntax tree (trusted) ----------------------------------------------------------------
pub mod rowan {
    use vstd::prelude::*;
    /// text_size::TextSize: a u32 offset
    #[derive(Clone, Copy)]
    pub struct TextSize { pub raw: u32 }
    pub struct TryFromIntError0 { pub _p: u8 }
    impl vstd::std_specs::fmt::DebugSpecImpl for TryFromIntError0 { open spec fn fmt_req(&self, f: &std::fmt::Formatter<'_>) -> bool { true } }
    impl std::fmt::Debug for TryFromIntError0 { #[verifier::external_body] fn fmt(&self, f: &mut std::fmt::Formatter<'_>) -> std::fmt::Result { unimplemented!() } }
    impl vstd::std_specs::convert::TryFromSpecImpl<usize> for TextSize {
        open spec fn obeys_try_from_spec() -> bool { true }
        open spec fn try_from_spec(v: usize) -> Result<TextSize, TryFromIntError0> {
            if v <= u32::MAX { Ok(TextSize { raw: v as u32 }) } else { Err(TryFromIntError0 { _p: 0 }) }
        }
    }
    impl std::convert::TryFrom<usize> for TextSize {
        type Error = TryFromIntError0;
        /// text-size: `u32::try_from(value).map(TextSize::from)`
        #[verifier::external_body] fn try_from(v: usize) -> (r: Result<TextSize, TryFromIntError0>) { unimplemented!() }
    }
    impl std::convert::From<u32> for TextSize {
        /// text-size: `TextSize { raw }`
        #[verifier::external_body] fn from(raw: u32) -> (r: TextSize) ensures r.raw == raw { unimplemented!() }
    }
    impl std::convert::From<TextSize> for usize {
        /// text-size: `value.raw as usize`
        #[verifier::external_body] fn from(value: TextSize) -> (r: usize) ensures r == value.raw { unimplemented!() }
    }
    #[derive(Clone, Copy)]
    pub struct TextRange { pub start: TextSize, pub end: TextSize }
    impl TextRange {
        #[verifier::external_body] pub fn start(self) -> (r: TextSize) ensures r == self.start { unimplemented!() }
        #[verifier::external_body] pub fn end(self) -> (r: TextSize) ensures r == self.end { unimplemented!() }
        #[verifier::external_body] pub fn is_empty(self) -> (r: bool) ensures r == (self.start.raw == self.end.raw) { unimplemented!() }
        /// text-size: `TextRange { start: offset, end: offset }`
        #[verifier::external_body] pub fn empty(offset: TextSize) -> (r: TextRange) ensures r.start == offset, r.end == offset { unimplemented!() }
        /// text-size: `TextRange::new(offset, offset + len)` (the addition panics on overflow)
        #[verifier::external_body] pub fn at(offset: TextSize, len: TextSize) -> (r: TextRange)
            requires offset.raw + len.raw <= u32::MAX,
            ensures r.start == offset, r.end.raw == offset.raw + len.raw,
        { unimplemented!() }
        /// text-size: `assert!(start.raw <= end.raw)`
        #[verifier::external_body] pub fn new(start: TextSize, end: TextSize) -> (r: TextRange)
            requires start.raw <= end.raw,
            ensures r.start == start, r.end == end,
        { unimplemented!() }
    }
}
pub use rowan::{TextRange, TextSize};
pub mod syntax_node { #[verifier::external_body] pub struct GreenNode { _p: u8 } }
use syntax_node::GreenNode;
impl GreenNode {
    /// the text spelled by the leaves of the tree
    pub uninterp spec fn text(&self) -> Seq<char>;
    pub uninterp spec fn is_source_file(&self) -> bool;
}
impl Clone for GreenNode { #[verifier::external_body] fn clone(&self) -> (r: GreenNode) ensures r == *self { unimplemented!() } }
@@SYNTAX_ERROR_STRUCT@@
impl SyntaxError {
    /// the range a diagnostic carries, as (start, end) byte offsets
    pub open spec fn sp_range(&self) -> (nat, nat) { (self.1.start.raw as nat, self.1.end.raw as nat) }
}
/// every diagnostic has start <= end <= length of the text (C12)
pub open spec fn in_text(e: SyntaxError, blen: nat) -> bool { e.sp_range().0 <= e.sp_range().1 && e.sp_range().1 <= blen }
pub mod oq3_syntax { pub use super::SyntaxError; }
