
// ---- rowan / syntax tree (trusted) ----------------------------------------------------------------
pub mod rowan {
    use vstd::prelude::*;
    /// text_size::TextSize: a u32 offset
    pub struct TextSize { pub raw: u32 }
    pub struct TryFromIntError0 { pub _p: u8 }
    impl vstd::std_specs::fmt::DebugSpecImpl for TryFromIntError0 { open spec fn fmt_req(&self, f: &std::fmt::Formatter<'_>) -> bool { true } }
    impl std::fmt::Debug for TryFromIntError0 { #[verifier::external_body] fn fmt(&self, f: &mut std::fmt::Formatter<'_>) -> std::fmt::Result { unimplemented!() } }
    impl vstd::std_specs::convert::TryFromSpecImpl<usize> for TextSize {
        open spec fn obeys_try_from_spec() -> bool { true }
        open spec fn try_from_spec(v: usize) -> Result<TextSize, TryFromIntError0> {
            if v <= u32::MAX { Ok(TextSize { raw: v as u32 }) } else { Err(TryFromIntError0 { _p: 0 }) }
        }
    }
    impl std::convert::TryFrom<usize> for TextSize {
        type Error = TryFromIntError0;
        /// text-size: `u32::try_from(value).map(TextSize::from)`
        #[verifier::external_body] fn try_from(v: usize) -> (r: Result<TextSize, TryFromIntError0>) { unimplemented!() }
    }
    pub struct TextRange { pub start: TextSize, pub end: TextSize }
    impl TextRange {
        /// text-size: `assert!(start.raw <= end.raw)`
        #[verifier::external_body] pub fn new(start: TextSize, end: TextSize) -> (r: TextRange)
            requires start.raw <= end.raw,
            ensures r.start == start, r.end == end,
        { unimplemented!() }
    }
}
pub use rowan::{TextRange, TextSize};
pub mod syntax_node { #[verifier::external_body] pub struct GreenNode { _p: u8 } }
use syntax_node::GreenNode;
impl GreenNode {
    /// the text spelled by the leaves of the tree
    pub uninterp spec fn text(&self) -> Seq<char>;
    pub uninterp spec fn is_source_file(&self) -> bool;
}
impl Clone for GreenNode { #[verifier::external_body] fn clone(&self) -> (r: GreenNode) ensures r == *self { unimplemented!() } }
#[verifier::external_body] pub struct SyntaxError { _p: u8 }
impl SyntaxError {
    pub uninterp spec fn range(&self) -> (nat, nat);
    /// syntax_error.rs: `Self(message.into(), range)`
    #[verifier::external_body] pub fn new(message: &str, range: TextRange) -> (r: SyntaxError) ensures r.range() == (range.start.raw as nat, range.end.raw as nat) { unimplemented!() }
}
/// every diagnostic has start <= end <= length of the text (C12)
pub open spec fn in_text(e: SyntaxError, blen: nat) -> bool { e.range().0 <= e.range().1 && e.range().1 <= blen }
