// assumed-dep (std, per its documentation): ASCII classification predicates of `char` and `u8`.
// Present in every unit so that an edit which starts using one of them is judged against its
// real meaning instead of leaving the run undecided.
pub assume_specification [char::is_ascii_whitespace] (c: &char) -> (r: bool)
    ensures r == (*c == ' ' || *c == '\t' || *c == '\n' || *c == '\x0C' || *c == '\r');
pub assume_specification [char::is_ascii_digit] (c: &char) -> (r: bool) ensures r == ('0' <= *c && *c <= '9');
pub assume_specification [char::is_ascii_lowercase] (c: &char) -> (r: bool) ensures r == ('a' <= *c && *c <= 'z');
pub assume_specification [char::is_ascii_uppercase] (c: &char) -> (r: bool) ensures r == ('A' <= *c && *c <= 'Z');
pub assume_specification [char::is_ascii_alphabetic] (c: &char) -> (r: bool) ensures r == (('a' <= *c && *c <= 'z') || ('A' <= *c && *c <= 'Z'));
pub assume_specification [char::is_ascii_alphanumeric] (c: &char) -> (r: bool)
    ensures r == (('a' <= *c && *c <= 'z') || ('A' <= *c && *c <= 'Z') || ('0' <= *c && *c <= '9'));
pub assume_specification [char::is_ascii_hexdigit] (c: &char) -> (r: bool)
    ensures r == (('a' <= *c && *c <= 'f') || ('A' <= *c && *c <= 'F') || ('0' <= *c && *c <= '9'));
pub assume_specification [char::is_ascii] (c: &char) -> (r: bool) ensures r == (*c as u32 <= 0x7f);
pub assume_specification [u8::is_ascii_lowercase] (c: &u8) -> (r: bool) ensures r == (97 <= *c && *c <= 122);
pub assume_specification [u8::is_ascii_uppercase] (c: &u8) -> (r: bool) ensures r == (65 <= *c && *c <= 90);
pub assume_specification [u8::is_ascii_digit] (c: &u8) -> (r: bool) ensures r == (48 <= *c && *c <= 57);
// Unicode classification predicates of `char`: exact on ASCII, uninterpreted beyond (the Unicode tables are not modelled);
// `is_control` (Cc) is small enough to state exactly.
pub uninterp spec fn oq3_alphabetic(c: char) -> bool;
pub uninterp spec fn oq3_numeric(c: char) -> bool;
pub uninterp spec fn oq3_lowercase(c: char) -> bool;
pub uninterp spec fn oq3_uppercase(c: char) -> bool;
pub assume_specification [char::is_alphabetic] (c: char) -> (r: bool)
    ensures r == oq3_alphabetic(c), (c as u32) < 128 ==> r == (('a' <= c && c <= 'z') || ('A' <= c && c <= 'Z'));
pub assume_specification [char::is_numeric] (c: char) -> (r: bool)
    ensures r == oq3_numeric(c), (c as u32) < 128 ==> r == ('0' <= c && c <= '9');
pub assume_specification [char::is_alphanumeric] (c: char) -> (r: bool)
    ensures r == (oq3_alphabetic(c) || oq3_numeric(c)),
        (c as u32) < 128 ==> r == (('a' <= c && c <= 'z') || ('A' <= c && c <= 'Z') || ('0' <= c && c <= '9'));
pub assume_specification [char::is_lowercase] (c: char) -> (r: bool)
    ensures r == oq3_lowercase(c), (c as u32) < 128 ==> r == ('a' <= c && c <= 'z');
pub assume_specification [char::is_uppercase] (c: char) -> (r: bool)
    ensures r == oq3_uppercase(c), (c as u32) < 128 ==> r == ('A' <= c && c <= 'Z');
// (char::is_whitespace already has a specification in vstd)
pub assume_specification [char::is_control] (c: char) -> (r: bool)
    ensures r == ((c as u32) <= 0x1F || (0x7F <= (c as u32) && (c as u32) <= 0x9F));
// slice / Vec membership test (for element types whose `==` is the specification equality)
use vstd::std_specs::cmp::PartialEqSpec as _;
pub assume_specification<T: PartialEq> [<[T]>::contains] (s: &[T], x: &T) -> (r: bool)
    ensures T::obeys_eq_spec() ==> r == (exists|i: int| 0 <= i < s@.len() && (#[trigger] s@[i]).eq_spec(x));
// Vec::dedup removes consecutive repeated elements: nothing is stated beyond "never longer, unchanged if there is no repeat"
pub assume_specification<T: PartialEq, A: std::alloc::Allocator> [Vec::<T, A>::dedup] (v: &mut Vec<T, A>)
    ensures final(v)@.len() <= old(v)@.len(),
        (T::obeys_eq_spec() && forall|i: int| 0 <= i < old(v)@.len() - 1 ==> !(#[trigger] old(v)@[i]).eq_spec(&old(v)@[i + 1])) ==> final(v)@ == old(v)@;
// assumed-dep (std): Vec<T> as a slice keeps the elements
pub assume_specification<T, A: std::alloc::Allocator> [<std::vec::Vec<T, A> as std::convert::AsRef<[T]>>::as_ref] (v: &std::vec::Vec<T, A>) -> (r: &[T])
    ensures r@ == v@;
