// ---- vocabulary shared by the PARSER unit (which proves it of TopEntryPoint::parse) and the SHORT unit (whose tree
// ---- builder relies on it): the same text is spliced into both units
/// raw tokens the Token steps consume
pub open spec fn tok_sum(steps: Seq<Step<'_>>) -> int
    decreases steps.len()
{
    if steps.len() == 0 { 0 } else { (if steps[0] is Token { steps[0]->n_input_tokens as int } else { 0int }) + tok_sum(steps.skip(1)) }
}
/// shape of a parser output the tree builder relies on: it starts with Enter, ends with Exit, has no FloatSplit step,
/// and every Token step stands for at least one raw token
pub open spec fn output_shape(steps: Seq<Step<'_>>) -> bool {
    &&& steps.len() >= 1 && steps[0] is Enter && steps.last() is Exit
    &&& forall|i: int| 0 <= i < steps.len() ==> !((#[trigger] steps[i]) is FloatSplit)
    &&& forall|i: int| 0 <= i < steps.len() && (#[trigger] steps[i]) is Token ==> steps[i]->n_input_tokens >= 1
}
