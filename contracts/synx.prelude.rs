// ---------------------------------------------------------------------------------------------
// SYNX prelude: what oq3_syntax/src/parsing.rs and the two SourceFile entry points of lib.rs see
// of the other crates.  LexedStr / Input / Output carry the contracts PROVED in units LEX, SHORT
// and PARSER (restated over a ghost view); rowan's builder and text types are trusted.
// Nothing here is executable code of /repo.
// ---------------------------------------------------------------------------------------------
pub mod oq3_parser {
    use vstd::prelude::*;
    #[verifier::external_body] pub struct LexedStr<'a> { _p: std::marker::PhantomData<&'a str> }
    pub use super::StrStep;
    #[verifier::external_body] pub struct Input { _p: u8 }
    #[verifier::external_body] pub struct Output { _p: u8 }
    /// `impl Iterator<Item = (usize, &str)>` returned by LexedStr::errors
    #[verifier::external_body] pub struct ErrIter<'a> { _p: std::marker::PhantomData<&'a str> }
    impl<'a> ErrIter<'a> {
        /// token indices of the lexical diagnostics not yet yielded
        pub uninterp spec fn rest(&self) -> Seq<nat>;
        #[verifier::external_body] pub fn next(&mut self) -> (r: Option<(usize, &'a str)>)
            ensures old(self).rest().len() == 0 ==> r is None && final(self).rest() == old(self).rest(),
                    old(self).rest().len() > 0 ==> r is Some && r->Some_0.0 == old(self).rest()[0] && final(self).rest() == old(self).rest().skip(1),
        { unimplemented!() }
    }
    impl<'a> LexedStr<'a> {
        /// the text that was lexed
        pub uninterp spec fn src(&self) -> Seq<char>;
        /// number of tokens (without the final EOF entry)
        pub uninterp spec fn ntok(&self) -> nat;
        /// token indices of the lexical diagnostics, in order
        pub uninterp spec fn err_tokens(&self) -> Seq<nat>;
        /// byte range of token i
        pub uninterp spec fn range_of(&self, i: nat) -> (nat, nat);
        /// byte length of the text
        pub uninterp spec fn blen(&self) -> nat;
        /// unit LEX (LexedStr::new + chain lemma): the token table is built for exactly this text; every
        /// diagnostic sits on a token; token ranges are ordered, inside the text and fit u32
        #[verifier::external_body] pub fn new(text: &'a str) -> (r: LexedStr<'a>)
            ensures r.src() == text@,
                forall|k: int| 0 <= k < r.err_tokens().len() ==> #[trigger] r.err_tokens()[k] < r.ntok(),
                forall|i: nat| i < r.ntok() ==> (#[trigger] r.range_of(i)).0 <= r.range_of(i).1 && r.range_of(i).1 <= r.blen() && r.blen() <= u32::MAX,
        { unimplemented!() }
        /// unit LEX: errors_is_empty
        #[verifier::external_body] pub fn errors_is_empty(&self) -> (r: bool) ensures r == (self.err_tokens().len() == 0) { unimplemented!() }
        /// lexed_str.rs: `self.error.iter().map(|it| (it.token as usize, it.msg.as_str()))`
        #[verifier::external_body] pub fn errors(&self) -> (r: ErrIter<'_>) ensures r.rest() == self.err_tokens() { unimplemented!() }
        /// kind of token i
        pub uninterp spec fn kind_of(&self, i: nat) -> super::SyntaxKind;
        /// unit LEX: kind (requires i < ntok)
        #[verifier::external_body] pub fn kind(&self, i: usize) -> (r: super::SyntaxKind)
            requires i < self.ntok(),
            ensures r == self.kind_of(i as nat),
        { unimplemented!() }
        /// unit LEX: text_range (requires i < ntok)
        #[verifier::external_body] pub fn text_range(&self, i: usize) -> (r: std::ops::Range<usize>)
            requires i < self.ntok(),
            ensures r.start == self.range_of(i as nat).0, r.end == self.range_of(i as nat).1,
        { unimplemented!() }
        /// unit SHORT: to_input
        #[verifier::external_body] pub fn to_input(&self) -> (r: Input) ensures r.of() == self.src() { unimplemented!() }
    }
    impl Input { pub uninterp spec fn of(&self) -> Seq<char>; }
    impl Output {
        pub uninterp spec fn of(&self) -> Seq<char>;
        pub uninterp spec fn entry_is_source_file(&self) -> bool;
    }
