// ---------------------------------------------------------------------------------------------
// LEX prelude: ghost model of the character cursor (`rest` = chars not yet consumed, `tok` =
// chars consumed since the last reset), UTF-8 length, assumed Unicode-table facts.
// Nothing here is executable code of /repo.
// ---------------------------------------------------------------------------------------------
use std::str::Chars;
use self::LiteralKind::*;
use self::TokenKind::*;

// assumed-dep (std): documented behaviour of char::is_ascii / is_ascii_digit
pub assume_specification [<char>::is_ascii] (c: &char) -> (b: bool) ensures b == ((*c as u32) < 128);
pub assume_specification [<char>::is_ascii_digit] (c: &char) -> (b: bool) ensures b == ('0' <= *c && *c <= '9');

// assumed-dep (crates unicode-xid, unicode-properties): the Unicode tables are uninterpreted,
// except for the ASCII facts below (UAX #31: ASCII letters are XID_Start; letters, digits and
// '_' are XID_Continue; no ASCII punctuation / control character is XID_Continue).
pub uninterp spec fn xid_start(c: char) -> bool;
pub uninterp spec fn xid_continue(c: char) -> bool;
pub uninterp spec fn emoji_char(c: char) -> bool;
pub open spec fn ascii_letter(c: char) -> bool { ('a' <= c && c <= 'z') || ('A' <= c && c <= 'Z') }
pub open spec fn ascii_ident_char(c: char) -> bool { ascii_letter(c) || ('0' <= c && c <= '9') || c == '_' }
pub broadcast axiom fn axiom_xid_start_ascii(c: char)
    ensures
        ascii_letter(c) ==> #[trigger] xid_start(c),
        (c as u32) < 128 && xid_start(c) ==> ascii_letter(c);
pub broadcast axiom fn axiom_xid_continue_ascii(c: char)
    ensures (c as u32) < 128 ==> (#[trigger] xid_continue(c) == ascii_ident_char(c));
pub mod unicode_xid {
    use super::*;
    pub struct UnicodeXID;
    impl UnicodeXID {
        #[verifier::external_body]
        pub fn is_xid_start(c: char) -> (b: bool) ensures b == xid_start(c) { unimplemented!() }
        #[verifier::external_body]
        pub fn is_xid_continue(c: char) -> (b: bool) ensures b == xid_continue(c) { unimplemented!() }
    }
}
pub trait UnicodeEmoji { fn is_emoji_char(self) -> bool; }
impl UnicodeEmoji for char {
    #[verifier::external_body]
    fn is_emoji_char(self) -> (b: bool) ensures b == emoji_char(self) { unimplemented!() }
}

pub open spec fn is_ws(c: char) -> bool {
    c == '\u{0009}' || c == '\u{000A}' || c == '\u{000B}' || c == '\u{000C}' || c == '\u{000D}' || c == '\u{0020}'
    || c == '\u{0085}' || c == '\u{200E}' || c == '\u{200F}' || c == '\u{2028}' || c == '\u{2029}'
}

// ---- UTF-8 length ---------------------------------------------------------------------------
pub open spec fn utf8_clen(c: char) -> nat {
    if (c as u32) < 0x80 { 1 } else if (c as u32) < 0x800 { 2 } else if (c as u32) < 0x10000 { 3 } else { 4 }
}
pub open spec fn utf8_len(s: Seq<char>) -> nat
    decreases s.len()
{
    if s.len() == 0 { 0 } else { utf8_len(s.drop_last()) + utf8_clen(s.last()) }
}
pub proof fn lemma_utf8_len_push(s: Seq<char>, c: char)
    ensures utf8_len(s.push(c)) == utf8_len(s) + utf8_clen(c)
{
    assert(s.push(c).drop_last() =~= s);
}
pub proof fn lemma_utf8_len_add(a: Seq<char>, b: Seq<char>)
    ensures utf8_len(a + b) == utf8_len(a) + utf8_len(b)
    decreases b.len()
{
    if b.len() == 0 {
        assert(a + b =~= a);
    } else {
        assert((a + b).drop_last() =~= a + b.drop_last());
        lemma_utf8_len_add(a, b.drop_last());
    }
}
pub proof fn lemma_utf8_len_ge(s: Seq<char>)
    ensures utf8_len(s) >= s.len()
    decreases s.len()
{
    if s.len() > 0 { lemma_utf8_len_ge(s.drop_last()); }
}

// ---- the cursor model -------------------------------------------------------------------------
pub const EOF_CHAR: char = '\0';
impl<'a> Cursor<'a> {
    /// characters not yet consumed
    pub uninterp spec fn rest(&self) -> Seq<char>;
    /// characters consumed since the last `reset_pos_within_token`
    pub uninterp spec fn tok(&self) -> Seq<char>;
    /// the last character consumed (debug builds)
    pub uninterp spec fn prevc(&self) -> char;
}
/// `post` is `pre` after consuming n >= 0 characters
pub open spec fn advanced(pre: Cursor, post: Cursor) -> bool {
    let n = pre.rest().len() - post.rest().len();
    &&& n >= 0
    &&& post.rest() == pre.rest().skip(n)
    &&& post.tok() == pre.tok() + pre.rest().take(n)
    &&& (n == 0 ==> post.prevc() == pre.prevc())
    &&& (n > 0 ==> post.prevc() == pre.rest()[n - 1])
}
pub open spec fn eaten(pre: Cursor, post: Cursor) -> int { pre.rest().len() - post.rest().len() }
/// byte size of everything the cursor still has to deal with (global bound, DESIGN §7)
pub open spec fn total(c: Cursor) -> nat { utf8_len(c.tok()) + utf8_len(c.rest()) }
pub open spec fn fits(c: Cursor) -> bool { total(c) <= 0x7fff_ffff }
pub open spec fn peek(c: Cursor) -> char { if c.rest().len() > 0 { c.rest()[0] } else { '\0' } }

pub broadcast proof fn lemma_advanced_refl(a: Cursor)
    ensures #[trigger] advanced(a, a)
{
    assert(a.rest().skip(0) =~= a.rest());
    assert(a.tok() + a.rest().take(0) =~= a.tok());
}
pub broadcast proof fn lemma_advanced_trans(a: Cursor, b: Cursor, c: Cursor)
    requires #[trigger] advanced(a, b), #[trigger] advanced(b, c),
    ensures advanced(a, c)
{
    let n = a.rest().len() - b.rest().len();
    let m = b.rest().len() - c.rest().len();
    assert(a.rest().skip(n).skip(m) =~= a.rest().skip(n + m));
    assert(a.rest().take(n) + a.rest().skip(n).take(m) =~= a.rest().take(n + m));
    assert((a.tok() + a.rest().take(n)) + a.rest().skip(n).take(m) =~= a.tok() + a.rest().take(n + m));
}
pub broadcast proof fn lemma_advanced_total(a: Cursor, b: Cursor)
    requires #[trigger] advanced(a, b),
    ensures total(b) == total(a), utf8_len(b.tok()) >= utf8_len(a.tok()), b.tok().len() >= a.tok().len(),
        utf8_len(b.tok()) == utf8_len(a.tok()) + utf8_len(a.rest().take(eaten(a, b))),
        eaten(a, b) <= utf8_len(a.rest().take(eaten(a, b))),
{
    let n = a.rest().len() - b.rest().len();
    lemma_utf8_len_add(a.tok(), a.rest().take(n));
    assert(a.rest().take(n) + a.rest().skip(n) =~= a.rest());
    lemma_utf8_len_add(a.rest().take(n), a.rest().skip(n));
    lemma_utf8_len_ge(a.rest().take(n));
}
/// one `bump` on a non-empty cursor is an advance by one character
/// (justifies the form in which the trusted contract of `Cursor::bump` is stated)
pub proof fn lemma_bump_advanced(a: Cursor, b: Cursor)
    requires a.rest().len() > 0, b.rest() == a.rest().skip(1), b.tok() == a.tok().push(a.rest()[0]), b.prevc() == a.rest()[0],
    ensures advanced(a, b), eaten(a, b) == 1
{
    assert(a.tok().push(a.rest()[0]) =~= a.tok() + a.rest().take(1));
}
pub broadcast group lex_lemmas {
    axiom_xid_start_ascii, axiom_xid_continue_ascii, lemma_advanced_refl, lemma_advanced_trans, lemma_advanced_total,
}
