// ---------------------------------------------------------------------------------------------
// LEX prelude: ghost model of the character cursor (`rest` = chars not yet consumed, `tok` =
// chars consumed since the last reset), UTF-8 length, assumed Unicode-table facts.
// Nothing here is executable code of /repo.
// ---------------------------------------------------------------------------------------------
use std::str::Chars;
use self::LiteralKind::*;
use self::TokenKind::*;


// assumed-dep (crates unicode-xid, unicode-properties): the Unicode tables are uninterpreted,
// except for the ASCII facts below (UAX #31: ASCII letters are XID_Start; letters, digits and
// '_' are XID_Continue; no ASCII punctuation / control character is XID_Continue).
pub uninterp spec fn xid_start(c: char) -> bool;
pub uninterp spec fn xid_continue(c: char) -> bool;
pub uninterp spec fn emoji_char(c: char) -> bool;
pub open spec fn ascii_letter(c: char) -> bool { ('a' <= c && c <= 'z') || ('A' <= c && c <= 'Z') }
pub open spec fn ascii_ident_char(c: char) -> bool { ascii_letter(c) || ('0' <= c && c <= '9') || c == '_' }
pub broadcast axiom fn axiom_xid_start_ascii(c: char)
    ensures
        ascii_letter(c) ==> #[trigger] xid_start(c),
        (c as u32) < 128 && xid_start(c) ==> ascii_letter(c);
pub broadcast axiom fn axiom_xid_continue_ascii(c: char)
    ensures (c as u32) < 128 ==> (#[trigger] xid_continue(c) == ascii_ident_char(c));
pub mod unicode_xid {
    use super::*;
    pub struct UnicodeXID;
    impl UnicodeXID {
        #[verifier::external_body]
        pub fn is_xid_start(c: char) -> (b: bool) ensures b == xid_start(c) { unimplemented!() }
        #[verifier::external_body]
        pub fn is_xid_continue(c: char) -> (b: bool) ensures b == xid_continue(c) { unimplemented!() }
    }
}
pub trait UnicodeEmoji { fn is_emoji_char(self) -> bool; }
impl UnicodeEmoji for char {
    #[verifier::external_body]
    fn is_emoji_char(self) -> (b: bool) ensures b == emoji_char(self) { unimplemented!() }
}

pub open spec fn is_ws(c: char) -> bool {
    c == '\u{0009}' || c == '\u{000A}' || c == '\u{000B}' || c == '\u{000C}' || c == '\u{000D}' || c == '\u{0020}'
    || c == '\u{0085}' || c == '\u{200E}' || c == '\u{200F}' || c == '\u{2028}' || c == '\u{2029}'
}

// ---- UTF-8 length ---------------------------------------------------------------------------
pub open spec fn utf8_clen(c: char) -> nat {
    if (c as u32) < 0x80 { 1 } else if (c as u32) < 0x800 { 2 } else if (c as u32) < 0x10000 { 3 } else { 4 }
}
pub open spec fn utf8_len(s: Seq<char>) -> nat
    decreases s.len()
{
    if s.len() == 0 { 0 } else { utf8_len(s.drop_last()) + utf8_clen(s.last()) }
}
pub proof fn lemma_utf8_len_push(s: Seq<char>, c: char)
    ensures utf8_len(s.push(c)) == utf8_len(s) + utf8_clen(c)
{
    assert(s.push(c).drop_last() =~= s);
}
pub proof fn lemma_utf8_len_add(a: Seq<char>, b: Seq<char>)
    ensures utf8_len(a + b) == utf8_len(a) + utf8_len(b)
    decreases b.len()
{
    if b.len() == 0 {
        assert(a + b =~= a);
    } else {
        assert((a + b).drop_last() =~= a + b.drop_last());
        lemma_utf8_len_add(a, b.drop_last());
    }
}
pub proof fn lemma_utf8_len_ge(s: Seq<char>)
    ensures utf8_len(s) >= s.len()
    decreases s.len()
{
    if s.len() > 0 { lemma_utf8_len_ge(s.drop_last()); }
}

// ---- the cursor model -------------------------------------------------------------------------
pub const EOF_CHAR: char = '\0';
impl<'a> Cursor<'a> {
    /// characters not yet consumed
    pub uninterp spec fn rest(&self) -> Seq<char>;
    /// characters consumed since the last `reset_pos_within_token`
    pub uninterp spec fn tok(&self) -> Seq<char>;
    /// the last character consumed (debug builds)
    pub uninterp spec fn prevc(&self) -> char;
}
/// `post` is `pre` after consuming n >= 0 characters (opaque: used through the lemmas below, so
/// that large functions do not drown in sequence axioms)
#[verifier::opaque]
pub open spec fn advanced(pre: Cursor, post: Cursor) -> bool {
    let n = pre.rest().len() - post.rest().len();
    &&& n >= 0
    &&& post.rest() == pre.rest().skip(n)
    &&& post.tok() == pre.tok() + pre.rest().take(n)
    &&& (n == 0 ==> post.prevc() == pre.prevc())
    &&& (n > 0 ==> post.prevc() == pre.rest()[n - 1])
}
pub open spec fn eaten(pre: Cursor, post: Cursor) -> int { pre.rest().len() - post.rest().len() }
/// byte size of everything the cursor still has to deal with (global bound, DESIGN §7)
pub open spec fn total(c: Cursor) -> nat { utf8_len(c.tok()) + utf8_len(c.rest()) }
pub open spec fn fits(c: Cursor) -> bool { total(c) <= 0x7fff_ffff }
pub open spec fn peek(c: Cursor) -> char { if c.rest().len() > 0 { c.rest()[0] } else { '\0' } }
/// two adjacent underscores among the first n characters of s
pub open spec fn adj_us(s: Seq<char>, n: int) -> bool { exists|i: int| 0 <= i && i + 1 < n && i + 1 < s.len() && s[i] == '_' && #[trigger] s[i + 1] == '_' }
/// C15: a time or imaginary unit is ahead (s, dt, ns, us, ms, µs, im): a numeric literal directly followed by one ends before it
/// -- the unit is a token of its own
pub open spec fn unit_ahead(s: Seq<char>) -> bool {
    ||| (s.len() >= 1 && s[0] == 's')
    ||| (s.len() >= 2 && s[1] == 's' && (s[0] == 'n' || s[0] == 'u' || s[0] == 'm' || s[0] == 'µ'))
    ||| (s.len() >= 2 && s[0] == 'd' && s[1] == 't')
    ||| (s.len() >= 2 && s[0] == 'i' && s[1] == 'm')
}

pub broadcast proof fn lemma_advanced_refl(a: Cursor)
    ensures #[trigger] advanced(a, a)
{
    reveal(advanced);
    assert(a.rest().skip(0) =~= a.rest());
    assert(a.tok() + a.rest().take(0) =~= a.tok());
}
pub broadcast proof fn lemma_advanced_trans(a: Cursor, b: Cursor, c: Cursor)
    requires #[trigger] advanced(a, b), #[trigger] advanced(b, c),
    ensures advanced(a, c)
{
    reveal(advanced);
    let n = a.rest().len() - b.rest().len();
    let m = b.rest().len() - c.rest().len();
    assert(a.rest().skip(n).skip(m) =~= a.rest().skip(n + m));
    assert(a.rest().take(n) + a.rest().skip(n).take(m) =~= a.rest().take(n + m));
    assert((a.tok() + a.rest().take(n)) + a.rest().skip(n).take(m) =~= a.tok() + a.rest().take(n + m));
}
pub broadcast proof fn lemma_advanced_total(a: Cursor, b: Cursor)
    requires #[trigger] advanced(a, b),
    ensures total(b) == total(a), utf8_len(b.tok()) >= utf8_len(a.tok()), b.tok().len() >= a.tok().len(),
        utf8_len(b.tok()) == utf8_len(a.tok()) + utf8_len(a.rest().take(eaten(a, b))),
        eaten(a, b) <= utf8_len(a.rest().take(eaten(a, b))),
{
    reveal(advanced);
    let n = a.rest().len() - b.rest().len();
    lemma_utf8_len_add(a.tok(), a.rest().take(n));
    assert(a.rest().take(n) + a.rest().skip(n) =~= a.rest());
    lemma_utf8_len_add(a.rest().take(n), a.rest().skip(n));
    lemma_utf8_len_ge(a.rest().take(n));
}
/// one `bump` on a non-empty cursor is an advance by one character
/// (justifies the form in which the trusted contract of `Cursor::bump` is stated)
pub proof fn lemma_bump_advanced(a: Cursor, b: Cursor)
    requires a.rest().len() > 0, b.rest() == a.rest().skip(1), b.tok() == a.tok().push(a.rest()[0]), b.prevc() == a.rest()[0],
    ensures advanced(a, b), eaten(a, b) == 1
{
    reveal(advanced);
    assert(a.tok().push(a.rest()[0]) =~= a.tok() + a.rest().take(1));
}
pub broadcast proof fn lemma_skip_skip(s: Seq<char>, a: int, b: int)
    requires 0 <= a, 0 <= b, a + b <= s.len(),
    ensures #[trigger] s.skip(a).skip(b) == s.skip(a + b)
{ assert(s.skip(a).skip(b) =~= s.skip(a + b)); }
/// what an advance means for the remaining input and the last consumed character
pub broadcast proof fn lemma_advanced_rest(a: Cursor, b: Cursor)
    requires #[trigger] advanced(a, b),
    ensures eaten(a, b) >= 0, b.rest() == a.rest().skip(eaten(a, b)), b.tok() == a.tok() + a.rest().take(eaten(a, b)),
        eaten(a, b) == 0 ==> b.prevc() == a.prevc(), eaten(a, b) > 0 ==> b.prevc() == a.rest()[eaten(a, b) - 1],
{ reveal(advanced); }
/// explicit composition step (used where broadcasting the lemmas above would be too expensive)
pub proof fn lemma_step(a: Cursor, b: Cursor, c: Cursor)
    requires advanced(a, b), advanced(b, c),
    ensures advanced(a, c), eaten(a, c) == eaten(a, b) + eaten(b, c), eaten(a, c) >= 0,
        c.rest() == a.rest().skip(eaten(a, c)), peek(c) == ch(a.rest(), eaten(a, c)),
        b.rest() == a.rest().skip(eaten(a, b)), total(c) == total(a), fits(a) ==> fits(c),
        eaten(b, c) > 0 ==> c.prevc() == b.rest()[eaten(b, c) - 1], eaten(b, c) == 0 ==> c.prevc() == b.prevc(),
{
    lemma_advanced_trans(a, b, c);
    lemma_advanced_total(a, c);
    lemma_advanced_rest(a, c);
    lemma_advanced_rest(a, b);
    lemma_advanced_rest(b, c);
}
pub broadcast group lex_lemmas { lemma_advanced_rest,
    axiom_xid_start_ascii, axiom_xid_continue_ascii, lemma_advanced_refl, lemma_advanced_trans, lemma_advanced_total,
}

// ---- stage B: exact extents and flags of numeric literals (C15 maximal munch, C11 flags) --------
pub open spec fn is_dec(c: char) -> bool { '0' <= c && c <= '9' }
pub open spec fn is_hex(c: char) -> bool { is_dec(c) || ('a' <= c && c <= 'f') || ('A' <= c && c <= 'F') }
pub open spec fn dec_us(c: char) -> bool { c == '_' || is_dec(c) }
pub open spec fn hex_us(c: char) -> bool { c == '_' || is_hex(c) }
/// length of the maximal run of decimal digits / underscores at the start of `s`
pub open spec fn run_dec(s: Seq<char>) -> nat
    decreases s.len()
{ if s.len() > 0 && dec_us(s[0]) { 1 + run_dec(s.skip(1)) } else { 0 } }
pub open spec fn run_hex(s: Seq<char>) -> nat
    decreases s.len()
{ if s.len() > 0 && hex_us(s[0]) { 1 + run_hex(s.skip(1)) } else { 0 } }
pub open spec fn has_dec(s: Seq<char>) -> bool { exists|i: int| 0 <= i < s.len() && is_dec(#[trigger] s[i]) }
pub open spec fn has_hex(s: Seq<char>) -> bool { exists|i: int| 0 <= i < s.len() && is_hex(#[trigger] s[i]) }
pub proof fn lemma_run_dec_le(s: Seq<char>) ensures run_dec(s) <= s.len() decreases s.len() { if s.len() > 0 && dec_us(s[0]) { lemma_run_dec_le(s.skip(1)); } }
pub proof fn lemma_run_hex_le(s: Seq<char>) ensures run_hex(s) <= s.len() decreases s.len() { if s.len() > 0 && hex_us(s[0]) { lemma_run_hex_le(s.skip(1)); } }
/// one more step of a run: if the k-th char continues the run
pub proof fn lemma_run_dec_split(s: Seq<char>, k: nat)
    requires k <= run_dec(s),
    ensures k <= s.len(), run_dec(s) == k + run_dec(s.skip(k as int)), forall|i: int| 0 <= i < k ==> dec_us(#[trigger] s[i]),
    decreases k
{
    lemma_run_dec_le(s);
    if k > 0 {
        lemma_run_dec_split(s.skip(1), (k - 1) as nat);
        assert(s.skip(1).skip(k - 1) =~= s.skip(k as int));
        assert forall|i: int| 0 <= i < k implies dec_us(#[trigger] s[i]) by { if i > 0 { assert(s[i] == s.skip(1)[i - 1]); } }
    } else { assert(s.skip(0) =~= s); }
}
pub proof fn lemma_run_hex_split(s: Seq<char>, k: nat)
    requires k <= run_hex(s),
    ensures k <= s.len(), run_hex(s) == k + run_hex(s.skip(k as int)), forall|i: int| 0 <= i < k ==> hex_us(#[trigger] s[i]),
    decreases k
{
    lemma_run_hex_le(s);
    if k > 0 {
        lemma_run_hex_split(s.skip(1), (k - 1) as nat);
        assert(s.skip(1).skip(k - 1) =~= s.skip(k as int));
        assert forall|i: int| 0 <= i < k implies hex_us(#[trigger] s[i]) by { if i > 0 { assert(s[i] == s.skip(1)[i - 1]); } }
    } else { assert(s.skip(0) =~= s); }
}
pub proof fn lemma_has_dec_push(s: Seq<char>, c: char) ensures has_dec(s.push(c)) == (has_dec(s) || is_dec(c))
{
    let t = s.push(c);
    if has_dec(s) { let i = choose|i: int| 0 <= i < s.len() && is_dec(#[trigger] s[i]); assert(is_dec(t[i])); }
    if is_dec(c) { assert(is_dec(t[s.len() as int])); }
    if has_dec(t) { let i = choose|i: int| 0 <= i < t.len() && is_dec(#[trigger] t[i]); if i < s.len() { assert(is_dec(s[i])); } }
}
pub proof fn lemma_has_hex_push(s: Seq<char>, c: char) ensures has_hex(s.push(c)) == (has_hex(s) || is_hex(c))
{
    let t = s.push(c);
    if has_hex(s) { let i = choose|i: int| 0 <= i < s.len() && is_hex(#[trigger] s[i]); assert(is_hex(t[i])); }
    if is_hex(c) { assert(is_hex(t[s.len() as int])); }
    if has_hex(t) { let i = choose|i: int| 0 <= i < t.len() && is_hex(#[trigger] t[i]); if i < s.len() { assert(is_hex(s[i])); } }
}
/// what `eat_float_exponent` must do on `s` (the text after the exponent marker): optional sign,
/// then a maximal run of digits/underscores; (chars consumed, at least one digit)
pub open spec fn exponent_spec(s: Seq<char>) -> (nat, bool) {
    let sg: nat = if s.len() > 0 && (s[0] == '-' || s[0] == '+') { 1 } else { 0 };
    let d = s.skip(sg as int);
    (sg + run_dec(d), has_dec(d.take(run_dec(d) as int)))
}
pub open spec fn ch(s: Seq<char>, i: int) -> char { if 0 <= i < s.len() { s[i] } else { '\0' } }
/// the part of a numeric literal after its integer digits, starting at offset `pos` of `s`:
/// `. digits? (e|E [+-]? digits)?`  |  `(e|E) [+-]? digits`  |  nothing   (OpenQASM 3 float syntax)
#[verifier::opaque]
pub open spec fn frac_exp_spec(base: Base, s: Seq<char>, pos: int) -> (LiteralKind, int) {
    let c = ch(s, pos);
    if c == '.' {
        if is_dec(ch(s, pos + 1)) {
            let p2 = pos + 1 + run_dec(s.skip(pos + 1));
            if ch(s, p2) == 'e' || ch(s, p2) == 'E' {
                let ex = exponent_spec(s.skip(p2 + 1));
                (LiteralKind::Float { base, empty_exponent: !ex.1 }, p2 + 1 + ex.0)
            } else { (LiteralKind::Float { base, empty_exponent: false }, p2) }
        } else { (LiteralKind::Float { base, empty_exponent: false }, pos + 1) }
    } else if c == 'e' || c == 'E' {
        let ex = exponent_spec(s.skip(pos + 1));
        (LiteralKind::Float { base, empty_exponent: !ex.1 }, pos + 1 + ex.0)
    } else { (LiteralKind::Int { base, empty_int: false }, pos) }
}
/// a numeric literal whose first digit `first` has been consumed and whose remaining text is `s`:
/// (literal class with its malformedness flag, number of further characters it extends over)
#[verifier::opaque]
pub open spec fn num_spec(first: char, s: Seq<char>) -> (LiteralKind, int) {
    if first == '0' {
        let c = ch(s, 0);
        if c == 'b' || c == 'o' {
            let base = if c == 'b' { Base::Binary } else { Base::Octal };
            let d = run_dec(s.skip(1)) as int;
            if !has_dec(s.skip(1).take(d)) { (LiteralKind::Int { base, empty_int: true }, 1 + d) } else { frac_exp_spec(base, s, 1 + d) }
        } else if c == 'x' {
            let d = run_hex(s.skip(1)) as int;
            if !has_hex(s.skip(1).take(d)) { (LiteralKind::Int { base: Base::Hexadecimal, empty_int: true }, 1 + d) } else { frac_exp_spec(Base::Hexadecimal, s, 1 + d) }
        } else if dec_us(c) { frac_exp_spec(Base::Decimal, s, run_dec(s) as int) }
        else if c == '.' || c == 'e' || c == 'E' { frac_exp_spec(Base::Decimal, s, 0) }
        else { (LiteralKind::Int { base: Base::Decimal, empty_int: false }, 0) }
    } else { frac_exp_spec(Base::Decimal, s, run_dec(s) as int) }
}
/// `.5e3`: digits then an optional exponent
pub open spec fn dot_float_spec(s: Seq<char>) -> (LiteralKind, int) {
    let f = run_dec(s) as int;
    if ch(s, f) == 'e' || ch(s, f) == 'E' {
        let ex = exponent_spec(s.skip(f + 1));
        (LiteralKind::Float { base: Base::Decimal, empty_exponent: !ex.1 }, f + 1 + ex.0)
    } else { (LiteralKind::Float { base: Base::Decimal, empty_exponent: false }, f) }
}

// ---- stage C: where a quoted string / a (nested) block comment ends -----------------------------
pub open spec fn lift(o: Option<int>, k: int) -> Option<int> { match o { Some(n) => Some(n + k), None => None } }
/// number of characters up to and including the closing quote `q`, scanning from just after the
/// opening quote; `\\` and `\q` are escapes; None if the input ends first (unterminated)
pub open spec fn str_end(s: Seq<char>, q: char) -> Option<int>
    decreases s.len()
{
    if s.len() == 0 { None }
    else if s[0] == q { Some(1int) }
    else if s[0] == '\\' && s.len() >= 2 && (s[1] == '\\' || s[1] == q) { lift(str_end(s.skip(2), q), 2) }
    else { lift(str_end(s.skip(1), q), 1) }
}
/// number of characters up to and including the `*/` that closes the comment, scanning from just
/// after its `/*` at nesting depth `depth` (block comments nest); None if the input ends first
pub open spec fn bc_end(s: Seq<char>, depth: int) -> Option<int>
    decreases s.len()
{
    if s.len() == 0 { None }
    else if s[0] == '/' && s.len() >= 2 && s[1] == '*' { lift(bc_end(s.skip(2), depth + 1), 2) }
    else if s[0] == '*' && s.len() >= 2 && s[1] == '/' { if depth <= 1 { Some(2int) } else { lift(bc_end(s.skip(2), depth - 1), 2) } }
    else { lift(bc_end(s.skip(1), depth), 1) }
}
