    /// result of a look-up (opaque: borrows the symbol table); `tuple()` is what `.as_tuple()` yields
    #[verifier::external_body] pub struct SymbolRecordResult { _p: u8 }
    impl SymbolRecordResult {
        pub uninterp spec fn tuple(&self) -> (SymbolIdResult, Type);
        /// SymbolErrorTrait::as_tuple (symbols.rs; closure in Result::map): id and type of the
        /// record, or (Err(MissingBinding), Type::Undefined)
        #[verifier::external_body] pub fn as_tuple(&self) -> (r: (SymbolIdResult, Type)) ensures r == self.tuple() { unimplemented!() }
    }
    #[verifier::external_body] pub struct SymbolTable { _p: u8 }
    impl SymbolTable {
        pub uninterp spec fn global(&self) -> bool;
        pub uninterp spec fn scope_type(&self) -> ScopeType;
        #[verifier::external_body] pub fn in_global_scope(&self) -> (r: bool) ensures r == self.global() { unimplemented!() }
        #[verifier::external_body] pub fn current_scope_type(&self) -> (r: ScopeType) ensures r == self.scope_type() { unimplemented!() }
    }
}
pub mod context {
    use vstd::prelude::*;
    use super::semantic_error::SemanticErrorKind;
    use super::symbols::*;
    use super::types::Type;
    use super::asg;
    use super::synast::AstNode;
    #[verifier::external_body] pub struct Context { _p: u8 }
    /// one step of the analysis as far as the symbol table is concerned
    pub enum Ev { Lookup(Seq<char>), Bind(Seq<char>, Type) }
    impl Context {
        /// kinds of the semantic diagnostics recorded so far, in order
        pub uninterp spec fn errs(&self) -> Seq<SemanticErrorKind>;
        /// what the name resolves to now (innermost-first; SYM unit): id and type
        pub uninterp spec fn resolve(&self, name: Seq<char>) -> Option<(SymbolId, Type)>;
        /// names bound in the current (innermost) scope
        pub uninterp spec fn in_current_scope(&self, name: Seq<char>) -> bool;
        pub uninterp spec fn global(&self) -> bool;
        pub uninterp spec fn const_value(&self, id: SymbolId) -> Option<asg::TExpr>;
        /// order of symbol-table events (C07: an initializer is analysed before its name is bound)
        pub uninterp spec fn trace(&self) -> Seq<Ev>;

        #[verifier::external_body] pub fn insert_error<T: AstNode>(&mut self, error_kind: SemanticErrorKind, node: &T)
            ensures final(self).errs() == old(self).errs().push(error_kind), final(self).same_tables(old(self))
        { unimplemented!() }
        pub open spec fn same_tables(&self, o: &Context) -> bool {
            &&& forall|n: Seq<char>| self.resolve(n) == o.resolve(n)
            &&& forall|n: Seq<char>| self.in_current_scope(n) == o.in_current_scope(n)
            &&& self.global() == o.global()
            &&& forall|i: SymbolId| self.const_value(i) == o.const_value(i)
            &&& self.trace() == o.trace()
        }
        #[verifier::external_body] pub fn symbol_table(&self) -> (r: &SymbolTable)
            ensures r.global() == self.global(), (r.scope_type() == ScopeType::Global) == self.global()
        { unimplemented!() }
        #[verifier::external_body] pub fn get_const_value(&self, id: SymbolId) -> (r: Option<&asg::TExpr>)
            ensures (r is Some) == (self.const_value(id) is Some), r is Some ==> *r->Some_0 == self.const_value(id)->Some_0
        { unimplemented!() }
        #[verifier::external_body] pub fn insert_const_value(&mut self, id: SymbolId, value: asg::TExpr)
            ensures final(self).errs() == old(self).errs(), final(self).const_value(id) == Some(value),
                forall|n: Seq<char>| final(self).resolve(n) == old(self).resolve(n), final(self).global() == old(self).global(),
                final(self).trace() == old(self).trace(),
        { unimplemented!() }
        /// SYM unit (Context::lookup_symbol + lookup + as_tuple): exactly one UndefVarError iff unresolved
        #[verifier::external_body] pub fn lookup_symbol<T: AstNode>(&mut self, name: &str, node: &T) -> (r: SymbolRecordResult)
            ensures
                final(self).same_tables_but_trace(old(self)), final(self).trace() == old(self).trace().push(Ev::Lookup(name@)),
                old(self).resolve(name@) is Some ==> final(self).errs() == old(self).errs()
                    && r.tuple() == (Ok::<SymbolId, SymbolError>(old(self).resolve(name@)->Some_0.0), old(self).resolve(name@)->Some_0.1),
                old(self).resolve(name@) is None ==> final(self).errs() == old(self).errs().push(SemanticErrorKind::UndefVarError)
                    && r.tuple() == (Err::<SymbolId, SymbolError>(SymbolError::MissingBinding), Type::Undefined),
        { unimplemented!() }
        #[verifier::external_body] pub fn lookup_gate_symbol<T: AstNode>(&mut self, name: &str, node: &T) -> (r: SymbolRecordResult)
            ensures
                final(self).same_tables_but_trace(old(self)), final(self).trace() == old(self).trace().push(Ev::Lookup(name@)),
                old(self).resolve(name@) is Some ==> final(self).errs() == old(self).errs()
                    && r.tuple() == (Ok::<SymbolId, SymbolError>(old(self).resolve(name@)->Some_0.0), old(self).resolve(name@)->Some_0.1),
                old(self).resolve(name@) is None ==> final(self).errs() == old(self).errs().push(SemanticErrorKind::UndefGateError)
                    && r.tuple() == (Err::<SymbolId, SymbolError>(SymbolError::MissingBinding), Type::Undefined),
        { unimplemented!() }
        pub open spec fn same_tables_but_trace(&self, o: &Context) -> bool {
            &&& forall|n: Seq<char>| self.resolve(n) == o.resolve(n)
            &&& forall|n: Seq<char>| self.in_current_scope(n) == o.in_current_scope(n)
            &&& self.global() == o.global()
            &&& forall|i: SymbolId| self.const_value(i) == o.const_value(i)
        }
        /// SYM unit (Context::new_binding): one RedeclarationError iff the name is in the current scope
        #[verifier::external_body] pub fn new_binding<T: AstNode>(&mut self, name: &str, typ: &Type, node: &T) -> (r: SymbolIdResult)
            ensures
                final(self).trace() == old(self).trace().push(Ev::Bind(name@, *typ)), final(self).global() == old(self).global(),
                forall|i: SymbolId| final(self).const_value(i) == old(self).const_value(i),
                old(self).in_current_scope(name@) ==> r is Err && final(self).errs().len() == old(self).errs().len() + 1
                    && final(self).errs().drop_last() == old(self).errs() && final(self).errs().last() is RedeclarationError
                    && (forall|n: Seq<char>| final(self).resolve(n) == old(self).resolve(n)),
                !old(self).in_current_scope(name@) ==> r is Ok && final(self).errs() == old(self).errs()
                    && final(self).resolve(name@) == Some((r->Ok_0, *typ))
                    && (forall|n: Seq<char>| n != name@ ==> final(self).resolve(n) == old(self).resolve(n)),
        { unimplemented!() }
    }
}
