    /// result of a look-up (opaque: borrows the symbol table); `tuple()` is what `.as_tuple()` yields
    #[verifier::external_body] pub struct SymbolRecordResult { _p: u8 }
    impl SymbolRecordResult {
        pub uninterp spec fn tuple(&self) -> (SymbolIdResult, Type);
        /// SymbolErrorTrait::as_tuple (symbols.rs; closure in Result::map): id and type of the
        /// record, or (Err(MissingBinding), Type::Undefined)
        #[verifier::external_body] pub fn as_tuple(&self) -> (r: (SymbolIdResult, Type)) ensures r == self.tuple() { unimplemented!() }
        /// the rest of the API of a look-up result (SymbolErrorTrait::to_symbol_id, SymbolType::symbol_type, Result::is_ok / is_err):
        /// not used by the analyser today; stated so that an edit that starts using them stays inside the verified dialect
        #[verifier::external_body] pub fn to_symbol_id(&self) -> (r: SymbolIdResult) ensures r == self.tuple().0 { unimplemented!() }
        #[verifier::external_body] pub fn symbol_type(&self) -> (r: &Type) ensures *r == self.tuple().1 { unimplemented!() }
        #[verifier::external_body] pub fn is_ok(&self) -> (r: bool) ensures r == (self.tuple().0 is Ok) { unimplemented!() }
        #[verifier::external_body] pub fn is_err(&self) -> (r: bool) ensures r == (self.tuple().0 is Err) { unimplemented!() }
    }
    /// one scope: name -> (id, type of the symbol)   (the stack-of-maps view PROVED in unit SYM,
    /// with the symbol's type looked up in the store)
    pub type Scope = Map<Seq<char>, (SymbolId, Type)>;
    /// one step of the analysis as far as the symbol table is concerned
    pub enum Ev { Lookup(Seq<char>), Bind(Seq<char>, Type), Enter(ScopeType), Exit }
    /// innermost-first resolution over a stack of scopes (same definition as unit SYM)
    pub open spec fn resolve_in(st: Seq<Scope>, name: Seq<char>) -> Option<(SymbolId, Type)>
        decreases st.len()
    {
        if st.len() == 0 { None }
        else if st.last().contains_key(name) { Some(st.last()[name]) }
        else { resolve_in(st.drop_last(), name) }
    }
    /// the innermost scope gains exactly one binding
    pub open spec fn bind_in(st: Seq<Scope>, name: Seq<char>, v: (SymbolId, Type)) -> Seq<Scope> {
        st.update(st.len() - 1, st.last().insert(name, v))
    }
    #[verifier::external_body] pub struct SymbolTable { _p: u8 }
    impl SymbolTable {
        pub uninterp spec fn scopes(&self) -> Seq<Scope>;
        pub uninterp spec fn scope_types(&self) -> Seq<ScopeType>;
        /// order of symbol-table events (C07)
        pub uninterp spec fn trace(&self) -> Seq<Ev>;
        /// representation invariant as far as this unit needs it (unit SYM: wf): the global scope
        /// is always open and it is the only one of type Global
        pub open spec fn wf(&self) -> bool {
            &&& self.scopes().len() >= 1
            &&& self.scope_types().len() == self.scopes().len()
            &&& forall|i: int| 0 <= i < self.scope_types().len() ==> ((#[trigger] self.scope_types()[i] == ScopeType::Global) <==> i == 0)
        }
        pub open spec fn global(&self) -> bool { self.scopes().len() == 1 }
        pub open spec fn scope_type(&self) -> ScopeType { self.scope_types().last() }
        /// unit SYM: in_global_scope / current_scope_type
        #[verifier::external_body] pub fn in_global_scope(&self) -> (r: bool) requires self.wf(), ensures r == self.global() { unimplemented!() }
        #[verifier::external_body] pub fn current_scope_type(&self) -> (r: ScopeType) requires self.wf(), ensures r == self.scope_type() { unimplemented!() }
        /// unit SYM: lookup (innermost scope first).  The table is borrowed immutably: this look-up reports nothing and is not
        /// recorded in the trace (the analyser goes through Context::lookup_symbol / lookup_gate_symbol, which do both)
        #[verifier::external_body] pub fn lookup(&self, name: &str) -> (r: SymbolRecordResult)
            requires self.wf(),
            ensures
                resolve_in(self.scopes(), name@) is Some ==> r.tuple() == (Ok::<SymbolId, SymbolError>(resolve_in(self.scopes(), name@)->Some_0.0), resolve_in(self.scopes(), name@)->Some_0.1),
                resolve_in(self.scopes(), name@) is None ==> r.tuple() == (Err::<SymbolId, SymbolError>(SymbolError::MissingBinding), Type::Undefined),
        { unimplemented!() }
        /// unit SYM: lookup_or_new_binding (an existing, otherwise unused helper): the visible binding if there is one -- nothing
        /// changes then --, else a new binding in the current scope.  Stated so that an edit that starts using it stays decided.
        #[verifier::external_body] pub fn lookup_or_new_binding(&mut self, name: &str, typ: &Type) -> (r: SymbolId)
            requires old(self).wf(),
            ensures final(self).wf(), final(self).scope_types() == old(self).scope_types(),
                resolve_in(old(self).scopes(), name@) is Some ==> r == resolve_in(old(self).scopes(), name@)->Some_0.0 && final(self).scopes() == old(self).scopes()
                    && final(self).trace() == old(self).trace().push(Ev::Lookup(name@)),
                resolve_in(old(self).scopes(), name@) is None ==> final(self).scopes() == bind_in(old(self).scopes(), name@, (r, *typ))
                    && final(self).trace() == old(self).trace().push(Ev::Bind(name@, *typ)),
        { unimplemented!() }
        /// unit SYM: enter_scope (the body panics on ScopeType::Global)
        #[verifier::external_body] pub fn enter_scope(&mut self, scope_type: ScopeType)
            requires old(self).wf(), scope_type != ScopeType::Global,
            ensures final(self).scopes() == old(self).scopes().push(Map::<Seq<char>, (SymbolId, Type)>::empty()),
                final(self).scope_types() == old(self).scope_types().push(scope_type),
                final(self).trace() == old(self).trace().push(Ev::Enter(scope_type)), final(self).wf(),
        { unimplemented!() }
        /// unit SYM: exit_scope (the body asserts that the global scope is never closed)
        #[verifier::external_body] pub fn exit_scope(&mut self)
            requires old(self).wf(), old(self).scopes().len() > 1,
            ensures final(self).scopes() == old(self).scopes().drop_last(), final(self).scope_types() == old(self).scope_types().drop_last(),
                final(self).trace() == old(self).trace().push(Ev::Exit), final(self).wf(),
        { unimplemented!() }
    }
}
pub mod context {
    use vstd::prelude::*;
    use super::semantic_error::{SemanticErrorKind, SemanticErrorList};
    use super::symbols::*;
    use super::types::Type;
    use super::asg;
    use super::synast::AstNode;
    pub use super::symbols::Ev;
    /// the rest of the analyser context (const values, pending annotations)
    #[verifier::external_body] pub struct ContextRest { _p: u8 }
    impl ContextRest {
        pub uninterp spec fn const_value(&self, id: SymbolId) -> Option<asg::TExpr>;
        /// annotations waiting for the statement that follows them
        pub uninterp spec fn annots(&self) -> Seq<asg::Annotation>;
    }
    /// `symbol_table`, `semantic_errors`, `program` are the real field names (the `with_scope!` macro of context.rs
    /// and syntax_to_semantic reach them directly)
    pub struct Context { pub symbol_table: SymbolTable, pub semantic_errors: SemanticErrorList, pub program: asg::Program, pub rest: ContextRest }
    impl Context {
        /// kinds of the semantic diagnostics recorded so far (for the file being analysed), in order
        pub open spec fn errs(&self) -> Seq<SemanticErrorKind> { self.semantic_errors.kinds() }
        pub open spec fn scopes(&self) -> Seq<Scope> { self.symbol_table.scopes() }
        /// what the name resolves to now (innermost-first; SYM unit): id and type
        pub open spec fn resolve(&self, name: Seq<char>) -> Option<(SymbolId, Type)> { resolve_in(self.symbol_table.scopes(), name) }
        /// names bound in the current (innermost) scope
        pub open spec fn in_current_scope(&self, name: Seq<char>) -> bool { self.symbol_table.scopes().last().contains_key(name) }
        pub open spec fn global(&self) -> bool { self.symbol_table.global() }
        pub open spec fn const_value(&self, id: SymbolId) -> Option<asg::TExpr> { self.rest.const_value(id) }
        pub open spec fn annots(&self) -> Seq<asg::Annotation> { self.rest.annots() }
        /// order of symbol-table events (C07: an initializer is analysed before its name is bound)
        pub open spec fn trace(&self) -> Seq<Ev> { self.symbol_table.trace() }
        pub open spec fn wf(&self) -> bool { self.symbol_table.wf() }
        /// nothing but the list of diagnostics differs
        pub open spec fn same_tables(&self, o: &Context) -> bool {
            &&& self.symbol_table == o.symbol_table
            &&& self.program == o.program
            &&& self.rest == o.rest
            &&& self.semantic_errors.included() == o.semantic_errors.included()
        }
        /// context.rs: `Context { program: asg::Program::new(), semantic_errors: SemanticErrorList::new(file_path), symbol_table: SymbolTable::new(), .. }`
        /// (unit SYM proves exactly this contract for Context::new)
        #[verifier::external_body] pub fn new(file_path: crate::source::PathBuf) -> (r: Context)
            ensures r.wf(), r.global(), r.errs() == Seq::<SemanticErrorKind>::empty(), r.semantic_errors.included().len() == 0,
                r.program.stmts@.len() == 0, r.program.version is None, r.annots().len() == 0,
        { unimplemented!() }

        #[verifier::external_body] pub fn insert_error<T: AstNode>(&mut self, error_kind: SemanticErrorKind, node: &T)
            ensures final(self).errs() == old(self).errs().push(error_kind), final(self).same_tables(old(self))
        { unimplemented!() }
        /// context.rs: `self.annotations.push(annotation)`
        #[verifier::external_body] pub fn push_annotation(&mut self, annotation: asg::Annotation)
            ensures final(self).semantic_errors == old(self).semantic_errors, final(self).symbol_table == old(self).symbol_table, final(self).program == old(self).program,
                forall|i: SymbolId| final(self).const_value(i) == old(self).const_value(i), final(self).annots() == old(self).annots().push(annotation),
        { unimplemented!() }
        /// context.rs: `self.annotations.is_empty()`
        #[verifier::external_body] pub fn annotations_is_empty(&self) -> (r: bool) ensures r == (self.annots().len() == 0) { unimplemented!() }
        /// context.rs: clone the pending annotations, clear them, return the clone
        #[verifier::external_body] pub fn take_annotations(&mut self) -> (r: Vec<asg::Annotation>)
            ensures r@ == old(self).annots(), final(self).annots().len() == 0,
                final(self).semantic_errors == old(self).semantic_errors, final(self).symbol_table == old(self).symbol_table, final(self).program == old(self).program,
                forall|i: SymbolId| final(self).const_value(i) == old(self).const_value(i),
        { unimplemented!() }
        /// context.rs: `self.semantic_errors.push_included(errors)`
        #[verifier::external_body] pub fn push_errors_from_included_file(&mut self, errors: SemanticErrorList)
            ensures final(self).errs() == old(self).errs(), final(self).semantic_errors.included() == old(self).semantic_errors.included().push(errors),
                final(self).symbol_table == old(self).symbol_table, final(self).program == old(self).program, final(self).rest == old(self).rest,
        { unimplemented!() }
        /// context.rs: binds the standard-library gates in the current scope (one RedeclarationError per name already bound);
        /// unit SYM new_binding: nothing is replaced, no scope is opened or closed
        #[verifier::external_body] pub fn standard_library_gates<T: AstNode>(&mut self, node: &T)
            requires old(self).wf(),
            ensures crate::scoped(*old(self), *final(self)), final(self).rest == old(self).rest,
                // every name of the library is bound afterwards (by this call, or before it: then it is reported as a redeclaration)
                forall|n: Seq<char>| #[trigger] crate::std_gate(n) ==> final(self).resolve(n) is Some,
        { unimplemented!() }
        #[verifier::external_body] pub fn symbol_table(&self) -> (r: &SymbolTable)
            ensures *r == self.symbol_table
        { unimplemented!() }
        #[verifier::external_body] pub fn get_const_value(&self, id: SymbolId) -> (r: Option<&asg::TExpr>)
            ensures (r is Some) == (self.const_value(id) is Some), r is Some ==> *r->Some_0 == self.const_value(id)->Some_0
        { unimplemented!() }
        #[verifier::external_body] pub fn insert_const_value(&mut self, id: SymbolId, value: asg::TExpr)
            ensures final(self).semantic_errors == old(self).semantic_errors, final(self).const_value(id) == Some(value),
                final(self).symbol_table == old(self).symbol_table, final(self).program == old(self).program, final(self).annots() == old(self).annots(),
        { unimplemented!() }
        /// SYM unit (Context::lookup_symbol + lookup + as_tuple): exactly one UndefVarError iff unresolved
        #[verifier::external_body] pub fn lookup_symbol<T: AstNode>(&mut self, name: &str, node: &T) -> (r: SymbolRecordResult)
            requires old(self).wf(),
            ensures
                final(self).same_tables_but_trace(old(self)), final(self).trace() == old(self).trace().push(Ev::Lookup(name@)),
                old(self).resolve(name@) is Some ==> final(self).errs() == old(self).errs()
                    && r.tuple() == (Ok::<SymbolId, SymbolError>(old(self).resolve(name@)->Some_0.0), old(self).resolve(name@)->Some_0.1),
                old(self).resolve(name@) is None ==> final(self).errs() == old(self).errs().push(SemanticErrorKind::UndefVarError)
                    && r.tuple() == (Err::<SymbolId, SymbolError>(SymbolError::MissingBinding), Type::Undefined),
        { unimplemented!() }
        #[verifier::external_body] pub fn lookup_gate_symbol<T: AstNode>(&mut self, name: &str, node: &T) -> (r: SymbolRecordResult)
            requires old(self).wf(),
            ensures
                final(self).same_tables_but_trace(old(self)), final(self).trace() == old(self).trace().push(Ev::Lookup(name@)),
                old(self).resolve(name@) is Some ==> final(self).errs() == old(self).errs()
                    && r.tuple() == (Ok::<SymbolId, SymbolError>(old(self).resolve(name@)->Some_0.0), old(self).resolve(name@)->Some_0.1),
                old(self).resolve(name@) is None ==> final(self).errs() == old(self).errs().push(SemanticErrorKind::UndefGateError)
                    && r.tuple() == (Err::<SymbolId, SymbolError>(SymbolError::MissingBinding), Type::Undefined),
        { unimplemented!() }
        pub open spec fn same_tables_but_trace(&self, o: &Context) -> bool {
            &&& self.symbol_table.scopes() == o.symbol_table.scopes()
            &&& self.symbol_table.scope_types() == o.symbol_table.scope_types()
            &&& self.program == o.program
            &&& self.rest == o.rest
            &&& self.semantic_errors.included() == o.semantic_errors.included()
        }
        /// SYM unit (Context::new_binding): one RedeclarationError iff the name is in the current scope,
        /// and then nothing is bound; otherwise exactly the innermost scope gains exactly this binding
        #[verifier::external_body] pub fn new_binding<T: AstNode>(&mut self, name: &str, typ: &Type, node: &T) -> (r: SymbolIdResult)
            requires old(self).wf(),
            ensures
                final(self).trace() == old(self).trace().push(Ev::Bind(name@, *typ)),
                final(self).symbol_table.scope_types() == old(self).symbol_table.scope_types(),
                final(self).program == old(self).program, final(self).rest == old(self).rest, final(self).semantic_errors.included() == old(self).semantic_errors.included(),
                old(self).in_current_scope(name@) ==> r is Err && final(self).errs().len() == old(self).errs().len() + 1
                    && final(self).errs().drop_last() == old(self).errs() && final(self).errs().last() is RedeclarationError
                    && final(self).scopes() == old(self).scopes(),
                !old(self).in_current_scope(name@) ==> r is Ok && final(self).errs() == old(self).errs()
                    && final(self).scopes() == bind_in(old(self).scopes(), name@, (r->Ok_0, *typ)),
        { unimplemented!() }
    }
}
