// ---------------------------------------------------------------------------------------------
// C05: the binding-power table of `current_op` against the OpenQASM 3 operator table.
// `bp_of` pins what `current_op` returns per operator; `oq3_level` is written from the language
// specification (highest binds tightest):  ** > (unary) > * / % > + - > << >> > < <= > >= > == != >
// & > ^ > | > && > ||  -- all binary operators left-associative except `**`.
// ---------------------------------------------------------------------------------------------
pub open spec fn is_binary_op(k: SyntaxKind) -> bool {
    k == SyntaxKind::DOUBLE_STAR || k == SyntaxKind::STAR || k == SyntaxKind::SLASH || k == SyntaxKind::PERCENT
    || k == SyntaxKind::PLUS || k == SyntaxKind::MINUS || k == SyntaxKind::SHL || k == SyntaxKind::SHR
    || k == SyntaxKind::L_ANGLE || k == SyntaxKind::LTEQ || k == SyntaxKind::R_ANGLE || k == SyntaxKind::GTEQ
    || k == SyntaxKind::EQ2 || k == SyntaxKind::NEQ || k == SyntaxKind::AMP || k == SyntaxKind::CARET || k == SyntaxKind::PIPE
    || k == SyntaxKind::AMP2 || k == SyntaxKind::PIPE2
}
pub open spec fn is_compound_assign(k: SyntaxKind) -> bool {
    k == SyntaxKind::PLUSEQ || k == SyntaxKind::MINUSEQ || k == SyntaxKind::STAREQ || k == SyntaxKind::SLASHEQ || k == SyntaxKind::PERCENTEQ
    || k == SyntaxKind::AMPEQ || k == SyntaxKind::PIPEEQ || k == SyntaxKind::CARETEQ || k == SyntaxKind::SHLEQ || k == SyntaxKind::SHREQ
}
/// precedence level in the OpenQASM 3 specification (larger = binds tighter)
pub open spec fn oq3_level(k: SyntaxKind) -> int {
    if k == SyntaxKind::DOUBLE_STAR { 12 }
    else if k == SyntaxKind::STAR || k == SyntaxKind::SLASH || k == SyntaxKind::PERCENT { 10 }
    else if k == SyntaxKind::PLUS || k == SyntaxKind::MINUS { 9 }
    else if k == SyntaxKind::SHL || k == SyntaxKind::SHR { 8 }
    else if k == SyntaxKind::L_ANGLE || k == SyntaxKind::LTEQ || k == SyntaxKind::R_ANGLE || k == SyntaxKind::GTEQ { 7 }
    else if k == SyntaxKind::EQ2 || k == SyntaxKind::NEQ { 6 }
    else if k == SyntaxKind::AMP { 5 }
    else if k == SyntaxKind::CARET { 4 }
    else if k == SyntaxKind::PIPE { 3 }
    else if k == SyntaxKind::AMP2 { 2 }
    else if k == SyntaxKind::PIPE2 { 1 }
    else { 0 }
}
pub open spec fn oq3_right_assoc(k: SyntaxKind) -> bool { k == SyntaxKind::DOUBLE_STAR }
/// (binding power, right-associative) that `current_op` uses for operator `k`
pub open spec fn bp_of(k: SyntaxKind) -> (u8, bool) {
    if k == SyntaxKind::PIPE2 { (3u8, false) } else if k == SyntaxKind::AMP2 { (4u8, false) }
    else if k == SyntaxKind::EQ2 || k == SyntaxKind::NEQ || k == SyntaxKind::L_ANGLE || k == SyntaxKind::LTEQ
            || k == SyntaxKind::R_ANGLE || k == SyntaxKind::GTEQ { (5u8, false) }
    else if k == SyntaxKind::PIPE { (6u8, false) } else if k == SyntaxKind::CARET || k == SyntaxKind::DOUBLE_STAR { (7u8, false) }
    else if k == SyntaxKind::AMP { (8u8, false) } else if k == SyntaxKind::SHL || k == SyntaxKind::SHR { (9u8, false) }
    else if k == SyntaxKind::PLUS || k == SyntaxKind::MINUS { (10u8, false) }
    else if k == SyntaxKind::STAR || k == SyntaxKind::SLASH || k == SyntaxKind::PERCENT { (11u8, false) }
    else if k == SyntaxKind::EQ { (12u8, true) }
    else if is_compound_assign(k) { (1u8, true) }
    else if k == SyntaxKind::DOUBLE_PLUS || k == SyntaxKind::DOT2 || k == SyntaxKind::DOT2EQ { (2u8, false) }
    else { (0u8, false) }
}
// ---- carve-outs = known findings of C05 -------------------------------------------------------
pub open spec fn is_rel(k: SyntaxKind) -> bool { k == SyntaxKind::L_ANGLE || k == SyntaxKind::LTEQ || k == SyntaxKind::R_ANGLE || k == SyntaxKind::GTEQ }
pub open spec fn is_eq_op(k: SyntaxKind) -> bool { k == SyntaxKind::EQ2 || k == SyntaxKind::NEQ }
pub open spec fn is_bitwise(k: SyntaxKind) -> bool { k == SyntaxKind::AMP || k == SyntaxKind::CARET || k == SyntaxKind::PIPE }
/// KF C05-power: `**` has binding power 7 (same as `^`, below `* / + - << >> &`) and is left-associative
pub open spec fn co_power(a: SyntaxKind, b: SyntaxKind) -> bool { a == SyntaxKind::DOUBLE_STAR || b == SyntaxKind::DOUBLE_STAR }
/// KF C05-eq-rel: `== !=` share a level with `< <= > >=`
pub open spec fn co_eq_rel(a: SyntaxKind, b: SyntaxKind) -> bool { (is_eq_op(a) && is_rel(b)) || (is_rel(a) && is_eq_op(b)) }
/// KF C05-bitwise: `& ^ |` bind tighter than comparison and equality operators
pub open spec fn co_bitwise(a: SyntaxKind, b: SyntaxKind) -> bool {
    (is_bitwise(a) && (is_rel(b) || is_eq_op(b))) || (is_bitwise(b) && (is_rel(a) || is_eq_op(a)))
}
/// outside the carve-outs the binding powers order the binary operators exactly as the specification does
pub proof fn c05_binding_powers_follow_the_table(a: SyntaxKind, b: SyntaxKind)
    requires is_binary_op(a), is_binary_op(b), !co_power(a, b), !co_eq_rel(a, b), !co_bitwise(a, b),
    ensures
        (oq3_level(a) < oq3_level(b)) == (bp_of(a).0 < bp_of(b).0),                            //@C05:precedence-order
        (oq3_level(a) == oq3_level(b)) == (bp_of(a).0 == bp_of(b).0),                          //@C05:precedence-order
{}
pub proof fn c05_associativity(a: SyntaxKind)
    requires is_binary_op(a), a != SyntaxKind::DOUBLE_STAR,
    ensures bp_of(a).1 == oq3_right_assoc(a), bp_of(a).0 >= 1, bp_of(a).0 <= 12,             //@C05:associativity
{}
/// compound assignments are right-associative and bind loosest of all operators
pub proof fn c05_assignments_lowest(a: SyntaxKind, b: SyntaxKind)
    requires is_compound_assign(a), is_binary_op(b),
    ensures bp_of(a).1, bp_of(a).0 < bp_of(b).0,                                               //@C05:assignment-lowest
{}
pub proof fn c05_carve_outs_are_proper()
    ensures !co_power(SyntaxKind::STAR, SyntaxKind::PLUS), !co_eq_rel(SyntaxKind::STAR, SyntaxKind::PLUS), !co_bitwise(SyntaxKind::AMP2, SyntaxKind::PIPE),
{}
