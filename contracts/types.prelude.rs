// ---------------------------------------------------------------------------------------------
// TYPES prelude: spec vocabulary written from the statement of C20 (and C08), assumed std/dep
// contracts.  Nothing here is executable code of /repo.
// ---------------------------------------------------------------------------------------------

// assumed-dep: std::cmp::max on u32 returns the larger argument
use vstd::std_specs::cmp::OrdSpec;
pub assume_specification<T: std::cmp::Ord> [std::cmp::max] (a: T, b: T) -> (r: T)
    ensures
        a.cmp_spec(&b) == std::cmp::Ordering::Greater ==> r == a,
        a.cmp_spec(&b) != std::cmp::Ordering::Greater ==> r == b;

// assumed-dep: `#[derive(BoolEnum)]` (crate boolenum) generates `From<bool> for IsConst`
// mapping true -> True, false -> False.
impl From<bool> for IsConst {
    #[verifier::external_body]
    fn from(b: bool) -> (r: IsConst)
        ensures b ==> r == IsConst::True, !b ==> r == IsConst::False
    { unimplemented!() }
}

// ---- the numeric tower of the statement: int, uint < float < complex; widths: w <= None ------
pub open spec fn sp_width(t: Type) -> Option<u32> {
    match t {
        Type::Int(w, _) => w, Type::UInt(w, _) => w, Type::Float(w, _) => w,
        Type::Angle(w, _) => w, Type::Complex(w, _) => w,
        _ => None,
    }
}
pub open spec fn sp_is_const(t: Type) -> bool {
    match t {
        Type::Bit(c) => c == IsConst::True,
        Type::Int(_, c) => c == IsConst::True,
        Type::UInt(_, c) => c == IsConst::True,
        Type::Float(_, c) => c == IsConst::True,
        Type::Angle(_, c) => c == IsConst::True,
        Type::Complex(_, c) => c == IsConst::True,
        Type::Bool(c) => c == IsConst::True,
        Type::Duration(c) => c == IsConst::True,
        Type::Stretch(c) => c == IsConst::True,
        Type::BitArray(_, c) => c == IsConst::True,
        _ => true,
    }
}
/// position in the tower: 0 = int, 1 = uint (incomparable with int), 2 = float, 3 = complex
pub open spec fn in_tower(t: Type) -> bool {
    t is Int || t is UInt || t is Float || t is Complex
}
pub open spec fn kind_le(a: Type, b: Type) -> bool {
    (a is Int && (b is Int || b is Float || b is Complex))
    || (a is UInt && (b is UInt || b is Float || b is Complex))
    || (a is Float && (b is Float || b is Complex))
    || (a is Complex && b is Complex)
}
pub open spec fn width_le(a: Option<u32>, b: Option<u32>) -> bool {
    b is None || (a is Some && a->Some_0 <= b->Some_0)
}
pub open spec fn wmax(a: Option<u32>, b: Option<u32>) -> Option<u32> {
    if a is None || b is None { None } else if a->Some_0 >= b->Some_0 { a } else { b }
}
/// the order of the statement (product of kind order and width order)
pub open spec fn tower_le(a: Type, b: Type) -> bool {
    in_tower(a) && in_tower(b) && kind_le(a, b) && width_le(sp_width(a), sp_width(b))
}
/// equal except possibly for the const flag (written from the statement, not from the code)
pub open spec fn eq_upto_const(a: Type, b: Type) -> bool {
    a == b || match (a, b) {
        (Type::Bit(_), Type::Bit(_)) => true,
        (Type::Int(w1, _), Type::Int(w2, _)) => w1 == w2,
        (Type::UInt(w1, _), Type::UInt(w2, _)) => w1 == w2,
        (Type::Float(w1, _), Type::Float(w2, _)) => w1 == w2,
        (Type::Angle(w1, _), Type::Angle(w2, _)) => w1 == w2,
        (Type::Complex(w1, _), Type::Complex(w2, _)) => w1 == w2,
        (Type::Bool(_), Type::Bool(_)) => true,
        (Type::Duration(_), Type::Duration(_)) => true,
        (Type::Stretch(_), Type::Stretch(_)) => true,
        (Type::BitArray(d1, _), Type::BitArray(d2, _)) => d1 == d2,
        _ => false,
    }
}
/// `u` is an upper bound of `t`: above it in the tower, or the same type up to const
pub open spec fn ub(t: Type, u: Type) -> bool { eq_upto_const(t, u) || tower_le(t, u) }
/// the pair has a common upper bound in the sense of the statement
pub open spec fn has_bound(a: Type, b: Type) -> bool {
    eq_upto_const(a, b) || (in_tower(a) && in_tower(b))
}
pub open spec fn c_and(a: Type, b: Type) -> IsConst {
    if sp_is_const(a) && sp_is_const(b) { IsConst::True } else { IsConst::False }
}
/// the join (least upper bound) of the statement, with the const flag "only if both"
pub open spec fn join_kind(a: Type, b: Type, w: Option<u32>, c: IsConst) -> Type {
    if a is Complex || b is Complex { Type::Complex(w, c) }
    else if a is Float || b is Float { Type::Float(w, c) }
    else if a is Int && b is Int { Type::Int(w, c) }
    else if a is UInt && b is UInt { Type::UInt(w, c) }
    else { Type::Float(w, c) }   // int vs uint: the least kind above both
}
pub open spec fn join_spec(a: Type, b: Type) -> Type {
    if eq_upto_const(a, b) { a }
    else if in_tower(a) && in_tower(b) { join_kind(a, b, wmax(sp_width(a), sp_width(b)), c_and(a, b)) }
    else { Type::Void }
}

// ---- carve-outs = the known findings of C20 (each is listed in /verif/known_findings.json) ---
/// KF C20-int-uint: promote(int, uint) is Void although float bounds both
pub open spec fn co_int_uint(a: Type, b: Type) -> bool { (a is Int && b is UInt) || (a is UInt && b is Int) }
/// KF C20-complex-width: promote(complex[w1], complex[w2]), w1 != w2, is Void
pub open spec fn co_complex_width(a: Type, b: Type) -> bool {
    a is Complex && b is Complex && sp_width(a) != sp_width(b)
}
/// KF C20-narrow: cross-kind promotion takes the width of the higher kind even if it is smaller
pub open spec fn co_narrow(a: Type, b: Type) -> bool {
    in_tower(a) && in_tower(b) && !(a is Int && b is Int) && !(a is UInt && b is UInt)
    && !(a is Float && b is Float) && !(a is Complex && b is Complex) && !co_int_uint(a, b)
    && ((kind_le(a, b) && !width_le(sp_width(a), sp_width(b))) || (kind_le(b, a) && !width_le(sp_width(b), sp_width(a))))
}
/// KF C20-const-cross: cross-kind promotion takes the const flag of the higher-kind operand
pub open spec fn co_const_cross(a: Type, b: Type) -> bool {
    in_tower(a) && in_tower(b) && !eq_upto_const(a, b)
    && ((kind_le(a, b) && !kind_le(b, a) && sp_is_const(b) && !sp_is_const(a))
        || (kind_le(b, a) && !kind_le(a, b) && sp_is_const(a) && !sp_is_const(b)))
}
/// KF C20-const-eq: for types equal up to const the first operand is returned, const or not
pub open spec fn co_const_eq(a: Type, b: Type) -> bool {
    eq_upto_const(a, b) && sp_is_const(a) && !sp_is_const(b)
}
pub open spec fn co_shape(a: Type, b: Type) -> bool {
    co_int_uint(a, b) || co_complex_width(a, b) || co_narrow(a, b)
}
pub open spec fn co_const(a: Type, b: Type) -> bool { co_const_cross(a, b) || co_const_eq(a, b) }

// ---- kinds (C08): the base type of a type is its variant -------------------------------------------
/// `Type::X(..)` has base type `BaseType::X` (the two enums name their variants alike)
pub open spec fn sp_base(t: Type) -> BaseType {
    match t {
        Type::Bit(_) => BaseType::Bit, Type::Qubit => BaseType::Qubit, Type::HardwareQubit => BaseType::HardwareQubit,
        Type::Int(_, _) => BaseType::Int, Type::UInt(_, _) => BaseType::UInt, Type::Float(_, _) => BaseType::Float,
        Type::Angle(_, _) => BaseType::Angle, Type::Complex(_, _) => BaseType::Complex, Type::Bool(_) => BaseType::Bool,
        Type::Duration(_) => BaseType::Duration, Type::Stretch(_) => BaseType::Stretch, Type::BitArray(_, _) => BaseType::BitArray,
        Type::QubitArray(_) => BaseType::QubitArray, Type::IntArray(_) => BaseType::IntArray, Type::UIntArray(_) => BaseType::UIntArray,
        Type::FloatArray(_) => BaseType::FloatArray, Type::AngleArray(_) => BaseType::AngleArray, Type::ComplexArray(_) => BaseType::ComplexArray,
        Type::BoolArray(_) => BaseType::BoolArray, Type::DurationArray(_) => BaseType::DurationArray, Type::Gate(_, _) => BaseType::Gate,
        Type::SubroutineDef(_) => BaseType::SubroutineDef, Type::Range => BaseType::Range, Type::Set => BaseType::Set,
        Type::Void => BaseType::Void, Type::ToDo => BaseType::ToDo, Type::Undefined => BaseType::Undefined,
    }
}
pub open spec fn same_kind(a: Type, b: Type) -> bool { sp_base(a) == sp_base(b) }
/// kinds that convert to and from nothing else: bit, bool, duration, stretch, angle, bit registers
pub open spec fn closed_kind(t: Type) -> bool { t is Bit || t is Bool || t is Duration || t is Stretch || t is Angle || t is BitArray }
/// C08: a width narrowing of a non-constant value: same kind, the target has a width and the value has none or a larger one
pub open spec fn narrows(target: Type, value: Type) -> bool {
    same_kind(target, value) && (target is Int || target is UInt || target is Float) && sp_width(target) is Some
    && (sp_width(value) is None || sp_width(value)->Some_0 > sp_width(target)->Some_0) && !sp_is_const(value)
}
/// conversions that must always be diagnosed (from the statement of C08): the kind is lowered
/// (float -> int, complex -> real), or one side is bit / bool / duration / stretch / angle / a bit
/// register and the other side is of another kind
pub open spec fn must_diagnose(target: Type, value: Type) -> bool {
    ((target is Int || target is UInt) && (value is Float || value is Complex))
    || (target is Float && value is Complex)
    || ((closed_kind(target) || closed_kind(value)) && !same_kind(target, value))
}
