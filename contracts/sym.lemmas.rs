// ---------------------------------------------------------------------------------------------
// C19 / C07 clauses as consequences of the per-operation contracts: exec functions that drive the
// real operations; only the callees' contracts are visible.  Because `wf` is established by
// `new` and preserved by every operation, these hold after every history (no length bound).
// ---------------------------------------------------------------------------------------------
fn c19_clause_shadow_then_exit(t: &mut SymbolTable, a: &str, ty: &Type)
    requires old(t).wf(), old(t).store().len() + 2 < usize::MAX,
{
    let ghost before = resolve(t.scopes(), a@);
    let ghost store0 = t.store();
    let ghost scopes0 = t.scopes();
    t.enter_scope(ScopeType::Local);
    let r = t.new_binding(a, ty);
    assert(r is Ok);                                               //@C19:fresh-scope-binds
    let id = r.unwrap();
    let l = t.lookup(a);
    assert(l is Ok && l->Ok_0.symbol_id == id);                    //@C19:innermost-wins
    t.exit_scope();
    assert(t.scopes() =~= scopes0);
    assert(resolve(t.scopes(), a@) == before);                     //@C19:exit-removes-exactly-own
    assert(id.0 == store0.len());                                  //@C19:ids-never-reused
    assert(t.store().len() == store0.len() + 1);
    let s = &t[&id];
    assert(s.name@ == a@ && s.typ == *ty);                         //@C19:id-stable-after-exit
}
fn c19_clause_rebind_fails_and_keeps_first(t: &mut SymbolTable, a: &str, ty1: &Type, ty2: &Type)
    requires old(t).wf(), old(t).store().len() + 2 < usize::MAX, !old(t).scopes().last().contains_key(a@),
{
    let r1 = t.new_binding(a, ty1);
    assert(r1 is Ok);                                              //@C19:bind-fails-iff
    let id1 = r1.unwrap();
    let r2 = t.new_binding(a, ty2);
    assert(r2 is Err);                                             //@C19:bind-fails-iff
    let l = t.lookup(a);
    assert(l is Ok && l->Ok_0.symbol_id == id1);                   //@C19,C07:first-binding-kept
    let s = &t[&id1];
    assert(s.typ == *ty1);                                         //@C19,C07:first-binding-kept
}
fn c19_clause_distinct_ids(t: &mut SymbolTable, a: &str, b: &str, ty: &Type)
    requires old(t).wf(), old(t).store().len() + 2 < usize::MAX, a@ != b@,
        !old(t).scopes().last().contains_key(a@), !old(t).scopes().last().contains_key(b@),
{
    let r1 = t.new_binding(a, ty);
    let r2 = t.new_binding(b, ty);
    assert(r1 is Ok && r2 is Ok);
    assert(r1->Ok_0.0 != r2->Ok_0.0);                              //@C19:ids-unique
    let la = t.lookup(a);
    assert(la is Ok && la->Ok_0.symbol_id == r1->Ok_0);            //@C19:other-keys-untouched
}
fn c19_clause_outer_visible_inner_invisible_after_exit(t: &mut SymbolTable, a: &str, ty: &Type)
    requires old(t).wf(), old(t).store().len() + 2 < usize::MAX, resolve(old(t).scopes(), a@) is None,
{
    let ghost scopes0 = t.scopes();
    t.enter_scope(ScopeType::Subroutine);
    let r = t.new_binding(a, ty);
    t.exit_scope();
    assert(t.scopes() =~= scopes0);
    let l = t.lookup(a);
    assert(l is Err);                                              //@C19,C07:out-of-scope-invisible
}
