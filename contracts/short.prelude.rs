// ---------------------------------------------------------------------------------------------
// SHORT prelude: the bridge between the token table and the parser (to_input) and between the
// parser's output and the tree builder (Builder).  Nothing here is executable code of /repo.
// ---------------------------------------------------------------------------------------------
use std::mem;
use std::ops;
use SyntaxKind::*;
// assumed-dep (std): mem::replace stores the new value and returns the old one
pub assume_specification<T> [std::mem::replace] (dest: &mut T, src: T) -> (r: T)
    ensures r == *old(dest), *final(dest) == src;
pub open spec fn trivia(k: SyntaxKind) -> bool { k == SyntaxKind::WHITESPACE || k == SyntaxKind::COMMENT }
/// the non-trivia kinds of a kind sequence, in order (written from the statement: "trivia never
/// reaches the parser, everything else does, in order")
pub open spec fn non_trivia(s: Seq<SyntaxKind>) -> Seq<SyntaxKind>
    decreases s.len()
{
    if s.len() == 0 { Seq::empty() }
    else if trivia(s.last()) { non_trivia(s.drop_last()) }
    else { non_trivia(s.drop_last()).push(s.last()) }
}
pub proof fn lemma_non_trivia_push(s: Seq<SyntaxKind>, k: SyntaxKind)
    ensures non_trivia(s.push(k)) == (if trivia(k) { non_trivia(s) } else { non_trivia(s).push(k) })
{ assert(s.push(k).drop_last() =~= s); }

/// stand-in for `&mut dyn FnMut(StrStep<'_>)`: an unknown callback is exactly an uninterpreted
/// effect on what it is given; the ghost log records every step handed to it, in order (D9)
pub enum GStep { Token { kind: SyntaxKind, text: Seq<char> }, Enter { kind: SyntaxKind }, Exit, Error { pos: usize } }
pub struct Sink { pub log: Ghost<Seq<GStep>> }
pub open spec fn gstep(s: StrStep<'_>) -> GStep {
    match s {
        StrStep::Token { kind, text } => GStep::Token { kind, text: text@ },
        StrStep::Enter { kind } => GStep::Enter { kind },
        StrStep::Exit => GStep::Exit,
        StrStep::Error { msg, pos } => GStep::Error { pos },
    }
}
impl Sink {
    #[verifier::external_body]
    pub fn call(&mut self, s: StrStep<'_>)
        ensures final(self).log@ == old(self).log@.push(gstep(s))
    { unimplemented!() }
}
/// `text` is the source text of the raw tokens [lo, hi) of the table (what `range_text` returns)
pub uninterp spec fn is_range_text(l: &LexedStr<'_>, lo: int, hi: int, text: Seq<char>) -> bool;
/// the Token steps of `log` carry exactly the texts of the raw tokens [0, q), consecutively
pub open spec fn covers(log: Seq<GStep>, l: &LexedStr<'_>, q: int) -> bool
    decreases log.len()
{
    if log.len() == 0 { q == 0 }
    else if log.last() is Token {
        exists|p: int| 0 <= p <= q && #[trigger] is_range_text(l, p, q, log.last()->Token_text) && covers(log.drop_last(), l, p)
    } else { covers(log.drop_last(), l, q) }
}
pub proof fn lemma_covers_token(log: Seq<GStep>, l: &LexedStr<'_>, p: int, q: int, kind: SyntaxKind, text: Seq<char>)
    requires covers(log, l, p), 0 <= p <= q, is_range_text(l, p, q, text),
    ensures covers(log.push(GStep::Token { kind, text }), l, q)
{
    let log2 = log.push(GStep::Token { kind, text });
    assert(log2.drop_last() =~= log);
    assert(log2.last() == (GStep::Token { kind, text }));
    assert(log2.last()->Token_text == text);
    assert(0 <= p <= q && is_range_text(l, p, q, log2.last()->Token_text) && covers(log2.drop_last(), l, p));
}
pub broadcast proof fn lemma_covers_other(log: Seq<GStep>, l: &LexedStr<'_>, q: int, s: GStep)
    requires covers(log, l, q), !(s is Token),
    ensures #[trigger] covers(log.push(s), l, q)
{ assert(log.push(s).drop_last() =~= log); }

// ---- bit-level facts about the jointness words -------------------------------------------------
pub proof fn bv64_or_bit(w: u64, b: u64, c: u64)
    requires b < 64, c < 64,
    ensures ((w | (1u64 << b)) & (1u64 << c) != 0) == ((w & (1u64 << c) != 0) || b == c)
{ assert(((w | (1u64 << b)) & (1u64 << c) != 0) == ((w & (1u64 << c) != 0) || b == c)) by (bit_vector) requires b < 64, c < 64; }
pub proof fn bv64_zero(c: u64) ensures (0u64 & (1u64 << c)) == 0 { assert((0u64 & (1u64 << c)) == 0) by (bit_vector); }
pub proof fn bv64_shift_usize(b: usize) requires b < 64 ensures (1u64 << b) == (1u64 << (b as u64))
{ assert((1u64 << b) == (1u64 << (b as u64))) by (bit_vector) requires b < 64; }

// ---- jointness (C02 / C17 fragment): which input tokens are glued to their successor --------------
/// text of raw token i (what `LexedStr::text(i)` returns)
pub uninterp spec fn tok_text(l: &LexedStr<'_>, i: int) -> Seq<char>;
/// D14: `s.ends_with('.')` (str pattern API, outside the dialect) -> an uninterpreted test of the text
pub uninterp spec fn ends_dot(s: Seq<char>) -> bool;
/// index, in the parser input, of raw token a (defined for non-trivia a)
pub open spec fn idx(l: &LexedStr<'_>, a: int) -> int { non_trivia(l.kind@.take(a)).len() as int }
pub open spec fn float_rule(l: &LexedStr<'_>, a: int) -> bool { l.kind@[a] == SyntaxKind::FLOAT_NUMBER && !ends_dot(tok_text(l, a)) }
/// from the statement of the bridge: a token is joint to its successor iff the very next raw
/// token (before position `upto`) is not trivia -- or it is a float literal not ending in `.`
pub open spec fn joint_spec(l: &LexedStr<'_>, a: int, upto: int) -> bool {
    (a + 1 < upto && !trivia(l.kind@[a + 1])) || float_rule(l, a)
}
pub proof fn lemma_idx_step(l: &LexedStr<'_>, a: int)
    requires 0 <= a < l.kind@.len(),
    ensures idx(l, a + 1) == idx(l, a) + (if trivia(l.kind@[a]) { 0int } else { 1int })
{
    assert(l.kind@.take(a + 1) =~= l.kind@.take(a).push(l.kind@[a]));
    lemma_non_trivia_push(l.kind@.take(a), l.kind@[a]);
}
pub proof fn lemma_idx_mono(l: &LexedStr<'_>, a: int, b: int)
    requires 0 <= a <= b <= l.kind@.len(),
    ensures idx(l, a) <= idx(l, b)
    decreases b - a
{
    if a < b { lemma_idx_mono(l, a, b - 1); lemma_idx_step(l, b - 1); }
}
pub proof fn lemma_idx_strict(l: &LexedStr<'_>, a: int, b: int)
    requires 0 <= a < b <= l.kind@.len(), !trivia(l.kind@[a]),
    ensures idx(l, a) < idx(l, b)
{
    lemma_idx_step(l, a);
    lemma_idx_mono(l, a + 1, b);
}
