// ---------------------------------------------------------------------------------------------
// SHORT prelude: the bridge between the token table and the parser (to_input) and between the
// parser's output and the tree builder (Builder).  Nothing here is executable code of /repo.
// ---------------------------------------------------------------------------------------------
use std::mem;
use std::ops;
use SyntaxKind::*;
// assumed-dep (std): mem::replace stores the new value and returns the old one
pub assume_specification<T> [std::mem::replace] (dest: &mut T, src: T) -> (r: T)
    ensures r == *old(dest), *final(dest) == src;
pub open spec fn trivia(k: SyntaxKind) -> bool { k == SyntaxKind::WHITESPACE || k == SyntaxKind::COMMENT }
/// the non-trivia kinds of a kind sequence, in order (written from the statement: "trivia never
/// reaches the parser, everything else does, in order")
pub open spec fn non_trivia(s: Seq<SyntaxKind>) -> Seq<SyntaxKind>
    decreases s.len()
{
    if s.len() == 0 { Seq::empty() }
    else if trivia(s.last()) { non_trivia(s.drop_last()) }
    else { non_trivia(s.drop_last()).push(s.last()) }
}
pub proof fn lemma_non_trivia_push(s: Seq<SyntaxKind>, k: SyntaxKind)
    ensures non_trivia(s.push(k)) == (if trivia(k) { non_trivia(s) } else { non_trivia(s).push(k) })
{ assert(s.push(k).drop_last() =~= s); }

/// stand-in for `&mut dyn FnMut(StrStep<'_>)`: an unknown callback is exactly an uninterpreted
/// effect on what it is given; the ghost log records every step handed to it, in order (D9)
pub enum GStep { Token { kind: SyntaxKind, text: Seq<char> }, Enter { kind: SyntaxKind }, Exit, Error { pos: usize } }
pub struct Sink { pub log: Ghost<Seq<GStep>> }
pub open spec fn gstep(s: StrStep<'_>) -> GStep {
    match s {
        StrStep::Token { kind, text } => GStep::Token { kind, text: text@ },
        StrStep::Enter { kind } => GStep::Enter { kind },
        StrStep::Exit => GStep::Exit,
        StrStep::Error { msg, pos } => GStep::Error { pos },
    }
}
impl Sink {
    #[verifier::external_body]
    pub fn call(&mut self, s: StrStep<'_>)
        ensures final(self).log@ == old(self).log@.push(gstep(s))
    { unimplemented!() }
}
/// `text` is the source text of the raw tokens [lo, hi) of the table (what `range_text` returns)
pub uninterp spec fn is_range_text(l: &LexedStr<'_>, lo: int, hi: int, text: Seq<char>) -> bool;
/// the Token steps of `log` carry exactly the texts of the raw tokens [0, q), consecutively
pub open spec fn covers(log: Seq<GStep>, l: &LexedStr<'_>, q: int) -> bool
    decreases log.len()
{
    if log.len() == 0 { q == 0 }
    else if log.last() is Token {
        exists|p: int| 0 <= p <= q && #[trigger] is_range_text(l, p, q, log.last()->Token_text) && covers(log.drop_last(), l, p)
    } else { covers(log.drop_last(), l, q) }
}
pub proof fn lemma_covers_token(log: Seq<GStep>, l: &LexedStr<'_>, p: int, q: int, kind: SyntaxKind, text: Seq<char>)
    requires covers(log, l, p), 0 <= p <= q, is_range_text(l, p, q, text),
    ensures covers(log.push(GStep::Token { kind, text }), l, q)
{
    let log2 = log.push(GStep::Token { kind, text });
    assert(log2.drop_last() =~= log);
    assert(log2.last() == (GStep::Token { kind, text }));
    assert(log2.last()->Token_text == text);
    assert(0 <= p <= q && is_range_text(l, p, q, log2.last()->Token_text) && covers(log2.drop_last(), l, p));
}
pub broadcast proof fn lemma_covers_other(log: Seq<GStep>, l: &LexedStr<'_>, q: int, s: GStep)
    requires covers(log, l, q), !(s is Token),
    ensures #[trigger] covers(log.push(s), l, q)
{ assert(log.push(s).drop_last() =~= log); }

// ---- bit-level facts about the jointness words -------------------------------------------------
pub proof fn bv64_or_bit(w: u64, b: u64, c: u64)
    requires b < 64, c < 64,
    ensures ((w | (1u64 << b)) & (1u64 << c) != 0) == ((w & (1u64 << c) != 0) || b == c)
{ assert(((w | (1u64 << b)) & (1u64 << c) != 0) == ((w & (1u64 << c) != 0) || b == c)) by (bit_vector) requires b < 64, c < 64; }
pub proof fn bv64_zero(c: u64) ensures (0u64 & (1u64 << c)) == 0 { assert((0u64 & (1u64 << c)) == 0) by (bit_vector); }
pub proof fn bv64_shift_usize(b: usize) requires b < 64 ensures (1u64 << b) == (1u64 << (b as u64))
{ assert((1u64 << b) == (1u64 << (b as u64))) by (bit_vector) requires b < 64; }

// ---- jointness (C02 / C17 fragment): which input tokens are glued to their successor --------------
/// text of raw token i (what `LexedStr::text(i)` returns)
pub uninterp spec fn tok_text(l: &LexedStr<'_>, i: int) -> Seq<char>;
/// D14: `s.ends_with('.')` (str pattern API, outside the dialect) -> an uninterpreted test of the text
pub open spec fn ends_dot(s: Seq<char>) -> bool { s.len() > 0 && s.last() == '.' }
/// index, in the parser input, of raw token a (defined for non-trivia a)
pub open spec fn idx(l: &LexedStr<'_>, a: int) -> int { non_trivia(l.kind@.take(a)).len() as int }
pub open spec fn float_rule(l: &LexedStr<'_>, a: int) -> bool { l.kind@[a] == SyntaxKind::FLOAT_NUMBER && !ends_dot(tok_text(l, a)) }
/// from the statement of the bridge: a token is joint to its successor iff the very next raw
/// token (before position `upto`) is not trivia -- or it is a float literal not ending in `.`
pub open spec fn joint_spec(l: &LexedStr<'_>, a: int, upto: int) -> bool {
    (a + 1 < upto && !trivia(l.kind@[a + 1])) || float_rule(l, a)
}
pub proof fn lemma_idx_step(l: &LexedStr<'_>, a: int)
    requires 0 <= a < l.kind@.len(),
    ensures idx(l, a + 1) == idx(l, a) + (if trivia(l.kind@[a]) { 0int } else { 1int })
{
    assert(l.kind@.take(a + 1) =~= l.kind@.take(a).push(l.kind@[a]));
    lemma_non_trivia_push(l.kind@.take(a), l.kind@[a]);
}
pub proof fn lemma_idx_mono(l: &LexedStr<'_>, a: int, b: int)
    requires 0 <= a <= b <= l.kind@.len(),
    ensures idx(l, a) <= idx(l, b)
    decreases b - a
{
    if a < b { lemma_idx_mono(l, a, b - 1); lemma_idx_step(l, b - 1); }
}
pub proof fn lemma_idx_strict(l: &LexedStr<'_>, a: int, b: int)
    requires 0 <= a < b <= l.kind@.len(), !trivia(l.kind@[a]),
    ensures idx(l, a) < idx(l, b)
{
    lemma_idx_step(l, a);
    lemma_idx_mono(l, a + 1, b);
}

// ---- Output as the builder sees it (trusted: output.rs decodes the 32-bit events; Kani harness in the thorough tier) ----
#[verifier::external_body] pub struct Output { _p: u8 }
#[verifier::external_body] pub struct OutIter<'a> { _p: std::marker::PhantomData<&'a str> }
impl Output {
    /// the traversal steps, in order
    pub uninterp spec fn steps(&self) -> Seq<Step<'_>>;
    /// output.rs: `self.event.iter().map(|&event| decode(event))`
    #[verifier::external_body] pub fn iter(&self) -> (r: OutIter<'_>) ensures r.rest() == self.steps() { unimplemented!() }
}
impl<'a> OutIter<'a> {
    pub uninterp spec fn rest(&self) -> Seq<Step<'a>>;
    #[verifier::external_body] pub fn next(&mut self) -> (r: Option<Step<'a>>)
        ensures old(self).rest().len() == 0 ==> r is None && final(self).rest() == old(self).rest(),
                old(self).rest().len() > 0 ==> r == Some(old(self).rest()[0]) && final(self).rest() == old(self).rest().skip(1),
    { unimplemented!() }
}
/// number of non-trivia raw tokens in [pos, ntok)
pub open spec fn nnt(l: &LexedStr<'_>, pos: int) -> int
    decreases l.ntok() - pos
{
    if pos >= l.ntok() || pos < 0 { 0 } else { (if trivia(l.kind@[pos]) { 0int } else { 1int }) + nnt(l, pos + 1) }
}
@@SHARED_STEPS@@
pub proof fn lemma_nnt_bounds(l: &LexedStr<'_>, pos: int)
    requires 0 <= pos <= l.ntok(),
    ensures 0 <= nnt(l, pos) <= l.ntok() - pos,
    decreases l.ntok() - pos
{ if pos < l.ntok() { lemma_nnt_bounds(l, pos + 1); } }
/// skipping trivia does not change the count, and stays inside the table
pub proof fn lemma_nnt_skip(l: &LexedStr<'_>, pos: int, q: int)
    requires 0 <= pos <= q <= skip_trivia(l, pos), pos <= l.ntok(),
    ensures nnt(l, q) == nnt(l, pos), q <= l.ntok(), skip_trivia(l, q) == skip_trivia(l, pos),
    decreases l.ntok() - pos
{
    if pos < q {
        if pos < l.ntok() && trivia(l.kind@[pos]) { lemma_nnt_skip(l, pos + 1, q); }
    }
}
pub proof fn lemma_skip_le(l: &LexedStr<'_>, pos: int)
    requires 0 <= pos <= l.ntok(),
    ensures pos <= skip_trivia(l, pos) <= l.ntok(),
    decreases l.ntok() - pos
{ if pos < l.ntok() && trivia(l.kind@[pos]) { lemma_skip_le(l, pos + 1); } }
/// consuming n raw tokens lowers the count by at most n
pub proof fn lemma_nnt_adv(l: &LexedStr<'_>, pos: int, n: int)
    requires 0 <= pos, 0 <= n, pos + n <= l.ntok(),
    ensures nnt(l, pos + n) >= nnt(l, pos) - n,
    decreases n
{ if n > 0 { lemma_nnt_adv(l, pos + 1, n - 1); } }
/// every diagnostic handed to the sink sits at the start of a raw token (or at the end of the text)
pub open spec fn errors_on_token_starts(log: Seq<GStep>, l: &LexedStr<'_>) -> bool {
    forall|i: int| 0 <= i < log.len() && (#[trigger] log[i]) is Error ==> exists|k: int| 0 <= k <= l.ntok() && log[i]->pos == l.start@[k]
}

pub proof fn lemma_tok_sum_nonneg(steps: Seq<Step<'_>>)
    ensures tok_sum(steps) >= 0,
    decreases steps.len()
{ if steps.len() > 0 { lemma_tok_sum_nonneg(steps.skip(1)); } }
/// a step that is not a diagnostic keeps the placement of the diagnostics handed over so far
pub broadcast proof fn lemma_errs_push(log: Seq<GStep>, l: &LexedStr<'_>, s: GStep)
    requires errors_on_token_starts(log, l), !(s is Error),
    ensures #[trigger] errors_on_token_starts(log.push(s), l)
{
    assert forall|i: int| 0 <= i < log.push(s).len() && (#[trigger] log.push(s)[i]) is Error implies exists|k: int| 0 <= k <= l.ntok() && log.push(s)[i]->pos == l.start@[k] by {
        if i < log.len() { assert(log.push(s)[i] == log[i]); }
    }
}

/// where the builder stands after these steps, up to pending trivia: a Token step consumes the
/// pending trivia and then exactly its n_input_tokens raw tokens; no other step consumes a non-trivia token
pub open spec fn adv_pos(l: &LexedStr<'_>, steps: Seq<Step<'_>>, pos: int) -> int
    decreases steps.len()
{
    if steps.len() == 0 { pos }
    else { adv_pos(l, steps.skip(1), if steps[0] is Token { skip_trivia(l, pos) + steps[0]->n_input_tokens } else { pos }) }
}
/// positions that differ only by pending trivia lead to positions that differ only by pending trivia
pub proof fn lemma_adv_pos_skip_eq(l: &LexedStr<'_>, steps: Seq<Step<'_>>, p1: int, p2: int)
    requires skip_trivia(l, p1) == skip_trivia(l, p2),
    ensures skip_trivia(l, adv_pos(l, steps, p1)) == skip_trivia(l, adv_pos(l, steps, p2)),
    decreases steps.len()
{
    if steps.len() > 0 {
        if steps[0] is Token { } else { lemma_adv_pos_skip_eq(l, steps.skip(1), p1, p2); }
    }
}
pub proof fn lemma_skip_idem(l: &LexedStr<'_>, pos: int)
    ensures skip_trivia(l, skip_trivia(l, pos)) == skip_trivia(l, pos),
    decreases l.ntok() - pos
{ if 0 <= pos < l.ntok() && trivia(l.kind@[pos]) { lemma_skip_idem(l, pos + 1); } }
