// ---------------------------------------------------------------------------------------------
// SEMA boundary: the analyser context (symbol table, diagnostics, const values) as an opaque
// object with a ghost view.  The contracts of lookup_symbol / lookup_gate_symbol / new_binding
// are the ones PROVED in unit SYM (same clauses, restated over this view); the rest are one-line
// accessors of context.rs.  Nothing here is executable code of /repo.
// ---------------------------------------------------------------------------------------------
pub mod symbols {
    use vstd::prelude::*;
    use super::types::Type;
    // (copied items: ScopeType, SymbolId, SymbolError, SymbolIdResult follow)
