// ---------------------------------------------------------------------------------------------
// C20 clauses as consequences of the contracts above.  These are exec functions that call the
// real entry points; Verus sees only the callees' contracts, so each assertion is a proof that
// the contract implies the clause of the statement (guards against a weak transcription).
// ---------------------------------------------------------------------------------------------
fn c20_clause_symmetric(a: &Type, b: &Type)
    requires !co_shape(*a, *b),
{
    let r1 = promote_types(a, b);
    let r2 = promote_types(b, a);
    assert(eq_upto_const(r1, r2));                                  //@C20:symmetric
}
fn c20_clause_upper_bound(a: &Type, b: &Type)
    requires !co_shape(*a, *b),
{
    let r = promote_types(a, b);
    assert(r != Type::Void ==> ub(*a, r) && ub(*b, r));             //@C20:upper-bound
}
fn c20_clause_void_iff_no_bound(a: &Type, b: &Type)
    requires !co_shape(*a, *b), !(a is Void),   // Void itself is not an operand type
{
    let r = promote_types(a, b);
    assert((r == Type::Void) == !has_bound(*a, *b));                //@C20:void-iff
}
fn c20_clause_const_only_if_both(a: &Type, b: &Type)
    requires !co_const(*a, *b),
{
    let r = promote_types(a, b);
    assert(r != Type::Void && sp_is_const(r) ==> sp_is_const(*a) && sp_is_const(*b));   //@C20:const
}
fn c20_clause_idempotent(a: &Type)
{
    let r = promote_types(a, a);
    assert(r == *a);                                                //@C20:idempotent
}
fn c20_clause_cast_superset(target: &Type, lit: &Type)
{
    let p = promote_types(target, lit);
    let c = can_cast_literal(target, lit);
    assert(p != Type::Void && eq_upto_const(p, *target) ==> c);     //@C20:cast-superset
}
fn c20_clause_cast_excludes(target: &Type, lit: &Type)
{
    let c = can_cast_literal(target, lit);
    assert((target is Int || target is UInt) && (lit is Float || lit is Complex) ==> !c);   //@C20:cast-excludes
    assert(target is Float && lit is Complex ==> !c);               //@C20:cast-excludes
}
// the carve-outs are not the whole domain (a contract that excluded everything would be vacuous)
proof fn c20_carve_outs_are_proper()
    ensures
        !co_shape(Type::Int(Some(8u32), IsConst::False), Type::Float(Some(32u32), IsConst::False)),
        !co_const(Type::Int(Some(8u32), IsConst::False), Type::Float(Some(32u32), IsConst::False)),
        !co_shape(Type::Int(None, IsConst::True), Type::Int(Some(8u32), IsConst::True)),
        !co_shape(Type::UInt(Some(8u32), IsConst::True), Type::Complex(None, IsConst::False)),
        !co_shape(Type::Bit(IsConst::True), Type::Qubit),
{}
