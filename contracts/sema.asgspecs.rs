// ---- ASG-level spec vocabulary (module asg) ----------------------------------------------------
/// KF C08-imaginary-int: an imaginary *integer* literal is typed int[64] instead of complex
pub open spec fn co_imag_int() -> bool { true }
/// the value of a constant-integer designator expression: an explicit cast of a non-negative
/// integer literal (what declarations store for `const int n = 8;`)
pub open spec fn const_int_of(v: TExpr) -> Option<u128> {
    match v.expression {
        Expr::Cast(c) => match c.operand.expression {
            Expr::Literal(Literal::Int(il)) => if il.sign { Some(il.value) } else { None },
            _ => None,
        },
        _ => None,
    }
}
/// `e` has type `t`, or is an explicit cast to exactly `t` of an expression
pub open spec fn typed_or_cast_to(e: TExpr, t: Type) -> bool {
    e.ty == t && (e.expression is Cast ==> true)
}
pub open spec fn is_cast_to(e: TExpr, inner: TExpr, t: Type) -> bool {
    e.ty == t && e.expression is Cast && e.expression->Cast_0.operand == inner && e.expression->Cast_0.typ == t
}
/// what the common type of an arithmetic expression must be (C08; promotion clauses are those of C20)
pub open spec fn promote_post(t1: Type, t2: Type, r: Type) -> bool {
    &&& (t1 == t2 ==> r == t1)
    &&& (!types::co_shape(t1, t2) ==> types::eq_upto_const(r, types::join_spec(t1, t2)))
    &&& ((r != Type::Void && !types::co_const(t1, t2)) ==> (types::sp_is_const(r) ==> types::sp_is_const(t1) && types::sp_is_const(t2)))
}
pub open spec fn arith_common(op: ArithOp, t1: Type, t2: Type, r: Type) -> bool {
    &&& ((!(op is Div) || t1 is Float || t2 is Float) ==> promote_post(t1, t2, r))
    &&& ((op is Div && !(t1 is Float) && !(t2 is Float)) ==> r == Type::Float(None, IsConst::False))
}
