// ---------------------------------------------------------------------------------------------
// ASTX prelude: the rowan tree as far as the hand-written accessors of oq3_syntax/src/ast
// (node_ext.rs, expr_ext.rs) see it.  A node has a sequence of child NODES (tokens are not
// children in this sense: `SyntaxNode::children()` skips them); a child is an expression node, a
// statement node or some other node, and `support::children::<N>` / `support::child::<N>` keep
// the children that `N::cast` accepts, in order.  Nothing here is executable code of /repo.
// assumed-dep (rowan + generated casts): cast is by node kind; the kinds of `Expr` and of `Stmt`
// are disjoint; BLOCK_EXPR is an expression kind, IDENTIFIER is an expression kind.
// ---------------------------------------------------------------------------------------------
#[verifier::external_body] pub struct SyntaxNode { _p: u8 }
#[verifier::external_body] pub struct SyntaxToken { _p: u8 }
pub enum Kid { E(Expr), S(Stmt), L(ParamList), O(nat) }
impl SyntaxToken {
    pub uninterp spec fn sp_kind(&self) -> SyntaxKind;
    /// rowan: the kind of the token
    #[verifier::external_body] pub fn kind(&self) -> (r: SyntaxKind) ensures r == self.sp_kind() { unimplemented!() }
}
impl SyntaxNode {
    /// the child nodes, in source order
    pub uninterp spec fn kids(&self) -> Seq<Kid>;
    /// what this node is as a child of its parent
    pub uninterp spec fn as_kid(&self) -> Kid;
    /// rowan: the child nodes (tokens skipped), in source order
    #[verifier::external_body] pub fn children(&self) -> (r: SyntaxNodeChildren)
        ensures r.rest().len() == self.kids().len(), forall|i: int| 0 <= i < r.rest().len() ==> (#[trigger] r.rest()[i]).as_kid() == self.kids()[i],
    { unimplemented!() }
}
impl Clone for SyntaxNode { #[verifier::external_body] fn clone(&self) -> (r: SyntaxNode) ensures r == *self { unimplemented!() } }
#[verifier::external_body] pub struct SyntaxNodeChildren { _p: u8 }
impl SyntaxNodeChildren {
    pub uninterp spec fn rest(&self) -> Seq<SyntaxNode>;
    /// Iterator::nth (std)
    #[verifier::external_body] pub fn nth(&mut self, n: usize) -> (r: Option<SyntaxNode>)
        ensures n < old(self).rest().len() ==> r == Some(old(self).rest()[n as int]) && final(self).rest() == old(self).rest().skip(n + 1),
                n >= old(self).rest().len() ==> r is None && final(self).rest().len() == 0,
    { unimplemented!() }
}
pub trait AstNode: Sized {
    /// what `Self::cast` makes of a child
    spec fn of_kid(k: Kid) -> Option<Self>;
    spec fn sp_syntax(&self) -> SyntaxNode;
    fn syntax(&self) -> (r: &SyntaxNode) ensures *r == self.sp_syntax();
    /// generated/nodes.rs: `if Self::can_cast(syntax.kind()) { Some(..) } else { None }`
    fn cast(syntax: SyntaxNode) -> (r: Option<Self>) ensures r == Self::of_kid(syntax.as_kid());
}
impl AstNode for Expr {
    open spec fn of_kid(k: Kid) -> Option<Expr> { match k { Kid::E(e) => Some(e), _ => None } }
    uninterp spec fn sp_syntax(&self) -> SyntaxNode;
    #[verifier::external_body] fn syntax(&self) -> (r: &SyntaxNode) { unimplemented!() }
    #[verifier::external_body] fn cast(syntax: SyntaxNode) -> (r: Option<Self>) { unimplemented!() }
}
impl AstNode for Stmt {
    open spec fn of_kid(k: Kid) -> Option<Stmt> { match k { Kid::S(s) => Some(s), _ => None } }
    uninterp spec fn sp_syntax(&self) -> SyntaxNode;
    #[verifier::external_body] fn syntax(&self) -> (r: &SyntaxNode) { unimplemented!() }
    #[verifier::external_body] fn cast(syntax: SyntaxNode) -> (r: Option<Self>) { unimplemented!() }
}
impl AstNode for BlockExpr {
    open spec fn of_kid(k: Kid) -> Option<BlockExpr> { match k { Kid::E(Expr::BlockExpr(b)) => Some(b), _ => None } }
    open spec fn sp_syntax(&self) -> SyntaxNode { self.syntax }
    fn syntax(&self) -> (r: &SyntaxNode) { &self.syntax }
    #[verifier::external_body] fn cast(syntax: SyntaxNode) -> (r: Option<Self>) { unimplemented!() }
}
impl AstNode for ParamList {
    open spec fn of_kid(k: Kid) -> Option<ParamList> { match k { Kid::L(l) => Some(l), _ => None } }
    open spec fn sp_syntax(&self) -> SyntaxNode { self.syntax }
    fn syntax(&self) -> (r: &SyntaxNode) { &self.syntax }
    #[verifier::external_body] fn cast(syntax: SyntaxNode) -> (r: Option<Self>) { unimplemented!() }
}
impl AstNode for Identifier {
    open spec fn of_kid(k: Kid) -> Option<Identifier> { match k { Kid::E(Expr::Identifier(b)) => Some(b), _ => None } }
    open spec fn sp_syntax(&self) -> SyntaxNode { self.syntax }
    fn syntax(&self) -> (r: &SyntaxNode) { &self.syntax }
    #[verifier::external_body] fn cast(syntax: SyntaxNode) -> (r: Option<Self>) { unimplemented!() }
}
/// the children that cast to N, in order
pub open spec fn typed<N: AstNode>(ks: Seq<Kid>) -> Seq<N>
    decreases ks.len()
{
    if ks.len() == 0 { Seq::empty() }
    else {
        match N::of_kid(ks[0]) {
            Some(n) => seq![n] + typed::<N>(ks.skip(1)),
            None => typed::<N>(ks.skip(1)),
        }
    }
}
/// the first child that casts to N
pub open spec fn first<N: AstNode>(ks: Seq<Kid>) -> Option<N> { if typed::<N>(ks).len() > 0 { Some(typed::<N>(ks)[0]) } else { None } }
/// the i-th expression child, if it is a block
pub open spec fn block_at(ks: Seq<Kid>, i: int) -> Option<BlockExpr> {
    if i < typed::<Expr>(ks).len() && typed::<Expr>(ks)[i] is BlockExpr { Some(typed::<Expr>(ks)[i]->BlockExpr_0) } else { None }
}
#[verifier::external_body] #[verifier::reject_recursive_types(N)] pub struct AstChildren<N> { _p: std::marker::PhantomData<N> }
impl<N: AstNode> AstChildren<N> {
    /// the children not yet yielded
    pub uninterp spec fn rest(&self) -> Seq<N>;
    /// `impl Iterator for AstChildren<N>` (ast.rs): `self.inner.find_map(N::cast)`
    #[verifier::external_body] pub fn next(&mut self) -> (r: Option<N>)
        ensures old(self).rest().len() == 0 ==> r is None && final(self).rest() == old(self).rest(),
                old(self).rest().len() > 0 ==> r == Some(old(self).rest()[0]) && final(self).rest() == old(self).rest().skip(1),
    { unimplemented!() }
    /// Iterator::nth (std): skips n elements and yields the next one
    #[verifier::external_body] pub fn nth(&mut self, n: usize) -> (r: Option<N>)
        ensures n < old(self).rest().len() ==> r == Some(old(self).rest()[n as int]) && final(self).rest() == old(self).rest().skip(n + 1),
                n >= old(self).rest().len() ==> r is None && final(self).rest().len() == 0,
    { unimplemented!() }
}
pub mod support {
    use super::*;
    /// ast.rs: `AstChildren::new(parent)`
    #[verifier::external_body] pub fn children<N: AstNode>(parent: &SyntaxNode) -> (r: AstChildren<N>) ensures r.rest() == typed::<N>(parent.kids()) { unimplemented!() }
    /// ast.rs: `parent.children().find_map(N::cast)`
    #[verifier::external_body] pub fn child<N: AstNode>(parent: &SyntaxNode) -> (r: Option<N>)
        ensures typed::<N>(parent.kids()).len() == 0 ==> r is None, typed::<N>(parent.kids()).len() > 0 ==> r == Some(typed::<N>(parent.kids())[0]),
    { unimplemented!() }
}
// assumed-dep (std): Option::and / Option::or
pub assume_specification<T, U> [Option::<T>::and::<U>] (a: Option<T>, b: Option<U>) -> (r: Option<U>) ensures r == (if a is Some { b } else { None::<U> });
pub assume_specification<T> [Option::<T>::or] (a: Option<T>, b: Option<T>) -> (r: Option<T>) ensures r == (if a is Some { a } else { b });

// ---- roles (written from the statement of C05) ---------------------------------------------------
pub open spec fn is_block(k: Kid) -> bool { k is E && k->E_0 is BlockExpr }
/// a body is a block or a single statement
pub open spec fn is_body(k: Kid) -> bool { is_block(k) || k is S }
pub open spec fn bors(k: Kid) -> BlockOrStmt {
    match k { Kid::E(Expr::BlockExpr(b)) => BlockOrStmt::BlockExpr(b), Kid::S(s) => BlockOrStmt::Stmt(s), _ => arbitrary() }
}
/// assumed-parser (items.rs if_stmt): an IF_STMT has, as child nodes, the condition expression,
/// the then-body and optionally the else-body
pub open spec fn if_shape(ks: Seq<Kid>) -> bool {
    (ks.len() == 2 || ks.len() == 3) && ks[0] is E && !is_block(ks[0]) && is_body(ks[1]) && (ks.len() == 3 ==> is_body(ks[2]))
}
/// the body (block or single statement) that is the index-th child node, if there is one
pub open spec fn body_at_spec(ks: Seq<Kid>, index: int) -> Option<BlockOrStmt> {
    if 0 <= index < ks.len() {
        match ks[index] {
            Kid::E(Expr::BlockExpr(b)) => Some(BlockOrStmt::BlockExpr(b)),
            Kid::S(s) => Some(BlockOrStmt::Stmt(s)),
            _ => None,
        }
    } else { None }
}
/// assumed-parser (items.rs while_stmt): condition expression, body
pub open spec fn while_shape(ks: Seq<Kid>) -> bool { ks.len() == 2 && ks[0] is E && !is_block(ks[0]) && is_body(ks[1]) }
/// assumed-parser (items.rs for_stmt): type, loop variable, iterable (none of them expression or statement nodes), body
pub open spec fn for_shape(ks: Seq<Kid>) -> bool { ks.len() == 4 && ks[0] is O && ks[1] is O && ks[2] is O && is_body(ks[3]) }
/// assumed-parser (expressions.rs): a BIN_EXPR has exactly its two operands as child nodes
pub open spec fn bin_shape(ks: Seq<Kid>) -> bool { ks.len() == 2 && ks[0] is E && ks[1] is E }
/// assumed-parser (expressions.rs range_expr): start:stop or start:step:stop, all expressions
pub open spec fn range_shape(ks: Seq<Kid>) -> bool { (ks.len() == 2 || ks.len() == 3) && forall|i: int| 0 <= i < ks.len() ==> (#[trigger] ks[i]) is E }
/// assumed-parser (expressions.rs): an ASSIGNMENT_STMT has the target (an identifier expression
/// or an indexed identifier, which is not an expression node) and the value
pub open spec fn assign_shape(ks: Seq<Kid>) -> bool {
    ks.len() == 2 && ks[1] is E && ((ks[0] is E && ks[0]->E_0 is Identifier) || ks[0] is O)
}

/// assumed-parser (items.rs gate_definition): a GATE has, as child nodes, its name, an optional
/// list of angle parameters, the list of qubit parameters (always present) and the body
pub open spec fn gate_shape(ks: Seq<Kid>) -> bool { typed::<ParamList>(ks).len() == 1 || typed::<ParamList>(ks).len() == 2 }
/// assumed-parser: a CALL_EXPR / GATE_CALL_EXPR starts with the callee expression; an INDEX_EXPR has the indexed expression first
pub open spec fn callee_first(ks: Seq<Kid>) -> bool { ks.len() >= 1 && ks[0] is E }
