#[cfg(kani)]
mod oq3_verif_kani {
    use crate::output::{Output, Step};
    use crate::SyntaxKind;

    /// C02(e): a Token event survives the u32 encoding of `Output` unchanged, for every kind and count
    #[kani::proof]
    fn output_token_roundtrip() {
        let k: u16 = kani::any();
        kani::assume(k <= SyntaxKind::__LAST as u16);
        let n: u8 = kani::any();
        let kind = SyntaxKind::from(k);
        let mut out = Output::default();
        out.token(kind, n);
        let mut it = out.iter();
        match it.next() {
            Some(Step::Token { kind: k2, n_input_tokens }) => {
                assert!(k2 == kind);
                assert!(n_input_tokens == n);
            }
            _ => panic!("token step decoded as something else"),
        }
        assert!(it.next().is_none());
    }

    #[kani::proof]
    fn output_enter_exit_roundtrip() {
        let k: u16 = kani::any();
        kani::assume(k <= SyntaxKind::__LAST as u16);
        let kind = SyntaxKind::from(k);
        let mut out = Output::default();
        out.enter_node(kind);
        out.leave_node();
        let mut it = out.iter();
        match it.next() {
            Some(Step::Enter { kind: k2 }) => assert!(k2 == kind),
            _ => panic!("enter step decoded as something else"),
        }
        match it.next() {
            Some(Step::Exit) => (),
            _ => panic!("exit step decoded as something else"),
        }
        assert!(it.next().is_none());
    }

    /// `SyntaxKind::from(u16)` (a transmute guarded by an assertion) is the inverse of `as u16`
    #[kani::proof]
    fn syntax_kind_from_u16_inverse() {
        let k: u16 = kani::any();
        kani::assume(k <= SyntaxKind::__LAST as u16);
        assert!(SyntaxKind::from(k) as u16 == k);
    }
}
