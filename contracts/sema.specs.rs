// ---------------------------------------------------------------------------------------------
// SEMA spec vocabulary for the analyser functions (crate root).  Written from the statements of
// C06 / C08 / C09 / C13; nothing here is executable code of /repo.
// ---------------------------------------------------------------------------------------------
pub open spec fn ext(a: Seq<SemanticErrorKind>, b: Seq<SemanticErrorKind>) -> bool { a.len() <= b.len() && b.take(a.len() as int) == a }
pub open spec fn ext_tr(a: Seq<context::Ev>, b: Seq<context::Ev>) -> bool { a.len() <= b.len() && b.take(a.len() as int) == a }
/// the analyser only ever appends: diagnostics and symbol-table events
pub open spec fn grows(c0: Context, c1: Context) -> bool { ext(c0.errs(), c1.errs()) && ext_tr(c0.trace(), c1.trace()) }
/// every binding of `a` is a binding of `b`
pub open spec fn sub_scope(a: symbols::Scope, b: symbols::Scope) -> bool { forall|k: Seq<char>| #[trigger] a.contains_key(k) ==> b.contains_key(k) && a[k] == b[k] }
/// C03 / C07: what any piece of analysis may do to the symbol table: the same scopes are open
/// afterwards (every scope it entered has been left), outer scopes are untouched, and the current
/// scope can only have gained bindings (nothing is replaced or removed)
pub open spec fn scoped(c0: Context, c1: Context) -> bool {
    &&& grows(c0, c1)
    &&& c1.wf()
    &&& c1.symbol_table.scope_types() == c0.symbol_table.scope_types()
    &&& c1.scopes().len() == c0.scopes().len()
    &&& c1.scopes().drop_last() == c0.scopes().drop_last()
    &&& sub_scope(c0.scopes().last(), c1.scopes().last())
    // the program and the diagnostics of included files are only touched by the top-level loop
    &&& c1.program == c0.program
    &&& c1.semantic_errors.included() == c0.semantic_errors.included()
}
pub broadcast proof fn lemma_scoped_refl(c: Context) requires c.wf(), ensures #[trigger] scoped(c, c) {
    assert(c.errs().take(c.errs().len() as int) =~= c.errs()); assert(c.trace().take(c.trace().len() as int) =~= c.trace());
}
pub broadcast proof fn lemma_scoped_trans(a: Context, b: Context, c: Context)
    requires #[trigger] scoped(a, b), #[trigger] scoped(b, c), ensures scoped(a, c)
{
    lemma_ext_trans(a.errs(), b.errs(), c.errs()); lemma_extt_trans(a.trace(), b.trace(), c.trace());
}
/// binding a name that the current scope does not have yet
pub broadcast proof fn lemma_bind_in(st: Seq<symbols::Scope>, name: Seq<char>, v: (symbols::SymbolId, Type))
    requires st.len() >= 1,
    ensures (#[trigger] symbols::bind_in(st, name, v)).len() == st.len(),
        symbols::bind_in(st, name, v).drop_last() == st.drop_last(),
        symbols::bind_in(st, name, v).last() == st.last().insert(name, v),
        !st.last().contains_key(name) ==> sub_scope(st.last(), symbols::bind_in(st, name, v).last()),
{
    assert(symbols::bind_in(st, name, v).drop_last() =~= st.drop_last());
}
/// the new binding is what the name resolves to; every other name resolves as before
pub broadcast proof fn lemma_resolve_bind(st: Seq<symbols::Scope>, name: Seq<char>, v: (symbols::SymbolId, Type), m: Seq<char>)
    requires st.len() >= 1,
    ensures #[trigger] symbols::resolve_in(symbols::bind_in(st, name, v), m) == if m == name { Some(v) } else { symbols::resolve_in(st, m) },
{
    let st2 = symbols::bind_in(st, name, v);
    assert(st2.drop_last() =~= st.drop_last());
    assert(st2.last() == st.last().insert(name, v));
}
pub broadcast proof fn lemma_push_drop_last<A>(s: Seq<A>, x: A) ensures #[trigger] s.push(x).drop_last() == s { assert(s.push(x).drop_last() =~= s); }
/// entering a scope, analysing (scoped) and leaving it restores the table exactly
pub broadcast proof fn lemma_enter_exit(c0: Context, c1: Context, c2: Context)
    requires c0.wf(), c1.scopes() == c0.scopes().push(Map::<Seq<char>, (symbols::SymbolId, Type)>::empty()), #[trigger] scoped(c1, c2),
    ensures c2.scopes().drop_last() == #[trigger] c0.scopes(), c2.scopes().len() > 1,
{
    assert(c1.scopes().drop_last() =~= c0.scopes());
}
/// C07: the analysis of `c` happens in a scope of its own, opened on top of the scopes of `c0`, with nothing bound yet
pub open spec fn fresh_scope(c0: Context, c: Context) -> bool { c.scopes() == c0.scopes().push(Map::<Seq<char>, (symbols::SymbolId, Type)>::empty()) }
/// C07: exactly the bindings of `c0` are visible in `c` (only declarations bind; every scope opened since has been left)
pub open spec fn same_scopes(c0: Context, c: Context) -> bool { c.scopes() == c0.scopes() }
/// C07: `c` is inside one scope opened on top of the scopes of `c0` (which are all still there, untouched)
pub open spec fn one_scope_deeper(c0: Context, c: Context) -> bool { c.scopes().len() == c0.scopes().len() + 1 && c.scopes().drop_last() == c0.scopes() }
/// C09: number of parameters written in an (optional) parameter list
pub open spec fn n_params(pl: Option<synast::ParamList>) -> nat { match pl { Some(l) => l.sp_params().len(), None => 0 } }
/// C09: the last symbol-table event is the declaration of `name` with a type satisfying `ty_ok`
pub open spec fn last_bind(c: Context, name: Seq<char>) -> bool { c.trace().len() > 0 && c.trace().last() is Bind && c.trace().last()->Bind_0 == name }
/// C06: every statement kind maps to the graph construct of the same meaning; statements that are
/// evaluated rather than translated (include, annotations, the version line) yield no node; C03:
/// statement kinds the analyser does not support yield the null statement (and are diagnosed)
pub open spec fn stmt_kind_ok(s: synast::Stmt, r: Option<asg::Stmt>) -> bool {
    match s {
        synast::Stmt::IfStmt(_) => r is Some && r->Some_0 is If,
        synast::Stmt::WhileStmt(_) => r is Some && r->Some_0 is While,
        synast::Stmt::ForStmt(_) => r is Some && r->Some_0 is ForStmt,
        synast::Stmt::SwitchCaseStmt(_) => r is Some && r->Some_0 is SwitchCaseStmt,
        synast::Stmt::ClassicalDeclarationStatement(_) => r is Some && r->Some_0 is DeclareClassical,
        synast::Stmt::IODeclarationStatement(d) => r is Some && (if d.sp_input_token() is Some { r->Some_0 is InputDeclaration } else { r->Some_0 is OutputDeclaration }),
        synast::Stmt::QuantumDeclarationStatement(q) => r is Some && (if q.sp_name() is Some { r->Some_0 is DeclareQuantum } else { r->Some_0 is DeclareHardwareQubit }),
        synast::Stmt::AssignmentStmt(_) => r is Some && r->Some_0 is Assignment,
        synast::Stmt::BreakStmt(_) => r == Some(asg::Stmt::Break),
        synast::Stmt::ContinueStmt(_) => r == Some(asg::Stmt::Continue),
        synast::Stmt::EndStmt(_) => r == Some(asg::Stmt::End),
        synast::Stmt::Gate(_) => r is Some && r->Some_0 is GateDefinition,
        synast::Stmt::Def(_) => r is Some && r->Some_0 is DefStmt,
        synast::Stmt::Barrier(_) => r is Some && r->Some_0 is Barrier,
        synast::Stmt::DelayStmt(_) => r is Some && r->Some_0 is Delay,
        synast::Stmt::Reset(_) => r is Some && r->Some_0 is Reset,
        synast::Stmt::PragmaStatement(_) => r is Some && r->Some_0 is Pragma,
        synast::Stmt::AliasDeclarationStatement(_) => r is Some && r->Some_0 is Alias,
        synast::Stmt::Include(_) => r is None,
        synast::Stmt::VersionString(_) => r is None,
        synast::Stmt::AnnotationStatement(_) => r is None,
        synast::Stmt::ExprStmt(e) => expr_stmt_ok(e.sp_expr(), r),
        // not implemented in the graph
        synast::Stmt::OldStyleDeclarationStatement(_) => r == Some(asg::Stmt::NullStmt),
        synast::Stmt::DefCal(_) => r == Some(asg::Stmt::NullStmt),
        synast::Stmt::Cal(_) => r == Some(asg::Stmt::NullStmt),
        synast::Stmt::DefCalGrammar(_) => r == Some(asg::Stmt::NullStmt),
        synast::Stmt::LetStmt(_) => r == Some(asg::Stmt::NullStmt),
        synast::Stmt::Measure(_) => r == Some(asg::Stmt::NullStmt),
        synast::Stmt::ExternStmt(_) => r == Some(asg::Stmt::NullStmt),
    }
}
/// C07: the symbol a declaration statement of the graph introduces in the scope it stands in (Err marks a redeclaration)
pub open spec fn declared_symbol(s: asg::Stmt) -> Option<SymbolIdResult> {
    match s {
        asg::Stmt::DeclareClassical(d) => Some(d.name),
        asg::Stmt::DeclareQuantum(d) => Some(d.name),
        asg::Stmt::InputDeclaration(d) => Some(d.name),
        asg::Stmt::OutputDeclaration(d) => Some(d.name),
        asg::Stmt::Alias(d) => Some(d.name),
        asg::Stmt::GateDefinition(d) => Some(d.name),
        asg::Stmt::DefStmt(d) => Some(d.name),
        _ => None,
    }
}
/// C06: the statements that have a translation (the others are evaluated: include, version line, annotation)
pub open spec fn translated(s: synast::Stmt) -> bool { !(s is Include || s is VersionString || s is AnnotationStatement) }
/// C06: a block of the graph holds exactly the translations of its statements, in order: one graph statement of the right kind
/// per translated source statement, none for the others
pub open spec fn block_ok(ss: Seq<synast::Stmt>, r: Seq<asg::Stmt>) -> bool
    decreases ss.len()
{
    if ss.len() == 0 { r.len() == 0 }
    else if translated(ss.last()) { r.len() > 0 && stmt_kind_ok(ss.last(), Some(r.last())) && block_ok(ss.drop_last(), r.drop_last()) }
    else { block_ok(ss.drop_last(), r) }
}
/// C06: the body of an if / else / while / for: a braced block holds the translations of its statements; a single statement
/// becomes a block of that one statement (an empty one if the statement has no translation)
pub open spec fn bors_ok(b: oq3_syntax::BlockOrStmt, r: asg::Block) -> bool {
    match b {
        oq3_syntax::BlockOrStmt::BlockExpr(be) => block_ok(be.sp_statements(), r.statements@),
        oq3_syntax::BlockOrStmt::Stmt(s) => if translated(s) { r.statements@.len() == 1 && stmt_kind_ok(s, Some(r.statements@[0])) } else { r.statements@.len() == 0 },
    }
}
/// C06: one `case`: its control values (count) and the translations of the statements of its block
pub open spec fn case_ok(c: synast::CaseExpr, g: asg::CaseExpr) -> bool {
    &&& (c.sp_expression_list() is Some ==> g.control_values@.len() == c.sp_expression_list()->Some_0.sp_exprs().len())
    &&& (c.sp_block_expr() is Some ==> block_ok(c.sp_block_expr()->Some_0.sp_statements(), g.statements@))
}
/// C06 / C05: if / else branches and loop bodies are attached to their statement in their roles
pub open spec fn bodies_ok(s: synast::Stmt, r: Option<asg::Stmt>) -> bool {
    match s {
        synast::Stmt::IfStmt(i) => r is Some && r->Some_0 is If && ({
            let g = r->Some_0->If_0;
            &&& bors_ok(i.sp_true_body_block_or_stmt(), g.then_branch)
            &&& (g.else_branch is Some) == (i.sp_false_body_block_or_stmt() is Some)
            &&& (g.else_branch is Some ==> bors_ok(i.sp_false_body_block_or_stmt()->Some_0, g.else_branch->Some_0))
        }),
        synast::Stmt::WhileStmt(w) => r is Some && r->Some_0 is While && bors_ok(w.sp_block_or_stmt(), r->Some_0->While_0.loop_body),
        synast::Stmt::ForStmt(f) => r is Some && r->Some_0 is ForStmt && bors_ok(f.sp_block_or_stmt(), r->Some_0->ForStmt_0.loop_body),
        // switch: one case of the graph per case written, in order, each with its values and the translations of its statements;
        // the default block exactly when written
        synast::Stmt::SwitchCaseStmt(w) => r is Some && r->Some_0 is SwitchCaseStmt && ({
            let g = r->Some_0->SwitchCaseStmt_0;
            &&& g.cases@.len() == w.sp_case_exprs().len()
            &&& forall|k: int| 0 <= k < g.cases@.len() ==> case_ok(#[trigger] w.sp_case_exprs()[k], g.cases@[k])
            &&& (g.default_block is Some) == (w.sp_default_block() is Some)
            &&& (g.default_block is Some ==> block_ok(w.sp_default_block()->Some_0.sp_statements(), g.default_block->Some_0@))
        }),
        // gate and subroutine bodies
        synast::Stmt::Gate(g) => r is Some && r->Some_0 is GateDefinition && (g.sp_body() is Some ==> block_ok(g.sp_body()->Some_0.sp_statements(), r->Some_0->GateDefinition_0.block.statements@)),
        synast::Stmt::Def(d) => r is Some && r->Some_0 is DefStmt && (d.sp_body() is Some ==> block_ok(d.sp_body()->Some_0.sp_statements(), r->Some_0->DefStmt_0.block.statements@)),
        _ => true,
    }
}
/// C07: a classical declaration standing directly in a block (or at top level) binds -- or finds already bound -- its name in
/// the scope of THAT block: the scope that is current where the statement stands
pub open spec fn decl_bound(c: Context, s: synast::Stmt) -> bool {
    s is ClassicalDeclarationStatement && s->ClassicalDeclarationStatement_0.sp_name() is Some
        ==> c.in_current_scope(s->ClassicalDeclarationStatement_0.sp_name()->Some_0.sp_string())
}
/// C06: every expression construct maps to the graph construct of the same meaning (literal classes included: the sign of a
/// negated literal is folded into the literal, an imaginary literal stays imaginary)
pub open spec fn expr_kind_ok(e: synast::Expr, r: asg::TExpr) -> bool {
    match e {
        synast::Expr::BinExpr(_) => r.expression is BinaryExpr,
        synast::Expr::Identifier(_) => r.expression is Identifier,
        synast::Expr::HardwareQubit(_) => r.expression is HardwareQubit,
        synast::Expr::RangeExpr(_) => r.expression is RangeExpression,
        synast::Expr::IndexExpr(_) => r.expression is IndexExpression,
        synast::Expr::IndexedIdentifier(_) => r.expression is IndexedIdentifier,
        synast::Expr::MeasureExpression(_) => r.expression is MeasureExpression,
        synast::Expr::ReturnExpr(_) => r.expression is Return,
        synast::Expr::CastExpression(_) => r.expression is Cast,
        synast::Expr::CallExpr(_) => r.expression is SubroutineCall,
        synast::Expr::TimingLiteral(t) => r.expression is Literal && timing_class_ok(t, r.expression->Literal_0),
        synast::Expr::PrefixExpr(p) => match (p.sp_op_kind(), p.sp_expr()) {
            (Some(synast::UnaryOp::Neg), Some(synast::Expr::Literal(l))) => r.expression is Literal && match l.sp_kind() {
                synast::LiteralKind::IntNumber(_) => r.expression->Literal_0 is Int && !r.expression->Literal_0->Int_0.sign,
                synast::LiteralKind::FloatNumber(_) => r.expression->Literal_0 is Float,
                _ => true,
            },
            (Some(synast::UnaryOp::Neg), Some(synast::Expr::TimingLiteral(t))) => r.expression is Literal && timing_class_ok(t, r.expression->Literal_0)
                && (r.expression->Literal_0 is ImaginaryInt ==> !r.expression->Literal_0->ImaginaryInt_0.sign),
            (Some(synast::UnaryOp::Neg), Some(_)) => r.expression is UnaryExpr && r.expression->UnaryExpr_0.op is Minus,
            _ => true,
        },
        _ => true,
    }
}
/// the literal class of a timing / imaginary literal: imaginary iff the unit is `im`, integer iff the number is written as one
pub open spec fn timing_class_ok(t: synast::TimingLiteral, g: asg::Literal) -> bool {
    t.sp_time_unit() is Some && t.sp_literal() is Some ==> match (t.sp_time_unit()->Some_0, t.sp_literal()->Some_0.sp_kind()) {
        (synast::TimeUnit::Imaginary, synast::LiteralKind::IntNumber(_)) => g is ImaginaryInt,
        (synast::TimeUnit::Imaginary, synast::LiteralKind::FloatNumber(_)) => g is ImaginaryFloat,
        (_, synast::LiteralKind::IntNumber(_)) => g is TimingIntLiteral,
        (_, synast::LiteralKind::FloatNumber(_)) => g is TimingFloatLiteral,
        _ => true,
    }
}
/// C08: the type of a typed expression is the type of its construct: a literal has the (const) type of its class, a cast its
/// target type, a measurement the bit shape of its operand, and both operands of an arithmetic expression have the
/// expression's type (directly or through the explicit casts new_texpr_with_cast inserts)
pub open spec fn typed_ok(r: asg::TExpr) -> bool {
    match r.expression {
        asg::Expr::Literal(l) => match l {
            asg::Literal::Bool(_) => r.ty == Type::Bool(IsConst::True),
            asg::Literal::Int(_) => r.ty is Int && types::sp_is_const(r.ty),
            asg::Literal::Float(_) => r.ty is Float && types::sp_is_const(r.ty),
            asg::Literal::ImaginaryFloat(_) => r.ty is Complex && types::sp_is_const(r.ty),
            asg::Literal::ImaginaryInt(_) => (!asg::co_imag_int() ==> r.ty is Complex) && types::sp_is_const(r.ty),
            asg::Literal::BitString(_) => r.ty is BitArray && types::sp_is_const(r.ty),
            asg::Literal::TimingIntLiteral(_) => r.ty == Type::Duration(IsConst::True),
            asg::Literal::TimingFloatLiteral(_) => r.ty == Type::Duration(IsConst::True),
            _ => true,
        },
        asg::Expr::Cast(c) => r.ty == c.typ,
        asg::Expr::MeasureExpression(m) => {
            &&& ((m.operand.ty is Qubit || m.operand.ty is HardwareQubit) ==> r.ty == Type::Bit(IsConst::False))
            &&& (m.operand.ty is QubitArray ==> r.ty == Type::BitArray(m.operand.ty->QubitArray_0, IsConst::False))
        },
        asg::Expr::BinaryExpr(b) => b.op is ArithOp ==> b.left.ty == r.ty && b.right.ty == r.ty,
        _ => true,
    }
}
/// C06: gate modifiers keep their kind and their order
pub open spec fn mod_same(m: synast::Modifier, g: asg::GateModifier) -> bool {
    match m {
        synast::Modifier::InvModifier(_) => g is Inv, synast::Modifier::PowModifier(_) => g is Pow,
        synast::Modifier::CtrlModifier(_) => g is Ctrl, synast::Modifier::NegCtrlModifier(_) => g is NegCtrl,
    }
}
pub open spec fn mods_same(ms: Seq<synast::Modifier>, gs: Seq<asg::GateModifier>) -> bool {
    ms.len() == gs.len() && forall|i: int| 0 <= i < ms.len() ==> mod_same(#[trigger] ms[i], gs[i])
}
/// C06: an expression statement is a gate call / gphase call (with its modifiers) or a plain expression
pub open spec fn expr_stmt_ok(e: Option<synast::Expr>, r: Option<asg::Stmt>) -> bool {
    match e {
        Some(synast::Expr::GateCallExpr(_)) => r is Some && r->Some_0 is GateCall && r->Some_0->GateCall_0.modifiers@.len() == 0,
        Some(synast::Expr::ModifiedGateCallExpr(m)) => r is Some && (
            if m.sp_gate_call_expr() is Some { r->Some_0 is GateCall && mods_same(m.sp_modifiers(), r->Some_0->GateCall_0.modifiers@) }
            else { r->Some_0 is ModifiedGPhaseCall && mods_same(m.sp_modifiers(), r->Some_0->ModifiedGPhaseCall_0.modifiers@) }),
        Some(synast::Expr::GPhaseCallExpr(_)) => r is Some && r->Some_0 is GPhaseCall,
        _ => r is Some && r->Some_0 is ExprStmt,
    }
}
/// C03: constructs the analyser does not support are reported
pub open spec fn unsupported_stmt(s: synast::Stmt) -> bool {
    s is OldStyleDeclarationStatement || s is DefCal || s is Cal || s is DefCalGrammar || s is LetStmt || s is Measure || s is ExternStmt || s is VersionString
}
/// C06: the statements of the program so far are kept, in order (statements are only appended)
pub open spec fn stmts_ext(a: Seq<asg::Stmt>, b: Seq<asg::Stmt>) -> bool { a.len() <= b.len() && b.take(a.len() as int) == a }
pub broadcast proof fn lemma_stmts_ext_refl(a: Seq<asg::Stmt>) ensures #[trigger] stmts_ext(a, a) { assert(a.take(a.len() as int) =~= a); }
pub broadcast proof fn lemma_stmts_ext_push(a: Seq<asg::Stmt>, b: Seq<asg::Stmt>, x: asg::Stmt)
    requires #[trigger] stmts_ext(a, b), ensures stmts_ext(a, #[trigger] b.push(x))
{ assert(b.push(x).take(a.len() as int) =~= b.take(a.len() as int)); }
pub broadcast proof fn lemma_stmts_ext_trans(a: Seq<asg::Stmt>, b: Seq<asg::Stmt>, c: Seq<asg::Stmt>)
    requires #[trigger] stmts_ext(a, b), #[trigger] stmts_ext(b, c), ensures stmts_ext(a, c)
{ assert(c.take(a.len() as int) =~= c.take(b.len() as int).take(a.len() as int)); }
pub open spec fn cond1(c: bool, k: SemanticErrorKind) -> Seq<SemanticErrorKind> { if c { seq![k] } else { Seq::empty() } }

// ---- C06: operators map to the graph operator of the same meaning ------------------------------
pub open spec fn arith_same(a: synast::ArithOp, b: asg::ArithOp) -> bool {
    match a {
        synast::ArithOp::Add => b is Add, synast::ArithOp::Sub => b is Sub, synast::ArithOp::Mul => b is Mul,
        synast::ArithOp::Div => b is Div, synast::ArithOp::Rem => b is Rem, synast::ArithOp::Shl => b is Shl,
        synast::ArithOp::Shr => b is Shr, synast::ArithOp::BitOr => b is BitOr, synast::ArithOp::BitXor => b is BitXOr,
        synast::ArithOp::BitAnd => b is BitAnd,
    }
}
/// KF C06-power-op: `**` is stored as ConcatenationOp
pub open spec fn co_power_op(op: synast::BinaryOp) -> bool { op is PowerOp }

// ---- C13: the diagnostics a gate call must produce ----------------------------------------------
/// from the statement: a call is reported iff the number of parameters / qubit operands differs
/// from the gate's definition; calling a name that resolves to something that is not a gate is
/// reported; an unresolved name is reported by the look-up, not here
pub open spec fn gate_call_diags(ty: Type, resolved: bool, n_params: nat, n_qubits: nat) -> Seq<SemanticErrorKind> {
    if ty is Gate {
        cond1(ty->Gate_0 != n_params, SemanticErrorKind::NumGateParamsError) + cond1(ty->Gate_1 != n_qubits, SemanticErrorKind::NumGateQubitsError)
    } else {
        cond1(resolved, SemanticErrorKind::IncompatibleTypesError)
    }
}
pub open spec fn opt_len<T>(o: Option<Vec<T>>) -> nat { match o { Some(v) => v@.len(), None => 0 } }
pub open spec fn is_quantum_operand_type(t: Type) -> bool { t is Qubit || t is HardwareQubit || t is QubitArray }
pub open spec fn lookup_type(c: Context, name: Seq<char>) -> Type { match c.resolve(name) { Some(p) => p.1, None => Type::Undefined } }
pub open spec fn lookup_id(c: Context, name: Seq<char>) -> SymbolIdResult {
    match c.resolve(name) { Some(p) => Ok(p.0), None => Err(symbols::SymbolError::MissingBinding) }
}
pub open spec fn undef_diag(c: Context, name: Seq<char>, k: SemanticErrorKind) -> Seq<SemanticErrorKind> { cond1(c.resolve(name) is None, k) }

// ---- C09: syntactic type + width -> Type --------------------------------------------------------
pub open spec fn ic(b: bool) -> IsConst { if b { IsConst::True } else { IsConst::False } }
pub open spec fn type_of(kind: synast::ScalarTypeKind, width: Option<u32>, isconst: bool) -> Type {
    match kind {
        synast::ScalarTypeKind::Angle => Type::Angle(width, ic(isconst)),
        synast::ScalarTypeKind::Bit => match width { Some(w) => Type::BitArray(ArrayDims::D1(w as usize), ic(isconst)), None => Type::Bit(ic(isconst)) },
        synast::ScalarTypeKind::Bool => Type::Bool(ic(isconst)),
        synast::ScalarTypeKind::Complex => Type::Complex(width, ic(isconst)),
        synast::ScalarTypeKind::Duration => Type::Duration(ic(isconst)),
        synast::ScalarTypeKind::Float => Type::Float(width, ic(isconst)),
        synast::ScalarTypeKind::Int => Type::Int(width, ic(isconst)),
        synast::ScalarTypeKind::Stretch => Type::Stretch(ic(isconst)),
        synast::ScalarTypeKind::UInt => Type::UInt(width, ic(isconst)),
        synast::ScalarTypeKind::Qubit => match width { Some(w) => Type::QubitArray(ArrayDims::D1(w as usize)), None => Type::Qubit },
        synast::ScalarTypeKind::None => Type::Undefined,
    }
}
/// the width / register length a result type carries
pub open spec fn written_width(t: Type) -> Option<u32> {
    match t {
        Type::Angle(w, _) => w, Type::Complex(w, _) => w, Type::Float(w, _) => w, Type::Int(w, _) => w, Type::UInt(w, _) => w,
        Type::BitArray(ArrayDims::D1(n), _) => Some(n as u32), Type::QubitArray(ArrayDims::D1(n)) => Some(n as u32),
        _ => None,
    }
}
/// KF C09-width-truncation: an integer-literal designator >= 2^32 is truncated (`as u32`) silently
pub open spec fn co_width_truncation(v: u128) -> bool { v > u32::MAX }

// ---- C08: declaration / assignment rule -----------------------------------------------------------
/// the stored value either has the target type up to const, or is an explicit cast to exactly it
pub open spec fn value_conforms(v: asg::TExpr, target: Type) -> bool {
    types::eq_upto_const(target, v.ty) || (v.expression is Cast && v.ty == target && v.expression->Cast_0.typ == target)
}
pub open spec fn des_expr(d: Option<&synast::Designator>) -> Option<synast::Expr> { match d { Some(x) => x.sp_expr(), None => None } }
/// value of a designator that is an integer literal
pub open spec fn des_int_literal(d: Option<&synast::Designator>) -> Option<u128> {
    match des_expr(d) {
        Some(synast::Expr::Literal(l)) => match l.sp_kind() { synast::LiteralKind::IntNumber(n) => n.sp_value(), _ => None },
        _ => None,
    }
}
/// C09: the width / register length written after a type keyword as an integer literal (`int[32]`, `qubit[4]`), if any
pub open spec fn lit_width(d: Option<synast::Designator>) -> Option<u128> { match d { Some(x) => des_int_literal(Some(&x)), None => None } }
pub open spec fn has_designator(d: Option<synast::Designator>) -> bool { match d { Some(x) => x.sp_expr() is Some, None => false } }
/// the scalar kinds whose type carries the width / length written
pub open spec fn kind_takes_width(k: synast::ScalarTypeKind) -> bool {
    k is Angle || k is Bit || k is Float || k is Int || k is UInt || k is Qubit
}
/// C09: the width / length recorded is the one written: none when none is written, the literal when a literal is written
pub open spec fn width_as_written(st: synast::ScalarType, r: Type) -> bool {
    (st.sp_scalar_type() is None && kind_takes_width(st.sp_kind())) ==> {
        &&& (!has_designator(st.sp_designator()) ==> written_width(r) is None)
        &&& ((lit_width(st.sp_designator()) is Some && !co_width_truncation(lit_width(st.sp_designator())->Some_0))
                ==> written_width(r) == Some(lit_width(st.sp_designator())->Some_0 as u32))
    }
}
/// C09: a typed (subroutine) parameter is bound with the type written for it (never const); an array reference type is not modelled yet
pub open spec fn ptype_ok(pt: Option<synast::ParamType>, t: Type) -> bool {
    match pt {
        Some(synast::ParamType::ScalarType(st)) => t == type_of(st.sp_kind(), written_width(t), false) && width_as_written(st, t),
        Some(synast::ParamType::ArrayRefType(_)) => t == Type::ToDo,
        None => true,
    }
}
/// KF C09-nonconst-designator-silent
pub open spec fn co_nonconst_designator() -> bool { true }

pub broadcast proof fn lemma_ext_refl(a: Seq<SemanticErrorKind>) ensures #[trigger] ext(a, a) { assert(a.take(a.len() as int) =~= a); }
pub broadcast proof fn lemma_ext_push(a: Seq<SemanticErrorKind>, k: SemanticErrorKind) ensures #[trigger] ext(a, a.push(k)) { assert(a.push(k).take(a.len() as int) =~= a); }
pub broadcast proof fn lemma_ext_add(a: Seq<SemanticErrorKind>, b: Seq<SemanticErrorKind>) ensures #[trigger] ext(a, a + b) { assert((a + b).take(a.len() as int) =~= a); }
pub broadcast proof fn lemma_ext_trans(a: Seq<SemanticErrorKind>, b: Seq<SemanticErrorKind>, c: Seq<SemanticErrorKind>)
    requires #[trigger] ext(a, b), #[trigger] ext(b, c), ensures ext(a, c)
{ assert(c.take(a.len() as int) =~= c.take(b.len() as int).take(a.len() as int)); }
pub broadcast proof fn lemma_add_empty(a: Seq<SemanticErrorKind>) ensures #[trigger] (a + Seq::<SemanticErrorKind>::empty()) == a { assert(a + Seq::<SemanticErrorKind>::empty() =~= a); }
pub broadcast proof fn lemma_add_one(a: Seq<SemanticErrorKind>, k: SemanticErrorKind) ensures #[trigger] (a + seq![k]) == a.push(k) { assert(a + seq![k] =~= a.push(k)); }
pub broadcast proof fn lemma_ext_add2(a: Seq<SemanticErrorKind>, b: Seq<SemanticErrorKind>, c: Seq<SemanticErrorKind>) ensures #[trigger] ext(a, (a + b) + c) { assert(((a + b) + c).take(a.len() as int) =~= a); }
pub broadcast proof fn lemma_ext_then_push(a: Seq<SemanticErrorKind>, b: Seq<SemanticErrorKind>, k: SemanticErrorKind)
    requires #[trigger] ext(a, b), ensures ext(a, #[trigger] b.push(k))
{ assert(b.push(k).take(a.len() as int) =~= b.take(a.len() as int)); }
pub broadcast proof fn lemma_ext_then_add(a: Seq<SemanticErrorKind>, b: Seq<SemanticErrorKind>, c: Seq<SemanticErrorKind>)
    requires #[trigger] ext(a, b), ensures ext(a, #[trigger] (b + c))
{ assert((b + c).take(a.len() as int) =~= b.take(a.len() as int)); }
pub broadcast proof fn lemma_extt_refl(a: Seq<context::Ev>) ensures #[trigger] ext_tr(a, a) { assert(a.take(a.len() as int) =~= a); }
pub broadcast proof fn lemma_extt_then_push(a: Seq<context::Ev>, b: Seq<context::Ev>, k: context::Ev)
    requires #[trigger] ext_tr(a, b), ensures ext_tr(a, #[trigger] b.push(k))
{ assert(b.push(k).take(a.len() as int) =~= b.take(a.len() as int)); }
pub broadcast proof fn lemma_extt_trans(a: Seq<context::Ev>, b: Seq<context::Ev>, c: Seq<context::Ev>)
    requires #[trigger] ext_tr(a, b), #[trigger] ext_tr(b, c), ensures ext_tr(a, c)
{ assert(c.take(a.len() as int) =~= c.take(b.len() as int).take(a.len() as int)); }
pub broadcast proof fn lemma_extt_push(a: Seq<context::Ev>, k: context::Ev) ensures #[trigger] ext_tr(a, a.push(k)) { assert(a.push(k).take(a.len() as int) =~= a); }
pub broadcast proof fn lemma_ext_drop_last(b: Seq<SemanticErrorKind>)
    requires b.len() >= 1, ensures ext(#[trigger] b.drop_last(), b)
{ assert(b.take(b.len() - 1) =~= b.drop_last()); }
pub broadcast group sema_lemmas { lemma_stmts_ext_refl, lemma_stmts_ext_push, lemma_stmts_ext_trans, source::axiom_analyzable_file, lemma_scoped_refl, lemma_scoped_trans, lemma_bind_in, lemma_resolve_bind, lemma_push_drop_last, lemma_enter_exit, lemma_ext_drop_last, lemma_extt_push, lemma_extt_refl, lemma_extt_then_push, lemma_extt_trans, lemma_ext_then_push, lemma_ext_then_add, lemma_ext_add2, lemma_ext_refl, lemma_ext_push, lemma_ext_add, lemma_ext_trans, lemma_add_empty, lemma_add_one }

/// C13, gate calls.  `mid` is the analyser state after the operands and parameters were analysed
/// (their own diagnostics come first); then the name is resolved once (UndefGateError if that
/// fails) and exactly the arity / non-gate diagnostics of the statement follow.
pub open spec fn gate_call_post(c0: Context, mid: Context, c1: Context, name: Seq<char>, gc_name: SymbolIdResult, n_params: nat, n_qubits: nat) -> bool {
    &&& ext(c0.errs(), mid.errs())
    &&& gc_name == lookup_id(mid, name)
    &&& c1.errs() == (mid.errs() + undef_diag(mid, name, SemanticErrorKind::UndefGateError))
                     + gate_call_diags(lookup_type(mid, name), mid.resolve(name) is Some, n_params, n_qubits)
}
pub open spec fn call_post(c0: Context, mid: Context, c1: Context, name: Seq<char>, n_args: nat) -> bool {
    &&& ext(c0.errs(), mid.errs())
    &&& lookup_type(mid, name) is SubroutineDef ==>
            c1.errs() == (mid.errs() + undef_diag(mid, name, SemanticErrorKind::UndefVarError))
                         + cond1(lookup_type(mid, name)->SubroutineDef_0.num_params != n_args, SemanticErrorKind::NumDefParamsError)
}

// ---- C08: the declaration rule ---------------------------------------------------------------------
/// KF C08-decl-silent: a const (or carve-out) value of another tower type is stored without cast and
/// without diagnostic (`const int[16] n = 5; int[8] y = n;`, `int[8] y = 1 + 2;`)
pub open spec fn co_decl_silent(t: Type, v: asg::TExpr) -> bool {
    !(v.expression is Literal) && ((types::in_tower(t) && types::in_tower(v.ty) && types::sp_is_const(v.ty)) || types::co_shape(t, v.ty))
}
pub open spec fn type_diag_last(errs: Seq<SemanticErrorKind>) -> bool { errs.len() > 0 && errs.last() is IncompatibleTypesError }
/// from the statement: the stored initializer has the declared type up to const, or is an explicit
/// cast to exactly the declared type, or a type diagnostic was reported
pub open spec fn decl_ok(t: Type, v: asg::TExpr, errs: Seq<SemanticErrorKind>) -> bool {
    value_conforms(v, t) || type_diag_last(errs) || co_decl_silent(t, v)
}

/// an integer literal expression is typed int (its constructor IntLiteral::to_texpr says so)
pub open spec fn int_lit_typed(t: asg::TExpr) -> bool { (t.expression is Literal && t.expression->Literal_0 is Int) ==> t.ty is Int }
/// the type the value had before an explicit cast was put around it
pub open spec fn orig_ty(v: asg::TExpr) -> Type { if v.expression is Cast { v.expression->Cast_0.operand.ty } else { v.ty } }

// ---- C08 / C13: the assignment rule -----------------------------------------------------------------
/// KF C08-assign-int-literal-silent: an integer literal assigned to a variable that is not `uint`
/// is stored without cast and without diagnostic, whatever the variable's type (`duration d; d = 1;`)
pub open spec fn co_assign_int_literal(t: Type, v: asg::TExpr) -> bool {
    v.expression is Literal && v.expression->Literal_0 is Int && !(t is UInt)
}
/// the stored value has exactly the variable's type, or is an explicit cast to exactly it
pub open spec fn assign_value_ok(t: Type, v: asg::TExpr) -> bool {
    v.ty == t || (v.expression is Cast && v.ty == t && v.expression->Cast_0.typ == t) || co_assign_int_literal(t, v)
}
pub open spec fn is_type_diag(k: SemanticErrorKind) -> bool { k is IncompatibleDimensionError || k is CastError || k is IncompatibleTypesError }
/// `mid`: the state after the right-hand side was analysed; then the target is resolved (once), at
/// most one type diagnostic follows, and MutateConstError is appended iff the target is a const symbol
pub open spec fn assign_post(c0: Context, mid: Context, c1: Context, name: Seq<char>, td: Seq<SemanticErrorKind>, lv: asg::LValue, rv: asg::TExpr) -> bool {
    let resolved = mid.resolve(name) is Some;
    let ty = lookup_type(mid, name);
    &&& grows(c0, mid)
    &&& lv == asg::LValue::Identifier(lookup_id(mid, name))
    &&& td.len() <= 1 && (td.len() == 1 ==> is_type_diag(td[0]))
    &&& c1.errs() == ((mid.errs() + undef_diag(mid, name, SemanticErrorKind::UndefVarError)) + td)
                     + cond1(resolved && types::sp_is_const(ty), SemanticErrorKind::MutateConstError)
    &&& (resolved && td.len() == 0) ==> assign_value_ok(ty, rv)
}
