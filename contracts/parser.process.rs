// ---- event::process: vocabulary (spliced into `mod event`) -------------------------------------------
use crate::parser::{fp_ok, has_fp, fp_of, start_at, is_start};
use crate::output::{Output, Step, tok_sum, output_shape};
use crate::parser::{toks_ok, ev_sum, tok_n, is_token, bal, real_n, fin_n, is_real, lemma_bal_update};
use std::mem;
// assumed-dep (std): mem::replace stores the new value and returns the old one
pub assume_specification<T> [std::mem::replace] (dest: &mut T, src: T) -> (r: T)
    ensures *final(dest) == src, r == *old(dest);
/// the leaf tokens an event list records, in order, each with its raw-token count
pub open spec fn tok_events(ev: Seq<Event>) -> Seq<(SyntaxKind, u8)>
    decreases ev.len()
{
    if ev.len() == 0 { Seq::empty() } else {
        let r = tok_events(ev.drop_last());
        match ev.last() { Event::Token { kind, n_raw_tokens } => r.push((kind, n_raw_tokens)), _ => r }
    }
}
/// the same for the steps of an `Output`
pub open spec fn tok_steps(st: Seq<Step<'_>>) -> Seq<(SyntaxKind, u8)>
    decreases st.len()
{
    if st.len() == 0 { Seq::empty() } else {
        let r = tok_steps(st.drop_last());
        match st.last() { Step::Token { kind, n_input_tokens } => r.push((kind, n_input_tokens)), _ => r }
    }
}
pub open spec fn n_finish(ev: Seq<Event>) -> nat
    decreases ev.len()
{ if ev.len() == 0 { 0 } else { n_finish(ev.drop_last()) + (if ev.last() is Finish { 1nat } else { 0nat }) } }
pub open spec fn n_exit(st: Seq<Step<'_>>) -> nat
    decreases st.len()
{ if st.len() == 0 { 0 } else { n_exit(st.drop_last()) + (if st.last() is Exit { 1nat } else { 0nat }) } }
pub proof fn lemma_take_step(ev: Seq<Event>, i: int)
    requires 0 <= i < ev.len(),
    ensures ev.take(i + 1).drop_last() == ev.take(i), ev.take(i + 1).last() == ev[i], ev.take(i + 1).len() == i + 1,
{ assert(ev.take(i + 1).drop_last() =~= ev.take(i)); }
pub broadcast proof fn lemma_steps_push(st: Seq<Step<'_>>, s: Step<'_>)
    ensures #[trigger] st.push(s).drop_last() == st, st.push(s).last() == s, st.push(s).len() == st.len() + 1,
{ assert(st.push(s).drop_last() =~= st); }
/// what the main loop of `process` maintains about the part of the list it has not reached yet: a later Start
/// event may have been consumed early through a forward_parent chain (it is then a tombstone Start); nothing else changed
pub open spec fn rest_kept(ev0: Seq<Event>, ev: Seq<Event>, from: int) -> bool {
    &&& ev.len() == ev0.len()
    &&& forall|j: int| #![trigger ev0[j]] #![trigger ev[j]] from <= j < ev.len() ==> (is_start(ev0[j]) == is_start(ev[j]) && (!is_start(ev0[j]) ==> ev[j] == ev0[j]))
}
/// no FloatSplit step, and every Token step stands for at least one raw token
pub open spec fn step_ok(s: Step<'_>) -> bool { !(s is FloatSplit) && (s is Token ==> s->n_input_tokens >= 1) }
pub open spec fn steps_ok(st: Seq<Step<'_>>) -> bool { forall|k: int| 0 <= k < st.len() ==> step_ok(#[trigger] st[k]) }
pub open spec fn step_n(s: Step<'_>) -> int { if s is Token { s->n_input_tokens as int } else { 0 } }
/// `tok_sum` computed from the back (the direction in which `process` appends steps)
pub open spec fn tok_sum_b(st: Seq<Step<'_>>) -> int
    decreases st.len()
{ if st.len() == 0 { 0 } else { tok_sum_b(st.drop_last()) + step_n(st.last()) } }
pub proof fn lemma_tok_sum_push(st: Seq<Step<'_>>, s: Step<'_>)
    ensures tok_sum(st.push(s)) == tok_sum(st) + step_n(s)
    decreases st.len()
{
    let s2 = st.push(s);
    if st.len() == 0 { assert(s2.skip(1) =~= Seq::empty()); assert(tok_sum(s2.skip(1)) == 0); }
    else { assert(s2.skip(1) =~= st.skip(1).push(s)); lemma_tok_sum_push(st.skip(1), s); }
}
/// the two directions agree
pub proof fn lemma_tok_sum_b(st: Seq<Step<'_>>)
    ensures tok_sum_b(st) == tok_sum(st)
    decreases st.len()
{
    if st.len() > 0 { lemma_tok_sum_b(st.drop_last()); lemma_tok_sum_push(st.drop_last(), st.last()); assert(st.drop_last().push(st.last()) =~= st); }
}
/// the first event is the Start of a real (non-tombstone) node
pub open spec fn root_first(ev: Seq<Event>) -> bool { ev.len() > 0 && (ev[0] matches Event::Start { kind, .. } && kind != SyntaxKind::TOMBSTONE) }
/// Enter steps minus Exit steps
pub open spec fn sbal(st: Seq<Step<'_>>) -> int
    decreases st.len()
{ if st.len() == 0 { 0 } else { sbal(st.drop_last()) + (if st.last() is Enter { 1int } else { 0 }) - (if st.last() is Exit { 1int } else { 0 }) } }
/// kinds waiting in `forward_parents` that will become Enter steps
pub open spec fn kinds_real(k: Seq<SyntaxKind>) -> int
    decreases k.len()
{ if k.len() == 0 { 0 } else { kinds_real(k.drop_last()) + (if k.last() != SyntaxKind::TOMBSTONE { 1int } else { 0 }) } }
pub broadcast proof fn lemma_kinds_push(k: Seq<SyntaxKind>, a: SyntaxKind)
    ensures #[trigger] k.push(a).drop_last() == k, k.push(a).last() == a,
{ assert(k.push(a).drop_last() =~= k); }
pub open spec fn tomb() -> Event { Event::Start { kind: SyntaxKind::TOMBSTONE, forward_parent: None } }
pub proof fn lemma_bal_all_tomb(ev: Seq<Event>)
    requires forall|j: int| 0 <= j < ev.len() ==> ev[j] == tomb(),
    ensures bal(ev) == 0
    decreases ev.len()
{ if ev.len() > 0 { lemma_bal_all_tomb(ev.drop_last()); } }
