// ---------------------------------------------------------------------------------------------
// LEXSTR prelude: the parser-facing token table.  Nothing here is executable code of /repo.
// ---------------------------------------------------------------------------------------------
use vstd::string::StringSliceAdditionalSpecFns;
use std::ops;
use self::SyntaxKind::*;
/// path aliases of the real crates
pub mod oq3_lexer { pub use super::{TokenKind, LiteralKind, Base, Token}; }

/// byte length of a str (what `str::len` returns; vstd: `spec_bytes().len()`)
pub open spec fn blen(s: &str) -> usize { s.spec_bytes().len() as usize }
/// the kinds the lexer side can produce all fit the parser's 128-bit token sets
/// (VERSION_STRING is the one kind >= 128 the lexer side produces; the parser's token sets must
/// answer `false` for it rather than shift out of range — see the `fix:` commit on TokenSet)
pub open spec fn is_token_kind(k: SyntaxKind) -> bool {
    k != SyntaxKind::TOMBSTONE && ((k as u16) < 128 || k == SyntaxKind::VERSION_STRING)
}

impl<'a> LexedStr<'a> {
    /// table invariant while it is being built: one start offset per kind, offsets non-decreasing
    pub open spec fn wf_building(&self) -> bool {
        &&& self.kind@.len() == self.start@.len()
        &&& forall|i: int, j: int| 0 <= i <= j < self.start@.len() ==> self.start@[i] <= self.start@[j]
        &&& forall|i: int| 0 <= i < self.error@.len() ==> (#[trigger] self.error@[i]).token < self.kind@.len()
    }
    /// the finished table: at least the EOF entry
    pub open spec fn wf(&self) -> bool { self.wf_building() && self.kind@.len() >= 1 }
    pub open spec fn ntok(&self) -> int { self.kind@.len() - 1 }
}
impl<'a> Converter<'a> {
    pub open spec fn wf(&self) -> bool {
        &&& self.res.wf_building()
        &&& self.offset <= 0x7fff_ffff
        &&& self.res.kind@.len() <= self.offset      // every token is at least one byte long
        &&& forall|i: int| 0 <= i < self.res.start@.len() ==> (#[trigger] self.res.start@[i]) as nat <= self.offset
    }
}
