// ---------------------------------------------------------------------------------------------
// C14 chain lemma.  `tokenize` (std::iter::from_fn closure) and `LexedStr::new` (iterator `for`,
// nested str slices) are outside the dialect; text guards in the unit check that their source
// text is still the 8-/7-line loop this function restates:
//     for token in tokenize(text) { conv.extend_token(&token.kind, &text[conv.offset..][..token.len]) }
//     conv.finalize_with_eof()
// with tokenize = "advance_token until Eof".  Everything it calls is the REAL code under contract.
// ---------------------------------------------------------------------------------------------
/// stands for `&text[offset..][..len]` (str slicing; its byte length is `len` by definition)
#[verifier::external_body]
fn slice_token_text<'t>(text: &'t str, offset: usize, len: u32) -> (r: &'t str)
    ensures blen(r) == len as usize
{ unimplemented!() }

/// the `next` of the iterator `tokenize` returns: the body of its `from_fn` closure, copied from /repo on this run (D37), against what
/// the `for` loop of LexedStr::new relies on -- one token per call, none exactly at the end of the input, never an Eof token
fn oq3_tokenize_next(cursor: &mut Cursor) -> (r: Option<Token>)
    requires fits(*old(cursor)), old(cursor).tok().len() == 0,
    ensures
        final(cursor).tok().len() == 0, fits(*final(cursor)),
        final(cursor).rest() == old(cursor).rest().skip(eaten(*old(cursor), *final(cursor))),
        (r is None) == (old(cursor).rest().len() == 0),                                                             //@C14,C01:stream-ends-at-end-of-input
        r is None ==> eaten(*old(cursor), *final(cursor)) == 0,
        r is Some ==> !(r->Some_0.kind is Eof) && eaten(*old(cursor), *final(cursor)) >= 1
            && r->Some_0.len == utf8_len(old(cursor).rest().take(eaten(*old(cursor), *final(cursor)))) && r->Some_0.len >= 1,      //@C14,C02:token-length-is-what-was-consumed
{
    broadcast use lex_lemmas;
@@TOKENIZE_CLOSURE_BODY@@
}

fn c14_chain_table_from_tokens<'t>(text: &'t str, cursor: &mut Cursor) -> (r: LexedStr<'t>)
    requires old(cursor).tok().len() == 0, fits(*old(cursor)),
    ensures
        r.wf(),
        // the table ends at the input length ...
        r.start@.last() == utf8_len(old(cursor).rest()),                                          //@C14,C02:table-ends-at-input-length
        // ... its start offsets are strictly increasing ...
        forall|i: int, j: int| 0 <= i < j < r.start@.len() ==> r.start@[i] < r.start@[j],        //@C14:starts-strictly-increasing
        // ... the last kind is EOF and no other is; every kind fits the parser's token sets
        r.kind@.last() == SyntaxKind::EOF,
        forall|i: int| 0 <= i < r.kind@.len() - 1 ==> r.kind@[i] != SyntaxKind::EOF && is_token_kind(#[trigger] r.kind@[i]),   //@C01,C02:no-eof-inside
        // ... and every lexical diagnostic points at a token of the table
        forall|i: int| 0 <= i < r.error@.len() ==> (#[trigger] r.error@[i]).token < r.kind@.len() - 1,   //@C12:lex-error-on-a-token
{
    broadcast use lex_lemmas;
    let mut conv = Converter::new(text);
    let ghost r0 = cursor.rest();
    let ghost mut k: int = 0;
    proof { assert(r0.take(0) =~= Seq::<char>::empty()); assert(r0.skip(0) =~= r0); lemma_utf8_len_add(r0.take(0), r0.skip(0)); }
    loop
        invariant
            conv.wf(), cursor.tok().len() == 0, fits(*cursor),
            0 <= k <= r0.len(), cursor.rest() == r0.skip(k),
            // the running offset of the table is the byte length of what the lexer has consumed so far
            conv.offset == utf8_len(r0.take(k)),                                                                        //@C14,C02,C15:table-invariant
            utf8_len(r0) <= 0x7fff_ffff,
            forall|i: int, j: int| 0 <= i < j < conv.res.start@.len() ==> conv.res.start@[i] < conv.res.start@[j],      //@C14,C02:table-invariant
            forall|i: int| 0 <= i < conv.res.start@.len() ==> (#[trigger] conv.res.start@[i]) < conv.offset,           //@C14,C02:table-invariant
            forall|i: int| 0 <= i < conv.res.kind@.len() ==> conv.res.kind@[i] != SyntaxKind::EOF && is_token_kind(#[trigger] conv.res.kind@[i]),      //@C01,C02:table-invariant
            forall|i: int| 0 <= i < conv.res.error@.len() ==> (#[trigger] conv.res.error@[i]).token < conv.res.kind@.len(),      //@C12,C11:table-invariant
        ensures
            conv.wf(), conv.offset == utf8_len(r0),
            forall|i: int, j: int| 0 <= i < j < conv.res.start@.len() ==> conv.res.start@[i] < conv.res.start@[j],
            forall|i: int| 0 <= i < conv.res.start@.len() ==> (#[trigger] conv.res.start@[i]) < conv.offset,
            forall|i: int| 0 <= i < conv.res.kind@.len() ==> conv.res.kind@[i] != SyntaxKind::EOF && is_token_kind(#[trigger] conv.res.kind@[i]),
            forall|i: int| 0 <= i < conv.res.error@.len() ==> (#[trigger] conv.res.error@[i]).token < conv.res.kind@.len(),
        decreases cursor.rest().len(),
    {
        broadcast use lex_lemmas;
        let ghost c0 = *cursor;
        let ghost off0 = conv.offset;
        let ghost starts0 = conv.res.start@;
        let oq3_next: Option<Token> = oq3_tokenize_next(cursor);      // the `next` of tokenize's iterator; `None` ends the `for` loop of LexedStr::new
        let token = match oq3_next {
            Some(oq3_t) => oq3_t,
            None => {
                proof { assert(r0.take(k) =~= r0); }
                break;
            }
        };
        let ghost n = eaten(c0, *cursor);
        proof {
            assert(r0.take(k) + r0.skip(k).take(n) =~= r0.take(k + n));
            lemma_utf8_len_add(r0.take(k), r0.skip(k).take(n));
            assert(r0.skip(k).skip(n) =~= r0.skip(k + n));
            assert(r0.take(k + n) + r0.skip(k + n) =~= r0);
            lemma_utf8_len_add(r0.take(k + n), r0.skip(k + n));
        }
        let ghost k_in = k;
        proof { k = k + n; }      // (the lexer has consumed n more characters: counted before the copied body, which may `continue`)
        // ---- the body of the `for` loop of LexedStr::new, copied from /repo on this run (D37)
@@NEW_LOOP_BODY@@
        // ---- end of the copied body
        proof {
            assert(conv.res.start@ == starts0.push(off0 as u32));
        }
    }
    let ghost starts1 = conv.res.start@;
    let ghost off1 = conv.offset;
    let r = @@NEW_TAIL@@;      // the tail expression of LexedStr::new, copied from /repo (D37)
    proof { assert(r.start@ == starts1.push(off1 as u32)); }
    r
}
