// ---------------------------------------------------------------------------------------------
// SEMA boundary to oq3_source_file: parsed sources and their included files (trusted; the crate
// is not verified).  Nothing here is executable code of /repo.
// ---------------------------------------------------------------------------------------------
pub mod source {
    use vstd::prelude::*;
    use super::synast;
    #[verifier::external_body] pub struct Path { _p: u8 }
    #[verifier::external_body] pub struct PathBuf { _p: u8 }
    impl Path { #[verifier::external_body] pub fn to_path_buf(&self) -> PathBuf { unimplemented!() } }
    /// std::io::ErrorKind (opaque)
    #[derive(Clone, Copy)] pub struct IoErrorKind { pub code: u8 }
    /// oq3_source_file::ParsedSource = ParseOrErrors<synast::SourceFile>
    #[verifier::external_body] pub struct ParsedSource { _p: u8 }
    /// a syntax diagnostic (opaque here)
    #[verifier::external_body] pub struct SynErr { _p: u8 }
    impl ParsedSource {
        /// number of syntax diagnostics recorded for this text
        pub uninterp spec fn sp_n_errors(&self) -> nat;
        /// a tree was built (lexing succeeded)
        pub uninterp spec fn sp_have_parse(&self) -> bool;
        /// oq3_syntax ParseOrErrors::have_parse: `self.green_maybe.is_some()`
        #[verifier::external_body] pub fn have_parse(&self) -> (r: bool) ensures r == self.sp_have_parse() { unimplemented!() }
        /// oq3_syntax ParseOrErrors::errors: `&self.errors`
        #[verifier::external_body] pub fn errors(&self) -> (r: &[SynErr]) ensures r@.len() == self.sp_n_errors() { unimplemented!() }
        pub uninterp spec fn sp_tree(&self) -> synast::SourceFile;
        /// oq3_syntax: the typed root of the tree (panics without a tree: only called on sources that have one)
        #[verifier::external_body] pub fn tree(&self) -> (r: synast::SourceFile) ensures r == self.sp_tree() { unimplemented!() }
    }
    pub struct IncludeError { pub error: IoErrorKind, pub include: synast::Include }
    #[verifier::external_body] pub struct SourceFile { _p: u8 }
    #[verifier::external_body] pub struct SourceString { _p: u8 }
    pub trait SourceTrait {
        spec fn sp_have_syntax_errors(&self) -> bool;
        spec fn sp_included(&self) -> Seq<SourceFile>;
        spec fn sp_syntax_ast(&self) -> Option<ParsedSource>;
        /// source_file.rs: this file or any included file (recursively) has a syntax diagnostic
        fn have_syntax_errors(&self) -> (r: bool) ensures r == self.sp_have_syntax_errors();
        fn included(&self) -> (r: &Vec<SourceFile>) ensures r@ == self.sp_included();
        fn syntax_ast(&self) -> (r: Option<&ParsedSource>)
            ensures (r is Some) == (self.sp_syntax_ast() is Some), r is Some ==> *r->Some_0 == self.sp_syntax_ast()->Some_0;
        fn file_path(&self) -> &Path;
    }
    impl SourceTrait for SourceFile {
        /// C11: "the source or any included file has any syntax diagnostic" (has_errs, below); the default method of the trait is verified
        /// against it as oq3_have_syntax_errors (D40)
        open spec fn sp_have_syntax_errors(&self) -> bool { has_errs(*self) }
        uninterp spec fn sp_included(&self) -> Seq<SourceFile>;
        uninterp spec fn sp_syntax_ast(&self) -> Option<ParsedSource>;
        #[verifier::external_body] fn have_syntax_errors(&self) -> (r: bool) { unimplemented!() }
        #[verifier::external_body] fn included(&self) -> (r: &Vec<SourceFile>) { unimplemented!() }
        #[verifier::external_body] fn syntax_ast(&self) -> (r: Option<&ParsedSource>) { unimplemented!() }
        #[verifier::external_body] fn file_path(&self) -> &Path { unimplemented!() }
    }
    /// this file itself has a syntax diagnostic
    pub open spec fn own_errs(s: SourceFile) -> bool { s.sp_syntax_ast() is Some && s.sp_syntax_ast()->Some_0.sp_n_errors() > 0 }
    /// ... or any file it includes, directly or not, has one
    pub open spec fn has_errs(s: SourceFile) -> bool
        decreases s.sp_depth()
    {
        own_errs(s) || exists|i: int| 0 <= i < s.sp_included().len() && s.sp_included()[i].sp_depth() < s.sp_depth() && has_errs(#[trigger] s.sp_included()[i])
    }
    /// assumed: the include tree is finite (`included: Vec<SourceFile>` is owned data), so every file has a depth above those it includes
    #[verifier::external_body] pub broadcast proof fn axiom_include_depth(s: SourceFile, i: int)
        requires 0 <= i < s.sp_included().len(),
        ensures (#[trigger] s.sp_included()[i]).sp_depth() < s.sp_depth(),
    {}
    impl SourceFile {
        pub uninterp spec fn sp_depth(&self) -> nat;
        pub uninterp spec fn sp_include_error(&self) -> Option<IncludeError>;
        #[verifier::external_body] pub fn include_error(&self) -> (r: Option<&IncludeError>)
            ensures (r is Some) == (self.sp_include_error() is Some), r is Some ==> *r->Some_0 == self.sp_include_error()->Some_0
        { unimplemented!() }
    }
    /// every `include` statement names a file by a (terminated) string literal
    pub open spec fn includes_named(ss: Seq<synast::Stmt>) -> bool {
        forall|i: int| 0 <= i < ss.len() && (#[trigger] ss[i]) is Include ==> ss[i]->Include_0.sp_file() is Some && ss[i]->Include_0.sp_file()->Some_0.sp_to_string() is Some
    }
    /// the path written in an `include` statement
    pub open spec fn include_path(i: synast::Include) -> Seq<char> { i.sp_file()->Some_0.sp_to_string()->Some_0@ }
    /// an include that is read from a file (the standard library is created, not read)
    pub open spec fn is_real_include(s: synast::Stmt) -> bool { s is Include && include_path(s->Include_0) != "stdgates.inc"@ }
    pub open spec fn n_real_includes(ss: Seq<synast::Stmt>) -> nat
        decreases ss.len()
    {
        if ss.len() == 0 { 0 } else { (if is_real_include(ss[0]) { 1nat } else { 0nat }) + n_real_includes(ss.skip(1)) }
    }
    /// assumed (oq3_source_file::parse_included_files, not verified): a source that is handed to the
    /// analyser has a tree, and one entry in `included`, in order, for every include statement of its
    /// top level that names a real file; entries that could be read are analysable in turn
    pub uninterp spec fn analyzable_file(s: SourceFile) -> bool;
    pub open spec fn analyzable(ast: Option<ParsedSource>, inc: Seq<SourceFile>) -> bool {
        &&& ast is Some
        &&& n_real_includes(ast->Some_0.sp_tree().sp_statements()) == inc.len()
        &&& forall|i: int| 0 <= i < inc.len() && (#[trigger] inc[i]).sp_include_error() is None ==> analyzable_file(inc[i])
    }
    #[verifier::external_body] pub broadcast proof fn axiom_analyzable_file(s: SourceFile)
        requires #[trigger] analyzable_file(s),
        ensures analyzable(s.sp_syntax_ast(), s.sp_included()),
    {}
}
