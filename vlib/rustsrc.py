"""Brace/string/comment-aware scanner for Rust source files.

Only what the extractor needs: locate items by name, find the signature/body split of a
function, find the n-th loop header of a body.  No parsing beyond that; every located item is
copied verbatim by the caller.
"""
import re


class ScanError(Exception):
    pass


class RustFile:
    def __init__(self, path, text=None):
        self.path = path
        self.src = open(path, encoding='utf-8').read() if text is None else text
        self._mask()

    # ------------------------------------------------------------------ masks
    def _mask(self):
        """code[i] is True where src[i] is code (not comment / string / char literal);
        depth[i] is the brace depth *before* src[i] is read (code braces only)."""
        s = self.src
        n = len(s)
        code = bytearray(n)
        depth = [0] * (n + 1)
        i = 0
        d = 0
        while i < n:
            c = s[i]
            depth[i] = d
            if s.startswith('//', i):
                j = s.find('\n', i)
                j = n if j < 0 else j
                for k in range(i, j):
                    depth[k] = d
                i = j
                continue
            if s.startswith('/*', i):
                lvl = 1
                j = i + 2
                while j < n and lvl > 0:
                    if s.startswith('/*', j):
                        lvl += 1
                        j += 2
                    elif s.startswith('*/', j):
                        lvl -= 1
                        j += 2
                    else:
                        j += 1
                for k in range(i, j):
                    depth[k] = d
                i = j
                continue
            if c == '"' or (c == 'b' and s.startswith('b"', i) and not _identch(s, i - 1)):
                j = i + (2 if c == 'b' else 1)
                while j < n and s[j] != '"':
                    if s[j] == '\\':
                        j += 1
                    j += 1
                j += 1
                for k in range(i, j):
                    depth[k] = d
                i = j
                continue
            if c in 'rb' and not _identch(s, i - 1):
                m = re.match(r'b?r(#*)"', s[i:i + 40])
                if m:
                    end = '"' + m.group(1)
                    j = s.find(end, i + len(m.group(0)))
                    if j < 0:
                        raise ScanError('unterminated raw string in %s' % self.path)
                    j += len(end)
                    for k in range(i, j):
                        depth[k] = d
                    i = j
                    continue
            if c == "'":
                m = re.match(r"'(\\u\{[0-9a-fA-F_]+\}|\\x[0-9a-fA-F]{2}|\\.|[^\\'\n])'", s[i:i + 16])
                if m:
                    j = i + len(m.group(0))
                    for k in range(i, j):
                        depth[k] = d
                    i = j
                    continue
                # lifetime / label
                code[i] = 1
                i += 1
                continue
            code[i] = 1
            if c == '{':
                d += 1
            elif c == '}':
                d -= 1
                depth[i] = d  # a closing brace sits at the depth of its opener
            i += 1
        depth[n] = d
        if d != 0:
            raise ScanError('unbalanced braces in %s' % self.path)
        self.code = code
        self.depth = depth

    # ------------------------------------------------------------------ helpers
    def match_brace(self, i):
        """src[i] is a code '{'; return index just past its matching '}'."""
        assert self.src[i] == '{' and self.code[i], (self.path, i, self.src[i:i + 20])
        d = self.depth[i]
        j = i + 1
        n = len(self.src)
        while j < n:
            if self.code[j] and self.src[j] == '}' and self.depth[j] == d:
                return j + 1
            j += 1
        raise ScanError('no matching brace')

    def line_of(self, i):
        return self.src.count('\n', 0, i) + 1

    def code_find(self, pat, start, end):
        """first regex match of pat in [start,end) that begins on a code char."""
        rx = re.compile(pat)
        pos = start
        while True:
            m = rx.search(self.src, pos, end)
            if not m:
                return None
            if self.code[m.start()]:
                return m
            pos = m.start() + 1

    def code_finditer(self, pat, start, end):
        rx = re.compile(pat)
        for m in rx.finditer(self.src, start, end):
            if self.code[m.start()]:
                yield m

    # ------------------------------------------------------------------ items
    def attrs_before(self, i, lo=0):
        """Return (start, [attr texts]) of the run of #[..] attributes and doc comments that
        immediately precedes offset i (i at the start of an item header, after indentation)."""
        s = self.src
        attrs = []
        start = s.rfind('\n', 0, i) + 1  # start of the item's line
        while start > lo:
            prev_end = start - 1
            prev_start = s.rfind('\n', 0, prev_end) + 1
            line = s[prev_start:prev_end].strip()
            if line.startswith('#[') and line.endswith(']'):
                attrs.insert(0, line)
                start = prev_start
            elif line.startswith('///') or line.startswith('//'):
                start = prev_start
            elif line.endswith(']') or line.endswith(')]'):
                # multi-line attribute: walk back to the line that opens it
                k = prev_start
                while k > lo and not s[k:prev_end].lstrip().startswith('#['):
                    k = s.rfind('\n', 0, k - 1) + 1
                if s[k:prev_end].lstrip().startswith('#['):
                    attrs.insert(0, ' '.join(s[k:prev_end].split()))
                    start = k
                else:
                    break
            else:
                break
        return start, attrs

    def find_block_item(self, kind, name, region=None, depth=0):
        """struct/enum/impl/mod/trait/macro_rules with a { } body (or `struct X(..);`,
        `struct X;`).  Returns dict(start, header_start, body_open, end, attrs)."""
        lo, hi = region or (0, len(self.src))
        if kind == 'macro_rules':
            pat = r'macro_rules\s*!\s*' + re.escape(name) + r'\b'
        elif kind == 'impl':
            pat = r'\bimpl\b(?:\s*<[^{]*?>)?\s+' + name + r'\s*(?:where[^{]*)?\{'
        else:
            pat = r'(?:pub(?:\([^)]*\))?\s+)?' + kind + r'\s+' + re.escape(name) + r'\b'
        for m in self.code_finditer(pat, lo, hi):
            if self.depth[m.start()] != depth:
                continue
            hs = m.start()
            # find end: first code '{' or ';' at paren depth 0
            j = m.end() - 1 if kind == 'impl' else m.end()
            pd = 0
            while j < hi:
                if self.code[j]:
                    c = self.src[j]
                    if c in '([':
                        pd += 1
                    elif c in ')]':
                        pd -= 1
                    elif c == '{' and pd == 0:
                        break
                    elif c == ';' and pd == 0:
                        break
                j += 1
            if self.src[j] == '{':
                end = self.match_brace(j)
                body_open = j
            else:
                end = j + 1
                body_open = None
            start, attrs = self.attrs_before(hs, lo)
            return dict(start=start, header_start=hs, body_open=body_open, end=end, attrs=attrs)
        raise KeyError('%s %s not found in %s' % (kind, name, self.path))

    def find_all_impls(self, type_pat, depth=0):
        """all `impl <type_pat> {` blocks (inherent or trait impls matching the pattern)."""
        out = []
        pat = r'\bimpl\b(?:\s*<[^{;]*?>)?\s+' + type_pat + r'\s*(?:where[^{]*)?\{'
        for m in self.code_finditer(pat, 0, len(self.src)):
            if self.depth[m.start()] != depth:
                continue
            j = m.end() - 1
            out.append(dict(header_start=m.start(), body_open=j, end=self.match_brace(j),
                            header=self.src[m.start():j].strip()))
        return out

    def find_simple_item(self, kind, name, region=None, depth=0):
        """type / const / static / use items ending in ';' """
        lo, hi = region or (0, len(self.src))
        pat = r'(?:pub(?:\([^)]*\))?\s+)?' + kind + r'\s+' + re.escape(name) + r'\b'
        for m in self.code_finditer(pat, lo, hi):
            if self.depth[m.start()] != depth:
                continue
            j = m.end()
            pd = 0
            bd = self.depth[m.start()]
            while j < hi:
                if self.code[j]:
                    c = self.src[j]
                    if c in '([':
                        pd += 1
                    elif c in ')]':
                        pd -= 1
                    elif c == ';' and pd == 0 and self.depth[j] == bd:
                        break
                j += 1
            start, attrs = self.attrs_before(m.start(), lo)
            return dict(start=start, header_start=m.start(), end=j + 1, attrs=attrs)
        raise KeyError('%s %s not found in %s' % (kind, name, self.path))

    def find_fn(self, name, region=None, depth=0):
        """Returns dict(start, header_start, sig_end (= index of body '{'), end, attrs)."""
        lo, hi = region or (0, len(self.src))
        pat = (r'(?:pub(?:\([^)]*\))?\s+)?(?:const\s+)?(?:unsafe\s+)?fn\s+' + re.escape(name) + r'\b')
        for m in self.code_finditer(pat, lo, hi):
            if self.depth[m.start()] != depth:
                continue
            # must start an item: preceded on its line only by whitespace
            ls = self.src.rfind('\n', 0, m.start()) + 1
            if self.src[ls:m.start()].strip():
                continue
            j = m.end()
            pd = 0
            while j < hi:
                if self.code[j]:
                    c = self.src[j]
                    if c in '([':
                        pd += 1
                    elif c in ')]':
                        pd -= 1
                    elif c == '{' and pd == 0:
                        break
                    elif c == ';' and pd == 0:
                        break
                j += 1
            if self.src[j] != '{':
                continue  # a declaration without body
            start, attrs = self.attrs_before(m.start(), lo)
            return dict(start=start, header_start=m.start(), sig_end=j, end=self.match_brace(j),
                        attrs=attrs)
        raise KeyError('fn %s not found in %s (depth %d)' % (name, self.path, depth))

    def list_fns(self, region=None, depth=0):
        lo, hi = region or (0, len(self.src))
        out = []
        for m in self.code_finditer(r'\bfn\s+(\w+)', lo, hi):
            if self.depth[m.start()] == depth:
                out.append(m.group(1))
        return out


def _identch(s, i):
    return i >= 0 and (s[i].isalnum() or s[i] == '_')


# ---------------------------------------------------------------------- function-text helpers

def split_signature(fn_text):
    """fn_text starts at the fn header (`pub fn name...`) and ends with the body's `}`.
    Returns (sig, body) where body starts with '{'.  Works on a fresh scan of fn_text."""
    rf = RustFile('<fn>', fn_text)
    m = rf.code_find(r'\bfn\s+\w+', 0, len(fn_text))
    j = m.end()
    pd = 0
    while j < len(fn_text):
        if rf.code[j]:
            c = fn_text[j]
            if c in '([':
                pd += 1
            elif c in ')]':
                pd -= 1
            elif c == '{' and pd == 0:
                break
        j += 1
    return fn_text[:j], fn_text[j:]


def name_return(sig, ret):
    """`fn f(..) -> T [where ..]` -> `fn f(..) -> (ret: T) [where ..]`  (no-op without `->`)."""
    rf = RustFile('<sig>', sig)
    m = rf.code_find(r'\bfn\s+\w+', 0, len(sig))
    j = m.end()
    # skip generics
    n = len(sig)
    while j < n and sig[j].isspace():
        j += 1
    if j < n and sig[j] == '<':
        ad = 0
        while j < n:
            if sig[j] == '<':
                ad += 1
            elif sig[j] == '>' and sig[j - 1] != '-':
                ad -= 1
                if ad == 0:
                    j += 1
                    break
            j += 1
    while j < n and sig[j] != '(':
        j += 1
    pd = 0
    while j < n:
        if rf.code[j]:
            if sig[j] == '(':
                pd += 1
            elif sig[j] == ')':
                pd -= 1
                if pd == 0:
                    j += 1
                    break
        j += 1
    rest = sig[j:]
    m = re.match(r'(\s*->\s*)(.*?)(\s*(?:\bwhere\b.*)?)$', rest, re.S)
    if not m:
        return sig, False
    ty = m.group(2).strip()
    if ty.startswith('(') and re.match(r'\(\s*\w+\s*:(?!:)', ty):
        return sig, True  # already named
    return sig[:j] + m.group(1) + '(' + ret + ': ' + ty + ')' + m.group(3), True


def find_loops(body):
    """Return a list of (keyword_offset, brace_offset, keyword) for every loop header in body
    (textual order).  body starts with '{'."""
    rf = RustFile('<body>', body)
    out = []
    for m in rf.code_finditer(r"(?<![\w.])(while|loop|for)\b", 0, len(body)):
        kw = m.group(1)
        if kw == 'for':
            # exclude `for<'a>` and `impl X for Y`
            tail = body[m.end():m.end() + 200]
            if re.match(r'\s*<', tail):
                continue
            if not re.match(r'\s+[^;{}]*?\sin\s', tail, re.S):
                continue
        j = m.end()
        pd = 0
        n = len(body)
        found = None
        while j < n:
            if rf.code[j]:
                c = body[j]
                if c in '([':
                    pd += 1
                elif c in ')]':
                    pd -= 1
                elif c == '{' and pd == 0:
                    found = j
                    break
                elif c == ';' and pd == 0:
                    break
            j += 1
        if found is not None:
            out.append((m.start(), found, kw))
    return out
