"""witness search on the real code for failed obligations over finite abstractions (never decides)"""


def search(prop, rec):
    return None
