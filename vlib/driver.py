"""check driver: property -> units -> Verus -> classification -> evidence / replay / exit code"""
import concurrent.futures
import hashlib
import importlib
import json
import os
import re
import shutil
import sys
import tempfile
import time

from . import verus as V
from .rustsrc import RustFile
from .unit import Undecided, Unit, Entry, ImplGroup, Raw, VERIF, REPO

CONTRACT_KINDS = {'postcondition', 'precondition', 'assertion', 'arithmetic-overflow', 'division-by-zero',
                  'shift-overflow', 'decreases', 'termination', 'unreachable', 'index', 'type-invariant'}
AUX_KINDS = {'invariant-end', 'invariant-init', 'recommendation', 'rlimit'}

TAG_RX = re.compile(r'//@\s*([A-Z0-9,]+)(?::([\w.\-]+))?')


def load_registry():
    import units
    return units.PROPS, units.UNITS


def load_known_findings():
    p = os.path.join(VERIF, 'known_findings.json')
    if not os.path.exists(p):
        return {'findings': [], 'fixed': []}
    return json.load(open(p))


class UnitRun:
    def __init__(self, name):
        self.name = name
        self.auto = []
        self.unit = None
        self.text = ''
        self.linemap = []
        self.result = None
        self.undecided = []   # reasons
        self.fn_index = []    # (start_line, end_line, name, is_twin/canary)
        self.errors = []      # classified error records
        self.path = ''
        self.assumptions = {}
        self.twins = []


def _fn_index(text):
    """(start_line, end_line, fn_name, impl_type) for every fn item of the generated file"""
    rf = RustFile('<gen>', text)
    out = []
    for m in rf.code_finditer(r'\bfn\s+(\w+)', 0, len(text)):
        ls = text.rfind('\n', 0, m.start()) + 1
        j = m.end()
        pd = 0
        n = len(text)
        while j < n:
            if rf.code[j]:
                c = text[j]
                if c in '([':
                    pd += 1
                elif c in ')]':
                    pd -= 1
                elif c == '{' and pd == 0:
                    break
                elif c == ';' and pd == 0:
                    break
            j += 1
        if j >= n or text[j] != '{':
            continue
        try:
            end = rf.match_brace(j)
        except Exception:
            continue
        out.append((rf.line_of(ls), rf.line_of(end - 1), m.group(1)))
    return out


def _enclosing_fn(fn_index, line):
    best = None
    for s, e, name in fn_index:
        if s <= line <= e:
            if best is None or (s >= best[0]):
                best = (s, e, name)
    return best


def _strip_comments(s):
    return re.sub(r'//[^\n]*', '', s)


def prepare_unit(name, scratch, with_twins=True, mutate=None, unit=None):
    """build + generate; returns UnitRun with text written to scratch"""
    ur = UnitRun(name)
    if unit is None:
        mod = importlib.import_module('units.' + name)
        importlib.reload(mod)
        U = mod.build()
    else:
        U = unit
    ur.unit = U
    if mutate and len(mutate) == 3:
        U.mutation = mutate
        U.mutation_applied = False
    text, linemap = U.generate()
    if mutate and len(mutate) == 3 and not U.mutation_applied:
        raise Undecided('mutant target function %s not found in unit' % mutate[0])
    # canary + vacuity twins appended before the closing of verus!{}
    extra = ['', '// ---- liveness canary: this obligation MUST fail', 'proof fn canary__must_fail() ensures false {}']
    close = text.rindex('} // verus!')
    text = text[:close] + '\n'.join(extra) + '\n' + text[close:]
    if mutate and len(mutate) == 2:
        old, new = mutate
        if text.count(old) != 1:
            raise Undecided('mutant anchor %r occurs %d times' % (old, text.count(old)))
        text = text.replace(old, new)
    ur.text = text
    ur.linemap = linemap
    ur.path = os.path.join(scratch, U.name.lower() + '.rs')
    with open(ur.path, 'w') as f:
        f.write(text)
    ur.fn_index = _fn_index(text)
    ur.assumptions = V.scan_assumptions(text)
    # every `assume(` of a unit must carry the id of a recorded known finding
    kf_ids = {f['id'] for f in load_known_findings().get('findings', [])}
    for ln in text.split('\n'):
        code = ln.split('//')[0]
        if re.search(r'(?<![\w_])assume\s*\(', code) and not code.lstrip().startswith('///'):
            m = re.search(r'(?://|/\*)\s*KF:([\w\-]+)', ln)
            ap = re.search(r'(?://|/\*)\s*AP:', ln)
            if ap:
                continue
            if not m or m.group(1) not in kf_ids:
                raise Undecided('`assume` without a recorded known finding / assumed-parser tag: %s' % ln.strip()[:200])
    return ur


def run_unit(name, scratch, mutate=None, quiet=False):
    try:
        ur = prepare_unit(name, scratch, mutate=mutate)
    except Undecided as ex:
        ur = UnitRun(name)
        ur.undecided.append('extraction: %s' % ex)
        return ur
    except Exception as ex:  # scanner errors etc. are never alarms
        ur = UnitRun(name)
        ur.undecided.append('extraction failed: %r' % ex)
        return ur
    U = ur.unit
    res = V.run_verus(ur.path, scratch, rlimit=getattr(U, 'rlimit', None), timeout=getattr(U, 'timeout', 900))
    # a body under contract may call a function of /repo that the unit does not list (new helper
    # introduced by an edit): pull it in verbatim, WITHOUT a contract, and try again.
    auto = []
    rounds = 0
    while res.fatal and rounds < 6:
        missing = set(re.findall(r"no method named `(\w+)` found for (?:struct|enum|reference) `&?(?:mut )?(\w+)", res.fatal))
        missing |= {(m, t.split('::')[-1]) for m, t in re.findall(r"the method `(\w+)` exists for (?:mutable )?reference `&(?:mut )?([\w:]+)", res.fatal)}
        missing |= {(m, None) for m in re.findall(r"cannot find function `(\w+)` in this scope", res.fatal)}
        missing |= {(m, t) for t, m in re.findall(r"no function or associated item named `(\w+)` found for (?:struct|enum) `(\w+)`", res.fatal)}
        added = False
        # functions WITHOUT a contract that use a construct outside the dialect become `external_body`
        # (no postcondition: callers learn nothing about them) -- DESIGN §8 fallback, listed in evidence
        for h in getattr(res, 'hard', []):
            if not re.search(r'is not supported|does not yet support|not supported', h['message']):
                continue
            for sp in h['spans']:
                ln = sp['line_start']
                ent = None
                if 1 <= ln <= len(ur.linemap) and ur.linemap[ln - 1]:
                    ent = ur.linemap[ln - 1][0]
                if ent is None or ent.kind != 'fn' or ent.trusted:
                    continue
                if re.search(r'bitwise (OR|AND) for bools', h['message']) and not getattr(ent, 'bool_compound', False):
                    ent.bool_compound = True          # D36 (vlib/unit.py): rewritten with the short-circuit operator, operand evaluated first
                    added = True
                    continue
                if ent.spec and re.search(r'\bensures\b', ent.spec):
                    continue      # a function under contract must not be assumed silently
                ent.trusted = True
                ent.auto_trusted = True
                ent.note = 'auto: outside the dialect (%s)' % h['message'][:90]
                added = True
        for name, ty in sorted(missing, key=str):
            if any(a[0] == name for a in auto):
                continue
            if _auto_include(name, ty, U):
                auto.append((name, ty))
                added = True
        if not added:
            break
        rounds += 1
        try:
            ur2 = prepare_unit(name_of_unit(ur), scratch, mutate=mutate, unit=U)
        except Undecided as ex:
            ur.undecided.append('extraction: %s' % ex)
            return ur
        ur2.auto = auto
        ur = ur2
        res = V.run_verus(ur.path, scratch, rlimit=getattr(U, 'rlimit', None), timeout=getattr(U, 'timeout', 900))
    ur.auto = auto
    ur.result = res
    if res.fatal:
        ur.undecided.append('verus: ' + res.fatal[:3000])
        return ur
    classify(ur)
    return ur


def name_of_unit(ur):
    return ur.name


def _auto_include(fn, ty, U):
    """find `fn` in the repo files the unit already reads and add it as an uncontracted entry"""
    from .unit import Entry, ImplGroup
    for rel, rf in list(U.files.items()):
        if ty:
            for blk in rf.find_all_impls(re.escape(ty) + r'(?:<[^{]*>)?'):
                try:
                    rf.find_fn(fn, (blk['body_open'] + 1, blk['end'] - 1), rf.depth[blk['body_open']] + 1)
                except KeyError:
                    continue
                g = ImplGroup(re.escape(ty) + r'(?:<[^{]*>)?', rel)
                g.methods.append(Entry(kind='fn', name=fn, file=rel, impl=g.header, qualname='%s::%s' % (ty, fn),
                                       note='auto-included (called from a function under contract; no contract)'))
                g.methods[0].auto = True
                _try_inline(U, rf, g.methods[0], rf.find_fn(fn, (blk['body_open'] + 1, blk['end'] - 1), rf.depth[blk['body_open']] + 1))
                U.entries.insert(_last_code_index(U), g)
                return True
        else:
            try:
                rf.find_fn(fn, None, 0)
            except KeyError:
                continue
            e = Entry(kind='fn', name=fn, file=rel, note='auto-included (no contract)')
            e.auto = True
            _try_inline(U, rf, e, rf.find_fn(fn, None, 0))
            U.entries.insert(_last_code_index(U), e)
            return True
    return False


def _try_inline(U, rf, entry, it):
    """D30 (vlib/inline.py): a new helper that is a plain expression body is inlined at its call sites; it is then
    emitted external_body (its body is checked in the context of every inlined call instead)"""
    from .inline import helper_info
    info = helper_info(rf.src[it['header_start']:it['end']])
    if info is None:
        return
    if not hasattr(U, 'inline_helpers'):
        U.inline_helpers = {}
    U.inline_helpers[info['name']] = info
    entry.trusted = True
    entry.note = 'auto-included new helper without a contract: inlined at its call sites (D30), emitted external_body'


def _last_code_index(U):
    from .unit import Entry, ImplGroup
    idx = 0
    for i, e in enumerate(U.entries):
        if isinstance(e, (Entry, ImplGroup)):
            idx = i + 1
    return idx


def _entry_for_fn(ur, fnname, line):
    """entry whose generated text contains this line (None for sidecar-only functions)"""
    if 1 <= line <= len(ur.linemap):
        o = ur.linemap[line - 1]
        if o:
            return o[0]
    # search the function's lines
    enc = _enclosing_fn(ur.fn_index, line)
    if enc:
        for k in range(enc[0], enc[1] + 1):
            if k - 1 < len(ur.linemap) and ur.linemap[k - 1]:
                return ur.linemap[k - 1][0]
    return None


PANIC_SITE = re.compile(r'^(debug_)?assert(_eq|_ne)?!\s*\(|^panic!\s*\(|^unreachable!\s*\(|^todo!\s*\(|^unimplemented!\s*\(|\.unwrap\(\)$|\.expect\([^()]*\)$')


def classify(ur):
    U = ur.unit
    gen_lines = ur.text.split('\n')
    canary_failed = False
    twin_failed = set()
    for e in ur.result.errors:
        spans = e['spans']
        # site span: the one that is not the contract clause ("failed this postcondition" / "failed precondition")
        clause_sp = [s for s in spans if re.search(r'failed (this )?(post|pre)condition|failed precondition|failed this invariant', s['label'])]
        site_sp = [s for s in spans if s not in clause_sp]
        sp_site = (site_sp or spans)[0] if (site_sp or spans) else None
        if sp_site is None:
            ur.undecided.append('diagnostic without span: %s' % e['message'])
            continue
        line = sp_site['line_start']
        enc = _enclosing_fn(ur.fn_index, line)
        fnname = enc[2] if enc else '?'
        if fnname == 'canary__must_fail':
            canary_failed = True
            continue
        if fnname.endswith('__vacuity'):
            twin_failed.add(fnname)
            continue
        entry = _entry_for_fn(ur, fnname, line)
        # tags: on the clause line (post/precondition), else on the site line
        tags, label = set(), None
        for s in clause_sp + [sp_site]:
            for ln in range(s['line_start'], s['line_end'] + 1):
                m = TAG_RX.search(gen_lines[ln - 1]) if ln - 1 < len(gen_lines) else None
                if m:
                    tags |= set(m.group(1).split(','))
                    label = label or m.group(2)
            if tags:
                break
        origin_line = None
        if 1 <= line <= len(ur.linemap) and ur.linemap[line - 1]:
            origin_line = ur.linemap[line - 1][1]
        in_code = origin_line is not None
        kind = e['kind']
        if kind == 'assertion' and not in_code and not sp_site.get('macro'):
            # a proof `assert(..)` written in the sidecar
            kind = 'proof-assertion'
        site_txt_ = ' '.join((sp_site['hl'] or sp_site['text']).split())
        if kind == 'precondition' and (in_code or sp_site.get('macro')) and PANIC_SITE.search(site_txt_):
            # the failed "precondition" is that of a panic: `assert!(c)`, `x.unwrap()`, `panic!(..)` of /repo's own text would fire
            kind = 'assertion'
        # for a precondition failure name the callee clause
        clause_text = ' '.join(s['hl'] or s['text'] for s in clause_sp)[:400]
        # a closure without a contract in the enclosing function (introduced by an edit; the rule-based desugarings did not cover it):
        # Verus knows nothing about what a call of it returns, so a failed obligation there is "needs a contract", not a verdict
        bare_closure = False
        if enc:
            body_ = '\n'.join(gen_lines[enc[0] - 1:enc[1]])
            for mc_ in re.finditer(r'(?:=|\(|,)\s*(?:move\s+)?\|[^|\n]*\|', body_):
                head_ = body_[mc_.end():mc_.end() + 200]
                if 'ensures' not in head_.split('{')[0]:
                    bare_closure = True
        calls_auto = None
        if getattr(ur, 'auto', None) and enc:
            body = '\n'.join(gen_lines[enc[0] - 1:enc[1]])
            for an, aty in ur.auto:
                if re.search(r'\b%s\s*\(' % re.escape(an), body) and fnname != an:
                    calls_auto = an
        rec = dict(unit=U.name, function=(entry.qualname if entry else fnname), kind=kind, message=e['message'], calls_auto=calls_auto,
                   tags=sorted(tags), label=label, gen_line=line, repo_file=(entry.file if entry else None),
                   repo_line=origin_line, site_text=' '.join((sp_site['hl'] or sp_site['text']).split())[:300],
                   clause=clause_text, rendered=e['rendered'], macro=sp_site.get('macro'),
                   fn_props=sorted(entry.props) if entry else [], auto_fn=bool(entry is not None and getattr(entry, 'auto', False)),
                   unspec_loops=(getattr(entry, 'unspecified_loops', 0) if entry is not None else 0), bare_closure=bare_closure,
                   in_sidecar_only=(entry is None))
        ur.errors.append(rec)
    if not canary_failed:
        ur.undecided.append('liveness canary did not fail: the verifier is not deciding anything')
    for t in getattr(U, 'twin_names', []):
        if t not in twin_failed:
            ur.undecided.append('vacuity: precondition of %s is unsatisfiable (twin %s verified)' % (t[:-9], t))


# a failed SAFETY condition (the code would panic, overflow or not terminate) is relevant to the "returns normally"
# property of the unit whatever the tags / properties of the function say
PANIC_KINDS = {'arithmetic-overflow', 'division-by-zero', 'shift-overflow', 'index', 'assertion', 'unreachable', 'decreases', 'termination'}
SAFETY_PROP = {'SEMA': 'C03', 'ASTX': 'C03', 'SYM': 'C03', 'TYPES': 'C03', 'LEX': 'C01', 'PARSER': 'C01', 'SHORT': 'C01', 'SYNX': 'C01'}


def relevant(rec, prop, unit):
    if rec['kind'] in PANIC_KINDS and SAFETY_PROP.get(unit.name) == prop:
        return True
    if rec['tags']:
        return prop in rec['tags']
    if rec['fn_props']:
        return prop in rec['fn_props']
    # sidecar-only function: by name prefix cNN_, else every property of the unit
    m = re.match(r'c(\d\d)_', rec['function'])
    if m:
        return prop == 'C' + m.group(1)
    return prop in unit.props


def is_violation_kind(rec):
    if rec['kind'] in CONTRACT_KINDS:
        return True
    if rec['tags']:           # a tagged invariant / proof assertion carries a property clause
        return rec['kind'] in ('invariant-end', 'invariant-init', 'proof-assertion')
    return False


def obligation_name(rec):
    base = '%s::%s::%s' % (rec['unit'], rec['function'], rec['kind'])
    if rec['label']:
        base += ':' + rec['label']
    h = hashlib.sha1((rec['site_text'] + '|' + rec['clause']).encode()).hexdigest()[:8]
    return base + '#' + h


def norm(s):
    return ' '.join(s.split())


def match_site_finding(rec, findings, prop):
    for f in findings:
        if f.get('kind') != 'site' or f.get('property') != prop:
            continue
        if f.get('unit') == rec['unit'] and f.get('function') == rec['function'] and f.get('obligation') == rec['kind'] \
                and norm(f.get('site', '')) in norm(rec['site_text']):
            return f
    return None


def verus_fn_props(ur, vname):
    """properties served by a Verus function-breakdown entry (name like unit::Type::width)"""
    U = ur.unit
    parts = vname.split('::')[1:]
    tail2 = '::'.join(parts[-2:])
    tail1 = parts[-1] if parts else vname
    for e in U.all_fn_entries():
        if e.qualname == tail2 or (e.impl is None and e.qualname == tail1 and len(parts) == 1) or \
                (e.impl is None and e.name == tail1 and len(parts) >= 1 and 'impl&' not in vname and (len(parts) == 1 or not parts[-2][:1].isupper())):
            return set(e.props) or set(U.props), e
    for e in U.all_fn_entries():
        if e.name == tail1:
            return set(e.props) or set(U.props), e
    m = re.match(r'((?:c\d\d_)+)', tail1)
    if m:
        return {'C' + x for x in re.findall(r'c(\d\d)_', m.group(1))}, None
    return set(U.props), None


def check_property(prop, tier='quick', keep=False, jobs=None):
    t0 = time.time()
    PROPS, UNITS = load_registry()
    if prop not in PROPS:
        print('property %s is not claimed (see MANIFEST.json not_applicable)' % prop)
        return 2
    spec = PROPS[prop]
    kf = load_known_findings()
    findings = [f for f in kf.get('findings', []) if f.get('property') == prop]
    scratch = tempfile.mkdtemp(prefix='oq3verif_%s_' % prop)
    runs = []
    try:
        with concurrent.futures.ThreadPoolExecutor(max_workers=jobs or len(spec['units'])) as ex:
            futs = [ex.submit(run_unit, u, scratch) for u in spec['units']]
            runs = [f.result() for f in futs]
        extra = {}
        status_extra = 0
        if tier == 'thorough':
            from . import thorough
            extra, status_extra = thorough.run(prop, spec, runs, scratch)
        return report(prop, spec, tier, runs, findings, kf, t0, extra, status_extra)
    finally:
        if not keep:
            shutil.rmtree(scratch, ignore_errors=True)
        else:
            print('scratch kept at', scratch)


def report(prop, spec, tier, runs, findings, kf, t0, extra, status_extra):
    violations = []
    known_hits = []
    undecided = []
    obligations = 0
    discharged = 0
    per_fn = []
    solver_us = 0
    fn_under_contract = set()
    clause_count = 0
    trusted, assumed_dep, not_verified, desugar, dropped = [], ['every unit: std ASCII classification predicates of char / u8 as documented (contracts/std_specs.rs, %d assume_specification items, counted on this run: also slice `contains`, `Vec::dedup`, `Vec as AsRef<[T]>`; the Unicode predicates exact on ASCII, uninterpreted beyond)' % open(os.path.join(VERIF, 'contracts', 'std_specs.rs')).read().count('assume_specification'),
                                                            'every unit: stand-ins for the `str` pattern methods with a literal pattern and the whitespace trims, as documented by std (contracts/std_str_specs.rs, 15 external_body functions that call the std method; only reached through rule D32, i.e. when the code of /repo calls such a method)'], [], [], []
    assumed_parser = []
    pinned = []
    assumption_counts = {}
    samples = []
    cmds = []
    for ur in runs:
        for r in ur.undecided:
            undecided.append('%s: %s' % (ur.name, r))
        if ur.unit is None or ur.result is None or ur.result.fatal:
            continue
        U = ur.unit
        cmds.append('cd <scratch> && ' + ur.result.cmd + '   # %s.rs regenerated from %s' % (U.name.lower(), REPO))
        failed_fns = {}
        for rec in ur.errors:
            if not relevant(rec, prop, U):
                continue
            if rec.get('auto_fn'):
                undecided.append('%s::%s: %s inside a function of /repo that has no contract in the unit (auto-included helper): needs a contract, not a verdict' % (
                    U.name, rec['function'], rec['kind']))
            elif rec.get('unspec_loops') and rec['kind'] not in ('decreases', 'termination'):
                undecided.append('%s::%s: %s failed, but the function now has %d loop(s) that no loop contract covers (introduced by an edit): needs an invariant, not a verdict' % (
                    U.name, rec['function'], rec['kind'], rec['unspec_loops']))
            elif rec.get('bare_closure') and rec['kind'] not in PANIC_KINDS:
                undecided.append('%s::%s: %s failed, but the function now contains a closure without a contract (introduced by an edit; outside the rule-based desugarings): needs a contract, not a verdict' % (
                    U.name, rec['function'], rec['kind']))
            elif rec.get('calls_auto'):
                undecided.append('%s::%s: %s failed, but the function now calls `%s`, a function of /repo that has no contract in the unit (new helper): cannot attribute' % (
                    U.name, rec['function'], rec['kind'], rec['calls_auto']))
            elif is_violation_kind(rec):
                f = match_site_finding(rec, findings, prop)
                if f:
                    known_hits.append((f, rec))
                else:
                    violations.append(rec)
            else:
                undecided.append('%s::%s: auxiliary obligation failed (%s at generated line %d: %s)' % (
                    U.name, rec['function'], rec['kind'], rec['gen_line'], rec['site_text'][:120]))
        for fb in ur.result.functions:
            vname = fb['function']
            if vname.endswith('canary__must_fail') or vname.endswith('__vacuity'):
                continue
            props, entry = verus_fn_props(ur, vname)
            if prop not in props:
                continue
            obligations += 1
            solver_us += fb['time_us']
            ok = fb['success']
            if not ok:
                # the query failed: it fails *for this property* only if one of the reported
                # failing clauses is relevant to it (Verus lists every failing clause)
                tail = vname.split('::')[-1]
                ok = not any(relevant(r, prop, U) and (r['function'].split('::')[-1] == tail) for r in ur.errors)
            if ok:
                discharged += 1
            per_fn.append(dict(function=vname, ok=ok, time_us=fb['time_us'], rlimit=fb['rlimit'], mode=fb['mode']))
            if entry is not None:
                fn_under_contract.add('%s:%s' % (entry.file, entry.qualname))
        for e in U.all_fn_entries():
            if prop in (e.props or U.props):
                if e.spec:
                    clause_count += _count_clauses(e.spec)
                for l in e.loops.values():
                    clause_count += _count_clauses(l[1] if isinstance(l, tuple) else l)
                if e.trusted:
                    trusted.append('%s:%s (external_body; contract assumed)%s' % (e.file, e.qualname, (' — ' + e.note) if e.note else ''))
        trusted += ['%s: %s' % (U.name, t) for t in U.trusted_decl]
        assumed_dep += ['%s: %s' % (U.name, t) for t in U.assumed_dep]
        not_verified += ['%s: %s' % (U.name, t) for t in U.not_verified]
        assumed_parser += ['%s: %s' % (U.name, t) for t in getattr(U, 'assumed_parser', [])]
        pinned += sorted(getattr(U, 'trusted_seen', {}).keys())
        for e_ in U.all_fn_entries():
            if getattr(e_, 'auto_trusted', False):
                not_verified.append('%s: %s:%s — %s' % (U.name, e_.file, e_.qualname, e_.note))
        desugar += ['%s %s' % (i, t) for i, t in U.desugar_log]
        dropped += sorted(U.dropped)
        for k, v in ur.assumptions.items():
            assumption_counts['%s.%s' % (U.name, k)] = v
        exp = getattr(U, 'expected_assumptions', None)
        if exp is not None and exp != ur.assumptions:
            undecided.append('%s: assumption scan %s differs from the count declared in the unit %s' % (U.name, ur.assumptions, exp))
        # samples: a few contract texts
        for e in list(U.all_fn_entries())[:400]:
            if e.spec and prop in (e.props or U.props) and len(samples) < 6:
                samples.append(dict(obligation='%s::%s' % (U.name, e.qualname), repo_file=e.file,
                                    repo_line=e.orig_start_line, contract=' '.join(_strip_comments(e.spec).split())[:600]))
    # findings that are carve-outs / assumed-sites: printed while the unit still references them
    printed = set()
    lines = []
    for f in findings:
        if f.get('kind') in ('carve-out', 'assumed-site'):
            ref = f.get('marker')
            present = any(ref and ur.text and ref in ur.text for ur in runs)
            if present:
                lines.append('KNOWN-FINDING: property=%s %s — %s (witness: %s)' % (prop, f['id'], f['what'], f.get('witness', 'n/a')))
                printed.add(f['id'])
            else:
                undecided.append('known finding %s: marker %r no longer present in any unit' % (f['id'], ref))
    for f, rec in known_hits:
        if f['id'] not in printed:
            lines.append('KNOWN-FINDING: property=%s %s — %s (witness: %s)' % (prop, f['id'], f['what'], f.get('witness', 'n/a')))
            printed.add(f['id'])
    # functions that failed only because of known site findings count as not discharged -> report honestly
    viol_lines = []
    RPD = os.environ.get('OQ3_REPLAY_DIR', os.path.join(VERIF, 'replays'))
    os.makedirs(os.path.join(RPD, prop), exist_ok=True)
    for rec in violations:
        name = obligation_name(rec)
        fn = re.sub(r'[^\w.\-#]+', '_', name) + '.json'
        path = os.path.join(RPD, prop, fn)
        replay = dict(property=prop, obligation=name, kind=rec['kind'], unit=rec['unit'], function=rec['function'],
                      repo_file=rec['repo_file'], repo_line=rec['repo_line'], failing_expression=rec['site_text'],
                      contract_clause=rec['clause'], tags=rec['tags'], verifier='verus', verifier_message=rec['message'],
                      verifier_output=rec['rendered'], counterexample=None,
                      note='Verus gives no counterexample; no-failing-input-found unless a witness search is recorded below')
        from . import witness
        w = witness.search(prop, rec)
        suffix = ' no-failing-input-found'
        if w:
            replay['counterexample'] = w
            suffix = ''
        with open(path, 'w') as fjson:
            json.dump(replay, fjson, indent=1)
        viol_lines.append('VIOLATION property=%s replay=%s%s' % (prop, path, suffix))
    for l in lines:
        print(l)
    extra_viol = extra.get('violation_lines', []) if extra else []
    for l in viol_lines + extra_viol:
        print(l)
    nviol = len(viol_lines) + len(extra_viol)
    wall = time.time() - t0
    status = 0
    if nviol:
        status = 1
    elif undecided or status_extra == 2:
        status = 2
    bounded = extra.get('bounded_obligations', []) if extra else []
    ev = dict(
        property_id=prop, tier=tier, seed=int(os.environ.get('VERIF_SEED', '0') or 0), level='proof',
        coverage=dict(
            obligations=obligations, discharged=discharged,
            checker_cmd=' ; '.join(cmds) if cmds else 'verus <unit>.rs --output-json --time-expanded --error-format=json --multiple-errors 200',
            trusted_base=['Verus 0.2026.09.13 + Z3 (verifier and SMT back end)', 'rustc macro expansion and the semantics of safe Rust',
                          'the extractor /verif/vlib (copies items verbatim; rewrites listed under desugarings)'] + trusted + assumed_dep,
            by_backend={'verus': obligations, **({'kani': extra.get('kani_harnesses', 0)} if extra else {})},
            functions_under_contract=sorted(fn_under_contract),
            functions_under_contract_count=len(fn_under_contract),
            contract_clauses=clause_count,
            solver_ms=round(solver_us / 1000.0, 1),
            per_function=per_fn,
            samples=samples or [dict(note='no contract sample')],
            trusted=trusted, assumed_dep=assumed_dep, assumed_parser=assumed_parser, unverified_functions=not_verified,
            pinned_text=dict(count=len(pinned), functions=pinned, note='functions of /repo that are trusted / modelled by a stub / read but not verified: the hash of their comment-free text matched contracts/trusted_hashes.json on this run (a mismatch makes the run undecided)'),
            desugarings=desugar, dropped=sorted(set(dropped)), assumption_scan=assumption_counts,
            bounded_obligations=bounded,
            known_findings=[f['id'] for f in findings if f['id'] in printed],
            decided_clauses=spec.get('decided', []), not_decided_clauses=spec.get('not_decided', []),
            undecided_reasons=undecided,
            explanation=spec.get('explanation', ''),
            **({k: v for k, v in extra.items() if k not in ('violation_lines', 'bounded_obligations')} if extra else {}),
        ),
        assumptions=trusted + assumed_dep + spec.get('assumptions', []),
        wall_s=round(wall, 2), violations=nviol)
    if obligations == 0 or discharged == 0:
        # nothing was decided (undecided run): say so instead of claiming a proof
        ev['level'] = 'other'
        ev['coverage']['explanation'] = 'UNDECIDED run: no obligation was discharged. ' + ' | '.join(u.split('\n')[0][:300] for u in undecided)
    EVD = os.environ.get('OQ3_EVIDENCE_DIR', os.path.join(VERIF, 'evidence'))
    os.makedirs(EVD, exist_ok=True)
    if status != 2 or not os.environ.get('OQ3_NO_EVIDENCE_ON_UNDECIDED'):
        with open(os.path.join(EVD, prop + '.json'), 'w') as f:
            json.dump(ev, f, indent=1)
    for r in undecided:
        print('UNDECIDED: ' + r.split('\n')[0][:400])
        if '\n' in r:
            sys.stderr.write(r + '\n')
    print('%s tier=%s obligations=%d discharged=%d violations=%d known_findings=%d undecided=%d wall=%.1fs -> exit %d' % (
        prop, tier, obligations, discharged, nviol, len(printed), len(undecided), wall, status))
    return status


def _count_clauses(spec):
    s = _strip_comments(spec)
    n = 0
    depth = 0
    for ch in s:
        if ch in '([{':
            depth += 1
        elif ch in ')]}':
            depth -= 1
        elif ch == ',' and depth == 0:
            n += 1
    if s.strip() and not s.strip().endswith(','):
        n += 1
    return n
