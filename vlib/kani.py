"""Kani harnesses (thorough tier): loop-free, full-domain bit-level obligations.  The harness module
is appended to a scratch copy of /repo (never to /repo itself); the copy and its build output are
removed at the end of the run.  These are complete proofs for the stated domain (all kinds x all
counts for ONE event), not bounded stand-ins; they are reported under `by_backend.kani`."""
import json
import os
import re
import shutil
import subprocess

from .unit import VERIF, REPO

HARNESSES = {
    'C02': [('crates/oq3_parser/src/lib.rs', 'contracts/kani_parser.rs', 'oq3_parser',
             ['output_token_roundtrip', 'output_enter_exit_roundtrip', 'syntax_kind_from_u16_inverse'])],
    'C01': [('crates/oq3_parser/src/lib.rs', 'contracts/kani_parser.rs', 'oq3_parser', ['syntax_kind_from_u16_inverse'])],
}


# BOUNDED stand-ins (never counted as proved): a function outside Verus' reach is extracted verbatim into a
# scratch crate together with a harness over symbolic inputs of bounded size (unwinding assertions on).
_PRAGMA_TEXT = dict(file='crates/oq3_syntax/src/ast/node_ext.rs', fn='pragma_text', harness='pragma_text_is_verbatim', unwind=12,
                 bound='every pragma line `pragma` / `#pragma` followed by at most 3 ASCII bytes',
                 claim='node_ext.rs::PragmaStatement::pragma_text returns normally and yields exactly the text after the keyword (pragma text verbatim)',
                 prefix="struct PragmaStatement<'a> { t: &'a str }\nimpl<'a> PragmaStatement<'a> {\n    fn text(&self) -> &str { self.t }   // stand-in for text_of_first_token (TokenText derefs to str)\n",
                 suffix='\n}\n',
                 body='''#[cfg(kani)]
#[kani::proof]
#[kani::unwind(12)]
fn pragma_text_is_verbatim() {
    let hash: bool = kani::any();
    let t: [u8; 3] = kani::any();
    let n: usize = kani::any();
    kani::assume(n <= 3);
    kani::assume(t[0] < 128 && t[1] < 128 && t[2] < 128);
    let buf: [u8; 10] = if hash { [b'#', b'p', b'r', b'a', b'g', b'm', b'a', t[0], t[1], t[2]] } else { [b'p', b'r', b'a', b'g', b'm', b'a', t[0], t[1], t[2], 0] };
    let len = (if hash { 7 } else { 6 }) + n;
    let text = unsafe { std::str::from_utf8_unchecked(&buf[..len]) };
    let p = PragmaStatement { t: text };
    let r = p.pragma_text();
    assert!(r.len() == n);
    if n >= 1 { assert!(r.as_bytes()[0] == t[0]); }
    if n >= 2 { assert!(r.as_bytes()[1] == t[1]); }
    if n >= 3 { assert!(r.as_bytes()[2] == t[2]); }
}
''')
_PRAGMA_TEXT2 = dict(_PRAGMA_TEXT, harness='pragma_text_mentioning_pragma_is_verbatim',
                 bound='pragma lines `pragma` / `#pragma` + one ASCII byte + `pragma` + at most one ASCII byte (the body mentions the keyword again)',
                 body='''#[cfg(kani)]
#[kani::proof]
#[kani::unwind(16)]
fn pragma_text_mentioning_pragma_is_verbatim() {
    let hash: bool = kani::any();
    let a: u8 = kani::any();
    let b: u8 = kani::any();
    let n: usize = kani::any();
    kani::assume(n <= 1);
    kani::assume(a < 128 && b < 128);
    let buf: [u8; 15] = if hash { [b'#', b'p', b'r', b'a', b'g', b'm', b'a', a, b'p', b'r', b'a', b'g', b'm', b'a', b] }
                        else { [b'p', b'r', b'a', b'g', b'm', b'a', a, b'p', b'r', b'a', b'g', b'm', b'a', b, 0] };
    let len = (if hash { 14 } else { 13 }) + n;
    let text = unsafe { std::str::from_utf8_unchecked(&buf[..len]) };
    let p = PragmaStatement { t: text };
    let r = p.pragma_text();
    assert!(r.len() == 7 + n);
    assert!(r.as_bytes()[0] == a && r.as_bytes()[1] == b'p' && r.as_bytes()[6] == b'a');
    if n == 1 { assert!(r.as_bytes()[7] == b); }
}
''')
_CURSOR = dict(file='crates/oq3_lexer/src/cursor.rs', fn=None, whole_file=True, harness='cursor_primitives_agree_with_the_model', unwind=6,
               bound='every string of at most 3 chars, each ASCII (NUL included) or a 2-byte UTF-8 char; one bump, then eat_while up to an ASCII stop char',
               claim='cursor.rs (copied whole): Cursor::{new,is_eof,first,second,bump,prev,pos_within_token,reset_pos_within_token,eat_while} agree with the rest / tok model the LEX unit trusts (chars decoded by hand, byte positions)',
               body="#[cfg(kani)]\nmod oq3_cursor_harness {\n    use super::*;\n    #[kani::proof]\n    #[kani::unwind(6)]\n    fn cursor_primitives_agree_with_the_model() {\n        let two: [bool; 3] = kani::any();\n        let n: usize = kani::any();\n        kani::assume(n <= 3);\n        let mut buf = [0u8; 6];\n        let mut len = 0usize;\n        let mut chars = ['\\0'; 3];\n        let mut k = 0;\n        while k < 3 {\n            if k < n {\n                if two[k] {\n                    let b0: u8 = kani::any();\n                    let b1: u8 = kani::any();\n                    kani::assume(0xC2 <= b0 && b0 <= 0xDF && 0x80 <= b1 && b1 <= 0xBF);\n                    buf[len] = b0;\n                    buf[len + 1] = b1;\n                    chars[k] = char::from_u32((((b0 & 0x1F) as u32) << 6) | ((b1 & 0x3F) as u32)).unwrap();\n                    len += 2;\n                } else {\n                    let b: u8 = kani::any();\n                    kani::assume(b < 128);\n                    buf[len] = b;\n                    chars[k] = b as char;\n                    len += 1;\n                }\n            }\n            k += 1;\n        }\n        let s = unsafe { std::str::from_utf8_unchecked(&buf[..len]) };\n        let mut c = Cursor::new(s);\n        assert!(c.is_eof() == (n == 0));\n        assert!(c.first() == if n >= 1 { chars[0] } else { '\\0' });\n        assert!(c.second() == if n >= 2 { chars[1] } else { '\\0' });\n        assert!(c.pos_within_token() == 0);\n        let b = c.bump();\n        assert!(b == if n >= 1 { Some(chars[0]) } else { None });\n        assert!(c.first() == if n >= 2 { chars[1] } else { '\\0' });\n        assert!(c.prev() == if cfg!(debug_assertions) && n >= 1 { chars[0] } else { '\\0' });\n        let w0 = if n >= 1 { if two[0] { 2 } else { 1 } } else { 0 };\n        assert!(c.pos_within_token() as usize == w0);\n        let stop: u8 = kani::any();\n        kani::assume(0 < stop && stop < 128);\n        c.eat_while(|ch| ch != stop as char);\n        let mut expect = w0;\n        let mut stopped = false;\n        let mut j = 1;\n        while j < 3 {\n            if j < n && !stopped {\n                if chars[j] == stop as char { stopped = true; } else { expect += if two[j] { 2 } else { 1 }; }\n            }\n            j += 1;\n        }\n        assert!(c.pos_within_token() as usize == expect);\n        assert!(c.is_eof() == !stopped);\n        c.reset_pos_within_token();\n        assert!(c.pos_within_token() == 0);\n    }\n}\n")
_INT_SPLIT = dict(file='crates/oq3_syntax/src/ast/token_ext.rs', fn='IntNumber::{radix, split_into_parts}', harness='int_literal_splits_into_prefix_and_digits', unwind=7,
    pieces=[('item', r'pub enum Radix\b'), ('item', r'impl Radix\b'), ('fn', 'impl ast::IntNumber', 'radix'), ('fn', 'impl ast::IntNumber', 'split_into_parts')],
    layout="#[derive(Debug, PartialEq, Eq, Copy, Clone)]\n%s\n%s\npub struct IntNumber<'a> { t: &'a str }\nimpl<'a> IntNumber<'a> {\n    fn text(&self) -> &str { self.t }   // stand-in for the token text (rowan)\n    pub %s\n    pub %s\n}\n",
    bound='every integer literal token without suffix: radix prefix none / 0b / 0o / 0x, then 1 to 3 characters, each a digit of the radix or (not first) `_`',
    claim='token_ext.rs::IntNumber::split_into_parts cuts such a literal into its prefix, ALL of its digits and an empty suffix, and radix() is the radix of the prefix (so the width / register length / const value read from the literal is the number written)',
    body="""#[cfg(kani)]
#[kani::proof]
#[kani::unwind(7)]
fn int_literal_splits_into_prefix_and_digits() {
    let rad: u8 = kani::any();
    kani::assume(rad < 4);
    let n: usize = kani::any();
    kani::assume(1 <= n && n <= 3);
    let d: [u8; 3] = kani::any();
    let base: u8 = match rad { 0 => 10, 1 => 2, 2 => 8, _ => 16 };
    let mut j = 0;
    while j < 3 {
        let c = d[j];
        let v: u8 = if c.is_ascii_digit() { c - b'0' } else if b'a' <= c && c <= b'f' { c - b'a' + 10 } else if b'A' <= c && c <= b'F' { c - b'A' + 10 } else { 99 };
        kani::assume((c == b'_' && j > 0) || v < base);
        j += 1;
    }
    let buf: [u8; 5] = match rad { 0 => [d[0], d[1], d[2], 0, 0], 1 => [b'0', b'b', d[0], d[1], d[2]], 2 => [b'0', b'o', d[0], d[1], d[2]], _ => [b'0', b'x', d[0], d[1], d[2]] };
    let plen = if rad == 0 { 0 } else { 2 };
    let text = unsafe { std::str::from_utf8_unchecked(&buf[..plen + n]) };
    let t = IntNumber { t: text };
    let (p, digits, suffix) = t.split_into_parts();
    assert!(p.len() == plen);
    assert!(digits.len() == n);
    assert!(suffix.len() == 0);
    assert!(digits.as_bytes()[0] == d[0]);
    assert!(t.radix() as u8 == base);
}
""")
_BITSTR = dict(file='crates/oq3_semantics/src/asg.rs', fn='BitStringLiteral::{to_expr, to_texpr}', harness='bit_string_literal_has_the_width_of_its_bits', unwind=6,
    pieces=[('fn', 'impl BitStringLiteral', 'to_expr'), ('fn', 'impl BitStringLiteral', 'to_texpr')],
    layout="""pub enum IsConst { True, False }
pub enum ArrayDims { D1(usize), D2(usize, usize), D3(usize, usize, usize) }
pub enum Type { BitArray(ArrayDims, IsConst), Void }
pub enum Literal { BitString(BitStringLiteral), Array }
pub enum Expr { Literal(Literal), NullExpr }
pub struct TExpr { expression: Expr, ty: Type }
impl TExpr { pub fn new(expression: Expr, ty: Type) -> TExpr { TExpr { expression, ty } } }
pub struct BitStringLiteral { value: String }
impl BitStringLiteral {
    pub %s
    pub %s
}
""",
    bound='every bit-string text of at most 4 characters over {0, 1, _}',
    claim='asg.rs::BitStringLiteral::to_texpr types the literal as a const one-dimensional bit register whose length is the number of 0/1 characters (separators not counted) and keeps it as a bit-string literal (the assumed contract of the trusted stub in unit SEMA); stand-in types: the variants of Type / ArrayDims / IsConst / Literal / Expr it uses, TExpr::new storing its arguments',
    body="""#[cfg(kani)]
#[kani::proof]
#[kani::unwind(6)]
fn bit_string_literal_has_the_width_of_its_bits() {
    let n: usize = kani::any();
    kani::assume(n <= 4);
    let d: [u8; 4] = kani::any();
    let mut bits = 0usize;
    let mut j = 0;
    while j < 4 {
        kani::assume(d[j] == b'0' || d[j] == b'1' || d[j] == b'_');
        if j < n && d[j] != b'_' { bits += 1; }
        j += 1;
    }
    let text = unsafe { std::str::from_utf8_unchecked(&d[..n]) };
    let lit = BitStringLiteral { value: String::from(text) };
    let r = lit.to_texpr();
    match r.ty { Type::BitArray(ArrayDims::D1(w), IsConst::True) => assert!(w == bits), _ => assert!(false) }
    match r.expression { Expr::Literal(Literal::BitString(_)) => (), _ => assert!(false) }
}
""")
EXTRACTED = {
    'C09': [_INT_SPLIT], 'C08': [_INT_SPLIT, _BITSTR],
    'C03': [_PRAGMA_TEXT],
    'C06': [_PRAGMA_TEXT, _PRAGMA_TEXT2, _INT_SPLIT],
    'C14': [_CURSOR], 'C15': [_CURSOR], 'C11': [_CURSOR],
    'C01': [_CURSOR, dict(file='crates/oq3_syntax/src/validation.rs', fn='unquote', harness='unquote_never_panics', unwind=6,
                 bound='every text of at most 3 ASCII bytes, prefix_len <= 2, end delimiter `"` or `\'`',
                 claim='validation.rs::unquote (nested in validate_literal) returns normally (no slice / char-boundary panic)',
                 body='''#[cfg(kani)]
#[kani::proof]
#[kani::unwind(6)]
fn unquote_never_panics() {
    let bytes: [u8; 3] = kani::any();
    let len: usize = kani::any();
    kani::assume(len <= 3);
    kani::assume(bytes[0] < 128 && bytes[1] < 128 && bytes[2] < 128);
    let text = unsafe { std::str::from_utf8_unchecked(&bytes[..len]) };
    let prefix: usize = kani::any();
    kani::assume(prefix <= 2);
    let d = if kani::any() { '"' } else { '\\'' };
    if let Some(s) = unquote(text, prefix, d) { assert!(s.len() <= len); }
}
''')],
}


def _extract_fn(path, name):
    from .rustsrc import RustFile
    rf = RustFile(path)
    m = None
    for mm in re.finditer(r'\bfn\s+' + re.escape(name) + r'\b', rf.src):
        if rf.code[mm.start()]:
            m = mm
            break
    if m is None:
        return None
    b = rf.src.index('{', m.end())
    while not rf.code[b]:
        b = rf.src.index('{', b + 1)
    e = rf.match_brace(b)
    return rf.src[m.start():e]


def _extract_pieces(path, pieces):
    """several items copied verbatim from one file: ('item', regex of the first line) -> the brace-matched item that starts there;
    ('fn', impl header, name) -> that method of that impl block"""
    from .rustsrc import RustFile
    rf = RustFile(path)
    out = []
    for pc in pieces:
        if pc[0] == 'item':
            m = None
            for mm in re.finditer(pc[1], rf.src):
                if rf.code[mm.start()]:
                    m = mm
                    break
            if m is None:
                return None
            b = rf.src.index('{', m.end() - 1)
            out.append(rf.src[m.start():rf.match_brace(b)])
        else:
            hm = None
            for mm in re.finditer(re.escape(pc[1]) + r'\s*\{', rf.src):
                if rf.code[mm.start()]:
                    hm = mm
                    break
            if hm is None:
                return None
            lo, hi = hm.end(), rf.match_brace(hm.end() - 1)
            m = None
            for mm in re.finditer(r'\bfn\s+' + re.escape(pc[2]) + r'\b', rf.src[lo:hi]):
                if rf.code[lo + mm.start()]:
                    m = mm
                    break
            if m is None:
                return None
            b = rf.src.index('{', lo + m.end())
            while not rf.code[b]:
                b = rf.src.index('{', b + 1)
            out.append(pc[3] + rf.src[lo + m.start():rf.match_brace(b)] if len(pc) > 3 else rf.src[lo + m.start():rf.match_brace(b)])
    return out


def run_extracted(prop, scratch):
    out = []
    status = 0
    viol = []
    for h in EXTRACTED.get(prop, []):
        if h.get('whole_file'):
            try:
                text = open(os.path.join(REPO, h['file'])).read()
            except OSError:
                text = None
        elif h.get('pieces'):
            ps = _extract_pieces(os.path.join(REPO, h['file']), h['pieces'])
            text = h['layout'] % tuple(ps) if ps is not None else None
        else:
            text = _extract_fn(os.path.join(REPO, h['file']), h['fn'])
        if text is None:
            out.append(dict(harness=h['harness'], verdict='undecided', detail='function %s not found in %s' % (h['fn'], h['file'])))
            status = 2
            continue
        d = os.path.join(scratch, 'kani_x_' + h['harness'])
        os.makedirs(os.path.join(d, 'src'), exist_ok=True)
        open(os.path.join(d, 'Cargo.toml'), 'w').write('[package]\nname = "oq3_kani_x"\nversion = "0.0.0"\nedition = "2021"\n[workspace]\n')
        open(os.path.join(d, 'src', 'lib.rs'), 'w').write('#![allow(dead_code)]\n' + h.get('prefix', '') + text + h.get('suffix', '') + '\n' + h['body'])
        env = dict(os.environ, CARGO_NET_OFFLINE='true', CARGO_TARGET_DIR=os.path.join(d, 'target'))
        try:
            p = subprocess.run(['cargo', 'kani', '--harness', h['harness']], cwd=d, env=env, stdout=subprocess.PIPE, stderr=subprocess.STDOUT, text=True, timeout=240)
            o = p.stdout
        except subprocess.TimeoutExpired:
            o = 'TIMEOUT'
        if 'VERIFICATION:- SUCCESSFUL' in o:
            out.append(dict(harness=h['harness'], verdict='verified-bounded', bounded=True, backend='kani/cbmc', bound=h['bound'], claim=h['claim'],
                            extraction=('%s copied verbatim from %s on this run' % ('the whole file' if h.get('whole_file') else 'function text', h['file'])) + (' (inside a stand-in impl: %s)' % ' '.join(h['prefix'].split()) if h.get('prefix') else '')))
        elif 'VERIFICATION:- FAILED' in o:
            failed = re.findall(r'Status: FAILURE\s*\n\s*- Description: "([^"]*)"', o)
            path = os.path.join(os.environ.get('OQ3_REPLAY_DIR', os.path.join(VERIF, 'replays')), prop, 'kani_%s.json' % h['harness'])
            os.makedirs(os.path.dirname(path), exist_ok=True)
            json.dump(dict(property=prop, obligation='kani-bounded::%s' % h['harness'], verifier='kani', bound=h['bound'], failed_checks=failed[:10],
                           verifier_output=o[-6000:], counterexample=None), open(path, 'w'), indent=1)
            viol.append('VIOLATION property=%s replay=%s no-failing-input-found' % (prop, path))
            out.append(dict(harness=h['harness'], verdict='FAILED', bounded=True, failed_checks=failed[:5]))
        else:
            out.append(dict(harness=h['harness'], verdict='undecided', detail=o[-1500:]))
            status = 2
        shutil.rmtree(d, ignore_errors=True)
    return out, viol, status


def run(prop, spec, scratch):
    todo = HARNESSES.get(prop)
    if not todo and prop not in EXTRACTED:
        return {}
    todo = todo or []
    dst = os.path.join(scratch, 'kani_repo')
    shutil.copytree(REPO, dst, ignore=shutil.ignore_patterns('target', '.git'))
    results = []
    viol = []
    status = 0
    try:
        for rel, harness_file, pkg, names in todo:
            with open(os.path.join(dst, rel), 'a') as f:
                f.write('\n' + open(os.path.join(VERIF, harness_file)).read())
            cmd = ['cargo', 'kani', '-p', pkg]
            for n in names:
                cmd += ['--harness', n]
            env = dict(os.environ, CARGO_NET_OFFLINE='true', CARGO_TARGET_DIR=os.path.join(scratch, 'kani_target'))
            try:
                p = subprocess.run(cmd, cwd=dst, env=env, stdout=subprocess.PIPE, stderr=subprocess.STDOUT, text=True, timeout=1500)
            except subprocess.TimeoutExpired:
                results.append(dict(package=pkg, harnesses=names, verdict='timeout'))
                status = 2
                continue
            out = p.stdout
            for n in names:
                m = re.search(r'Checking harness [\w:]*' + re.escape(n) + r'\.\.\.(.*?)(?=Checking harness|Manual Harness Summary|\Z)', out, re.S)
                seg = m.group(1) if m else ''
                if 'VERIFICATION:- SUCCESSFUL' in seg:
                    results.append(dict(harness=n, verdict='verified', backend='kani/cbmc', domain='all kinds <= __LAST x all u8 counts, one event'))
                elif 'VERIFICATION:- FAILED' in seg:
                    failed = re.findall(r'Status: FAILURE\s*\n\s*- Description: "([^"]*)"', seg)
                    path = os.path.join(os.environ.get('OQ3_REPLAY_DIR', os.path.join(VERIF, 'replays')), prop, 'kani_%s.json' % n)
                    os.makedirs(os.path.dirname(path), exist_ok=True)
                    json.dump(dict(property=prop, obligation='kani::%s' % n, verifier='kani', failed_checks=failed[:10],
                                   verifier_output=seg[-6000:], counterexample=None), open(path, 'w'), indent=1)
                    viol.append('VIOLATION property=%s replay=%s no-failing-input-found' % (prop, path))
                    results.append(dict(harness=n, verdict='FAILED', failed_checks=failed[:5]))
                else:
                    results.append(dict(harness=n, verdict='undecided', detail=out[-1500:]))
                    status = 2
    finally:
        shutil.rmtree(dst, ignore_errors=True)
        shutil.rmtree(os.path.join(scratch, 'kani_target'), ignore_errors=True)
    xres, xviol, xstatus = run_extracted(prop, scratch)
    viol += xviol
    if xstatus == 2:
        status = 2
    return dict(extra=dict(kani=results, kani_harnesses=sum(1 for r in results if r.get('verdict') == 'verified'),
                           bounded_obligations=xres),
                violations=viol, status=status)
