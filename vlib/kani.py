"""Kani harnesses (thorough tier): loop-free, full-domain bit-level obligations.  The harness module
is appended to a scratch copy of /repo (never to /repo itself); the copy and its build output are
removed at the end of the run.  These are complete proofs for the stated domain (all kinds x all
counts for ONE event), not bounded stand-ins; they are reported under `by_backend.kani`."""
import json
import os
import re
import shutil
import subprocess

from .unit import VERIF, REPO

HARNESSES = {
    'C02': [('crates/oq3_parser/src/lib.rs', 'contracts/kani_parser.rs', 'oq3_parser',
             ['output_token_roundtrip', 'output_enter_exit_roundtrip', 'syntax_kind_from_u16_inverse'])],
    'C01': [('crates/oq3_parser/src/lib.rs', 'contracts/kani_parser.rs', 'oq3_parser', ['syntax_kind_from_u16_inverse'])],
}


def run(prop, spec, scratch):
    todo = HARNESSES.get(prop)
    if not todo:
        return {}
    dst = os.path.join(scratch, 'kani_repo')
    shutil.copytree(REPO, dst, ignore=shutil.ignore_patterns('target', '.git'))
    results = []
    viol = []
    status = 0
    try:
        for rel, harness_file, pkg, names in todo:
            with open(os.path.join(dst, rel), 'a') as f:
                f.write('\n' + open(os.path.join(VERIF, harness_file)).read())
            cmd = ['cargo', 'kani', '-p', pkg]
            for n in names:
                cmd += ['--harness', n]
            env = dict(os.environ, CARGO_NET_OFFLINE='true', CARGO_TARGET_DIR=os.path.join(scratch, 'kani_target'))
            try:
                p = subprocess.run(cmd, cwd=dst, env=env, stdout=subprocess.PIPE, stderr=subprocess.STDOUT, text=True, timeout=1500)
            except subprocess.TimeoutExpired:
                results.append(dict(package=pkg, harnesses=names, verdict='timeout'))
                status = 2
                continue
            out = p.stdout
            for n in names:
                m = re.search(r'Checking harness [\w:]*' + re.escape(n) + r'\.\.\.(.*?)(?=Checking harness|Manual Harness Summary|\Z)', out, re.S)
                seg = m.group(1) if m else ''
                if 'VERIFICATION:- SUCCESSFUL' in seg:
                    results.append(dict(harness=n, verdict='verified', backend='kani/cbmc', domain='all kinds <= __LAST x all u8 counts, one event'))
                elif 'VERIFICATION:- FAILED' in seg:
                    failed = re.findall(r'Status: FAILURE\s*\n\s*- Description: "([^"]*)"', seg)
                    path = os.path.join(os.environ.get('OQ3_REPLAY_DIR', os.path.join(VERIF, 'replays')), prop, 'kani_%s.json' % n)
                    os.makedirs(os.path.dirname(path), exist_ok=True)
                    json.dump(dict(property=prop, obligation='kani::%s' % n, verifier='kani', failed_checks=failed[:10],
                                   verifier_output=seg[-6000:], counterexample=None), open(path, 'w'), indent=1)
                    viol.append('VIOLATION property=%s replay=%s no-failing-input-found' % (prop, path))
                    results.append(dict(harness=n, verdict='FAILED', failed_checks=failed[:5]))
                else:
                    results.append(dict(harness=n, verdict='undecided', detail=out[-1500:]))
                    status = 2
    finally:
        shutil.rmtree(dst, ignore_errors=True)
        shutil.rmtree(os.path.join(scratch, 'kani_target'), ignore_errors=True)
    return dict(extra=dict(kani=results, kani_harnesses=sum(1 for r in results if r.get('verdict') == 'verified')),
                violations=viol, status=status)
