"""Generate, mechanically and on every run, the opaque Verus view of the oq3_syntax typed AST:
every node / token type becomes an `external_body` struct, the sum types the analyser matches on
(`Expr`, `Stmt`, `GateOperand`, `Modifier`, `ParamType`, `IndexKind`) are copied as real enums, and
every accessor becomes an `external_body` method WITHOUT postcondition (it may return anything:
this is an over-approximation, not an assumption)."""
import os
import re

from .rustsrc import RustFile
from .unit import REPO

R = 'crates/oq3_syntax/src/ast/'
REAL_ENUMS = ['Stmt', 'Expr', 'GateOperand', 'ParamType', 'Modifier', 'IndexKind']


def _sigs_from_impl(rf, header_pat):
    src = rf.src
    for m in re.finditer(header_pat, src, re.M):
        if not rf.code[m.start()] or rf.depth[m.start()] != 0:
            continue
        ty = m.group(1)
        b = src.find('{', m.end() - 1)
        e = rf.match_brace(b)
        sigs = []
        d1 = rf.depth[b] + 1
        for fm in rf.code_finditer(r'\bpub fn (\w+)', b, e):
            if rf.depth[fm.start()] != d1:
                continue
            j = fm.end()
            pd = 0
            while j < e:
                if rf.code[j]:
                    c = src[j]
                    if c in '([':
                        pd += 1
                    elif c in ')]':
                        pd -= 1
                    elif c == '{' and pd == 0:
                        break
                j += 1
            sigs.append((fm.group(1), ' '.join(src[fm.end():j].split())))
        yield ty, sigs


def generate(assume_some=None, custom=None, requires=None):
    """assume_some: {(Type, accessor): tag} -> the accessor additionally `ensures r is Some` (assumed-parser / known finding)"""
    assume_some = assume_some or {}
    custom = custom or {}
    requires = requires or {}
    used_some = set()
    nodes = RustFile(os.path.join(REPO, R, 'generated/nodes.rs'))
    tokens = RustFile(os.path.join(REPO, R, 'generated/tokens.rs'))
    out = []
    n_acc = 0
    structs = re.findall(r"pub struct (\w+) \{\s*pub\(crate\) syntax: Syntax(Node|Token),\s*\}", nodes.src + tokens.src)
    names = []
    for n, k in structs:
        if n in names:
            continue
        names.append(n)
        out.append("#[verifier::external_body] pub struct %s { _p: u8 }" % n)
        out.append("impl std::clone::Clone for %s { #[verifier::external_body] fn clone(&self) -> (r: Self) ensures r == *self { unimplemented!() } }" % n)
        out.append("impl vstd::std_specs::fmt::DebugSpecImpl for %s { open spec fn fmt_req(&self, f: &std::fmt::Formatter<'_>) -> bool { true } }" % n)
        out.append("impl std::fmt::Debug for %s { #[verifier::external_body] fn fmt(&self, f: &mut std::fmt::Formatter<'_>) -> std::fmt::Result { unimplemented!() } }" % n)
        if k == 'Node':
            out.append("impl AstNode for %s {}" % n)
    seen = set()

    def emit_methods(ty, sigs):
        nonlocal n_acc
        lines = []
        for name, rest in sigs:
            if (ty, name) in seen:
                continue
            seen.add((ty, name))
            rest = re.sub(r'(?<![:\w])String\b', '::std::string::String', rest.replace('ast::', ''))
            rest = rest.replace("TokenText<'_>", "TokenText").replace("Cow<'_, str>", "CowStr")
            mret = re.match(r'^\(&self\)\s*->\s*(.+)$', rest)
            ens = []
            spec_decl = None
            if mret:
                rty = mret.group(1).strip()
                simple = re.match(r"^(Option<[\w:]+>|[\w:]+|\(Option<[\w:]+>(, Option<[\w:]+>)*\))$", rty) and 'AstChildren' not in rty and 'TokenText' not in rty and 'CowStr' not in rty
                if simple and rty != '::std::string::String':
                    # accessors of an immutable tree are functions of the node
                    spec_decl = "    pub uninterp spec fn sp_%s(&self) -> %s;" % (name, rty)
                    ens.append("r == self.sp_%s()" % name)
                if rty == '::std::string::String':
                    spec_decl = "    pub uninterp spec fn sp_%s(&self) -> Seq<char>;" % name
                    ens.append("r@ == self.sp_%s()" % name)
                mch = re.match(r'^AstChildren<(\w+)>$', rty)
                if mch:
                    # children of an immutable node: a function of the node, in source order
                    spec_decl = "    pub uninterp spec fn sp_%s(&self) -> Seq<%s>;" % (name, mch.group(1))
                    ens.append("r.rest() == self.sp_%s()" % name)
                if rty == 'TokenText' and name == 'text':
                    # HasTextNode: `string()` is `self.text().to_string()` (node_ext.rs)
                    ens.append("r.chars() == self.sp_string()")
                if (ty, name) in assume_some:
                    ens.append("r is Some /* %s */" % assume_some[(ty, name)])
                    used_some.add((ty, name))
                if (ty, name) in custom:
                    ens.append("%s /* %s */" % custom[(ty, name)])
                    used_some.add((ty, name))
                req = ''
                if (ty, name) in requires:
                    # a hand-written accessor that panics: its guard is a precondition (callers must establish it)
                    spec_decl = (spec_decl + "\n" if spec_decl else "") + "    pub uninterp spec fn sp_%s_ok(&self) -> bool;" % name
                    req = " requires self.sp_%s_ok() /* %s */," % (name, requires[(ty, name)])
                    used_some.add((ty, name))
                if ens or req:
                    rest = "(&self) -> (r: %s)%s%s" % (rty, req, (' ensures ' + ', '.join(ens)) if ens else '')
            if spec_decl:
                lines.append(spec_decl)
            lines.append("    #[verifier::external_body] pub fn %s%s { unimplemented!() }" % (name, rest))
            n_acc += 1
        if lines:
            out.append("impl %s {" % ty)
            out.extend(lines)
            out.append("}")

    for ty, sigs in _sigs_from_impl(nodes, r"^impl (\w+) \{"):
        emit_methods(ty, sigs)
    for tr, meth, ret in [('HasName', 'name', 'Name'), ('HasArgList', 'arg_list', 'ArgList'), ('HasLoopBody', 'loop_body', 'BlockExpr')]:
        for m in re.finditer(r"^impl ast::%s for (\w+) \{\}" % tr, nodes.src, re.M):
            ty = m.group(1)
            if ty.startswith('Any'):
                continue
            emit_methods(ty, [(meth, "(&self) -> Option<%s>" % ret)])
    for f in ['expr_ext.rs', 'node_ext.rs', 'type_ext.rs', 'token_ext.rs']:
        rf = RustFile(os.path.join(REPO, R, f))
        for ty, sigs in _sigs_from_impl(rf, r"^impl (?:ast::)?(\w+) \{"):
            if ty in names:
                emit_methods(ty, sigs)
    node_ext = open(os.path.join(REPO, R, 'node_ext.rs')).read()
    for m in re.finditer(r"^impl HasTextNode for ast::(\w+) \{\}", node_ext, re.M):
        emit_methods(m.group(1), [('string', '(&self) -> ::std::string::String'), ('text', '(&self) -> TokenText')])
    for en in REAL_ENUMS:
        it = nodes.find_block_item('enum', en)
        out.append(nodes.src[it['header_start']:it['end']])
        out.append("impl AstNode for %s {}" % en)
        out.append("impl std::clone::Clone for %s { #[verifier::external_body] fn clone(&self) -> (r: Self) ensures r == *self { unimplemented!() } }" % en)
        out.append("impl vstd::std_specs::fmt::DebugSpecImpl for %s { open spec fn fmt_req(&self, f: &std::fmt::Formatter<'_>) -> bool { true } }" % en)
        out.append("impl std::fmt::Debug for %s { #[verifier::external_body] fn fmt(&self, f: &mut std::fmt::Formatter<'_>) -> std::fmt::Result { unimplemented!() } }" % en)
    missing = (set(assume_some) | set(custom) | set(requires)) - used_some
    if missing:
        from .unit import Undecided
        raise Undecided('assumed-parser accessors not found in the AST: %s' % sorted(missing))
    return '\n'.join(out) + '\n', len(names), n_acc
