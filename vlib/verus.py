"""Run Verus on a generated unit file and turn its output into per-obligation records."""
import json
import os
import re
import subprocess
import time

VERUS = os.environ.get('VERUS', 'verus')

ASSUMPTION_PATTERNS = [
    ('assume', re.compile(r'(?<![\w_])assume\s*\(')),
    ('admit', re.compile(r'(?<![\w_])admit\s*\(')),
    ('external_body', re.compile(r'#\[verifier::external_body\]')),
    ('external_body', re.compile(r'#\[verifier\(external_body\)\]')),
    ('assume_specification', re.compile(r'\bassume_specification\b')),
    ('truncate', re.compile(r'#\[verifier::truncate\]')),
    ('no_decreases', re.compile(r'exec_allows_no_decreases_clause')),
    ('external', re.compile(r'#\[verifier::external\]')),
    ('external_type_specification', re.compile(r'external_type_specification')),
]


def scan_assumptions(text):
    counts = {}
    for name, rx in ASSUMPTION_PATTERNS:
        n = 0
        for ln in text.split('\n'):
            code = ln.split('//')[0]
            n += len(rx.findall(code))
        if n:
            counts[name] = counts.get(name, 0) + n
    return counts


class VerusResult:
    def __init__(self):
        self.ok_front_end = False     # the file type-checked and verification ran
        self.functions = []           # [{function, success, time_us, rlimit}]
        self.errors = []              # classified diagnostics
        self.fatal = None             # text if the tool failed before verification
        self.times = {}
        self.cmd = ''
        self.wall_s = 0.0
        self.raw_stderr = ''
        self.hard = []


KIND_RULES = [
    (re.compile(r'^precondition not met: index in bounds'), 'index'),
    (re.compile(r'^precondition not met'), 'precondition'),
    (re.compile(r'^postcondition not satisfied'), 'postcondition'),
    (re.compile(r'^unable to prove post-?condition of closure'), 'postcondition'),
    (re.compile(r'^unable to prove pre-?condition of closure'), 'precondition'),
    (re.compile(r'^precondition not satisfied'), 'precondition'),
    (re.compile(r'^assertion failed'), 'assertion'),
    (re.compile(r'^possible arithmetic underflow/overflow'), 'arithmetic-overflow'),
    (re.compile(r'^possible division by zero'), 'division-by-zero'),
    (re.compile(r'^possible bit shift underflow/overflow'), 'shift-overflow'),
    (re.compile(r'^invariant not satisfied at end of loop body'), 'invariant-end'),
    (re.compile(r'^invariant not satisfied before loop'), 'invariant-init'),
    (re.compile(r'^invariant not satisfied at'), 'invariant-end'),
    (re.compile(r'^decreases not satisfied'), 'decreases'),
    (re.compile(r'^could not prove termination'), 'termination'),
    (re.compile(r'^recommendation not met'), 'recommendation'),
    (re.compile(r'^unreachable'), 'unreachable'),
    (re.compile(r'Resource limit \(rlimit\) exceeded|rlimit|timed? ?out', re.I), 'rlimit'),
    (re.compile(r'^loop invariant not'), 'invariant-end'),
    (re.compile(r'^failed (this )?pre'), 'precondition'),
    (re.compile(r'^possible truncation|^possible overflow'), 'arithmetic-overflow'),
    (re.compile(r'^cannot show invariant holds|^constructed value may fail to meet its declared type invariant'), 'type-invariant'),
    (re.compile(r'^possible.*(index|out of bounds)'), 'index'),
]


def classify_message(msg):
    for rx, k in KIND_RULES:
        if rx.search(msg):
            return k
    return None


def run_verus(path, workdir, rlimit=None, extra=(), timeout=900, threads=None):
    cmd = [VERUS, os.path.basename(path), '--output-json', '--time-expanded', '--error-format=json',
           '--multiple-errors', '200']
    if rlimit:
        cmd += ['--rlimit', str(rlimit)]
    if threads:
        cmd += ['--num-threads', str(threads)]
    cmd += list(extra)
    res = VerusResult()
    res.cmd = ' '.join(cmd)
    t0 = time.time()
    try:
        p = subprocess.run(cmd, cwd=workdir, stdout=subprocess.PIPE, stderr=subprocess.PIPE,
                           timeout=timeout, text=True)
    except subprocess.TimeoutExpired:
        res.fatal = 'verus timed out after %ds' % timeout
        res.wall_s = time.time() - t0
        return res
    except OSError as ex:
        res.fatal = 'cannot run verus: %s' % ex
        return res
    res.wall_s = time.time() - t0
    res.raw_stderr = p.stderr
    out = None
    try:
        out = json.loads(p.stdout)
    except Exception:
        # stdout may carry noise before the JSON object
        i = p.stdout.find('{')
        try:
            out = json.loads(p.stdout[i:]) if i >= 0 else None
        except Exception:
            out = None
    diags = []
    for ln in p.stderr.split('\n'):
        ln = ln.strip()
        if ln.startswith('{'):
            try:
                diags.append(json.loads(ln))
            except Exception:
                pass
    if out is None:
        res.fatal = 'verus produced no JSON result (exit %s): %s' % (p.returncode, (p.stderr or p.stdout)[-2000:])
        return res
    vr = out.get('verification-results', {})
    res.times = out.get('times-ms', {})
    smt = res.times.get('smt', {})
    for mod in smt.get('smt-run-module-times', []):
        for fb in mod.get('function-breakdown', []):
            res.functions.append(dict(function=fb['function'], success=fb['success'],
                                      time_us=fb.get('time-micros', 0), rlimit=fb.get('rlimit', 0),
                                      mode=fb.get('mode:', fb.get('mode', ''))))
    verification_ran = ('verified' in vr) and not vr.get('encountered-vir-error', False)
    hard = []
    for d in diags:
        if d.get('level') != 'error':
            continue
        msg = d.get('message', '')
        if msg.startswith('aborting due to'):
            continue
        kind = classify_message(msg)
        if kind is None:
            hard.append(d)
            continue
        res.errors.append(dict(kind=kind, message=msg, spans=_flatten_spans(d), rendered=d.get('rendered', ''),
                               notes=[c.get('message', '') for c in d.get('children', [])]))
    res.hard = [dict(message=h.get('message', ''), spans=_flatten_spans(h), rendered=h.get('rendered', '')) for h in hard]
    if hard or not verification_ran:
        res.fatal = 'verus front-end / unsupported-construct error(s):\n' + '\n'.join(
            (h.get('rendered') or h.get('message', ''))[:1500] for h in hard[:6]) if hard else \
            'verification did not run: %s' % json.dumps(vr)
        return res
    res.ok_front_end = True
    res.summary = vr
    return res


def _flatten_spans(d):
    """Every span, with macro expansions resolved to the outermost call site in the unit file."""
    out = []
    for sp in d.get('spans', []):
        s = sp
        chain = []
        while s is not None:
            chain.append(s)
            exp = s.get('expansion')
            s = exp.get('span') if exp else None
        # choose the outermost span (last in chain) -- it lies in the generated file
        for s in reversed(chain):
            if not s.get('file_name', '').startswith('/') and s.get('file_name', '').endswith('.rs'):
                break
        macro = None
        if len(chain) > 1:
            exp = chain[0].get('expansion') or {}
            macro = exp.get('macro_decl_name')
            # the outermost macro name is the one the user wrote
            for c in chain:
                if c.get('expansion'):
                    macro = c['expansion'].get('macro_decl_name', macro)
        out.append(dict(line_start=s['line_start'], line_end=s['line_end'],
                        col_start=s['column_start'], col_end=s['column_end'],
                        label=sp.get('label') or '', primary=sp.get('is_primary', False),
                        text=' '.join(t['text'].strip() for t in s.get('text', [])),
                        hl=_highlight(s), macro=macro))
    return out


def _highlight(s):
    parts = []
    for t in s.get('text', []):
        parts.append(t['text'][max(0, t['highlight_start'] - 1):max(0, t['highlight_end'] - 1)])
    return ' '.join(p.strip() for p in parts).strip()
