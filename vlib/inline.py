"""D30 -- inlining of NEW helper functions that have no contract.

When an edit of /repo makes a function under contract call a helper the unit does not know (so the
helper has no contract), modular verification learns nothing from the call.  If the helper is a
plain expression body -- `&self` or no receiver, simple identifier parameters, no generics, and no
`return`, `?`, loop or macro that could hide one -- every call `RECV.h(A, B)` / `h(A, B)` /
`Self::h(A, B)` in a function under contract is replaced by the block

    { let oq3_h_self = &(RECV); let oq3_h_a0 = A; let oq3_h_a1 = B; let p0 = oq3_h_a0; let p1 = oq3_h_a1; BODY[self := oq3_h_self] }

which is what the call evaluates to (arguments are evaluated first, left to right, then bound to the
parameter names; the body is the helper's body verbatim).  The helper itself is then emitted
`external_body` (it is checked in the context of each inlined call instead).  Anything the rule does
not cover leaves the call in place, and the driver reports the caller's failures as undecided."""
import re

from .rustsrc import RustFile, split_signature


def _match_close(text, i, code):
    """index of the bracket closing the one at text[i] (code positions only)"""
    op = text[i]
    cl = {'(': ')', '[': ']', '{': '}'}[op]
    d = 0
    for j in range(i, len(text)):
        if not code[j]:
            continue
        if text[j] == op:
            d += 1
        elif text[j] == cl:
            d -= 1
            if d == 0:
                return j
    return -1


def _match_open(text, i, code):
    cl = text[i]
    op = {')': '(', ']': '['}[cl]
    d = 0
    for j in range(i, -1, -1):
        if not code[j]:
            continue
        if text[j] == cl:
            d += 1
        elif text[j] == op:
            d -= 1
            if d == 0:
                return j
    return -1


def _split_args(s):
    rf = RustFile('<args>', s)
    out, d, cur = [], 0, 0
    for j, c in enumerate(s):
        if not rf.code[j]:
            continue
        if c in '([{':
            d += 1
        elif c in ')]}':
            d -= 1
        elif c == ',' and d == 0:
            out.append(s[cur:j])
            cur = j + 1
    last = s[cur:]
    if last.strip():
        out.append(last)
    return [a.strip() for a in out]


def helper_info(fn_text):
    """None unless the helper is inlinable by the rule"""
    try:
        sig, body = split_signature(fn_text)
    except Exception:
        return None
    m = re.search(r'\bfn\s+(\w+)\s*(<[^>(]*>)?\s*\(', sig)
    if not m:
        return None
    name = m.group(1)
    if m.group(2) and re.search(r'\b[A-Z]\w*\b', m.group(2)):     # type / const generics
        return None
    if re.search(r'\bwhere\b|\bimpl\b|\bdyn\b', sig):
        return None
    rs = RustFile('<sig>', sig)
    po = m.end() - 1
    pc = _match_close(sig, po, rs.code)
    if pc < 0:
        return None
    params = _split_args(sig[po + 1:pc])
    self_kind = None
    names = []
    for k, p in enumerate(params):
        if k == 0 and re.fullmatch(r"&\s*(?:'\w+\s+)?self", p):
            self_kind = '&self'
            continue
        if k == 0 and re.fullmatch(r"(?:mut\s+)?self|&\s*(?:'\w+\s+)?mut\s+self", p):
            return None
        mm = re.fullmatch(r'(\w+)\s*:\s*(.+)', p, re.S)
        if not mm or mm.group(1) in ('mut', '_'):
            return None
        names.append(mm.group(1))
    rb = RustFile('<body>', body)
    code_only = ''.join(c if rb.code[i] else ' ' for i, c in enumerate(body))
    if re.search(r'\b(return|loop|while|for|unsafe|async|await|break|continue)\b|\?', code_only):
        return None
    if re.search(r'\b(?!matches|assert|debug_assert|assert_eq|vec|unreachable|panic)\w+!\s*[\(\[\{]', code_only):
        return None          # an unknown macro could hide control flow
    inner = body.strip()[1:-1]
    ri = RustFile('<inner>', inner)
    pieces, last = [], 0
    for mm in re.finditer(r'\bself\b', inner):
        if ri.code[mm.start()]:
            pieces.append(inner[last:mm.start()] + 'oq3_h_self')
            last = mm.end()
    pieces.append(inner[last:])
    return dict(name=name, self_kind=self_kind, params=names, body=''.join(pieces))


def _recv_start(text, dot, code):
    """start of the receiver expression of a method call whose `.` is at text[dot]"""
    i = dot
    while True:
        j = i - 1
        while j >= 0 and text[j].isspace():
            j -= 1
        if j < 0 or not code[j]:
            return None
        c = text[j]
        if c in ')]':
            k = _match_open(text, j, code)
            if k < 0:
                return None
            i = k
            mm = re.search(r'[A-Za-z_][A-Za-z0-9_]*$', text[:k])
            if mm:
                i = mm.start()
        elif c.isalnum() or c == '_':
            mm = re.search(r'[A-Za-z_0-9]+$', text[:j + 1])
            i = mm.start()
        else:
            return None
        j = i - 1
        while j >= 0 and text[j].isspace():
            j -= 1
        if j >= 0 and text[j] == '.' and code[j] and not (j >= 1 and text[j - 1] == '.'):
            i = j
            continue
        if j >= 1 and text[j - 1:j + 1] == '::':
            i = j - 1
            continue
        return i


def inline_calls(text, info):
    """replace every call of the helper in `text`; returns (text, number of calls inlined)"""
    name = info['name']
    n = 0
    guard = 0
    while guard < 50:
        guard += 1
        rf = RustFile('<fn>', text)
        hit = None
        for m in re.finditer(r'(\.\s*|\bSelf\s*::\s*|(?<![\w:.]))%s\s*\(' % re.escape(name), text):
            if not rf.code[m.start()] or not rf.code[m.end() - 1]:
                continue
            if re.search(r'\bfn\s*$', text[:m.start()]):
                continue
            hit = m
            break
        if hit is None:
            break
        po = hit.end() - 1
        pc = _match_close(text, po, rf.code)
        if pc < 0:
            break
        args = _split_args(text[po + 1:pc])
        if len(args) != len(info['params']):
            break
        is_method = hit.group(1).startswith('.')
        if is_method != (info['self_kind'] == '&self'):
            break
        if is_method:
            start = _recv_start(text, hit.start(), rf.code)
            if start is None:
                break
            recv = text[start:hit.start()].strip()
            pre = 'let oq3_h_self = &(%s); ' % recv
        else:
            start = hit.start()
            pre = ''
        binds = ''.join('let oq3_h_a%d = %s; ' % (k, a) for k, a in enumerate(args))
        binds += ''.join('let %s = oq3_h_a%d; ' % (p, k) for k, p in enumerate(info['params']))
        text = text[:start] + '{ ' + pre + binds + info['body'] + ' }' + text[pc + 1:]
        n += 1
    return text, n


# ---------------------------------------------------------------------------------------------------
# D31 -- `continue` in a `for` loop (Verus: "for-loops do not yet support continue")
def desugar_for_continue(text):
    """Inside the body of a `for` loop, a top-level statement `if C { S; continue; }` (no else) followed by
    the rest R of the loop body is `if C { S } else { R }`: `continue` only skips R.  Applied repeatedly;
    any other `continue` inside a `for` body is left alone (Verus then reports it: undecided).
    Returns (text, number of rewrites)."""
    from .rustsrc import find_loops
    n = 0
    guard = 0
    while guard < 40:
        guard += 1
        b0 = text.find('{')
        if b0 < 0:
            return text, n
        body = text[b0:]
        rf = RustFile('<body>', body)
        done = True
        for kwoff, broff, kw in find_loops(body):
            if kw != 'for':
                continue
            end = _match_close(body, broff, rf.code)
            if end < 0:
                continue
            # top-level `if` statements of the loop body
            d = 0
            j = broff + 1
            while j < end:
                if not rf.code[j]:
                    j += 1
                    continue
                c = body[j]
                if c in '{([':
                    d += 1
                elif c in '})]':
                    d -= 1
                elif d == 0 and body.startswith('if', j) and re.match(r'if\b', body[j:j + 3]) and re.search(r'(?:^|[;{}])\s*$', body[broff + 1:j] if j > broff + 1 else '{'):
                    # condition up to the `{` at depth 0
                    k = j + 2
                    pd = 0
                    while k < end:
                        if rf.code[k]:
                            if body[k] in '([':
                                pd += 1
                            elif body[k] in ')]':
                                pd -= 1
                            elif body[k] == '{' and pd == 0:
                                break
                        k += 1
                    ce = _match_close(body, k, rf.code)
                    if ce < 0:
                        break
                    blk = body[k + 1:ce]
                    code_blk = ''.join(ch if rf.code[k + 1 + t] else ' ' for t, ch in enumerate(blk))
                    mm = re.search(r'\bcontinue\s*;\s*$', code_blk)
                    after = body[ce + 1:end]
                    if mm and not re.match(r'\s*else\b', after) and len(re.findall(r'\bcontinue\b', code_blk)) == 1:
                        new_blk = blk[:mm.start()]
                        rest = body[ce + 1:end]
                        body = body[:k + 1] + new_blk + '} else {' + rest + '}' + body[end:]
                        text = text[:b0] + body
                        n += 1
                        done = False
                        break
                    j = ce + 1
                    continue
                j += 1
            if not done:
                break
        if done:
            return text, n
    return text, n


# ---------------------------------------------------------------------------------------------------
# D32 -- `str` methods generic over `Pattern`, called with a char / string LITERAL, and the whitespace trims
_CHAR_LIT = r"'(?:[^'\\\n]|\\u\{[0-9a-fA-F]{1,6}\}|\\x[0-9a-fA-F]{2}|\\.)'"
_STR_LIT = r'"(?:[^"\\\n]|\\.)*"'
_PAT_METHODS = ('starts_with', 'ends_with', 'strip_prefix', 'strip_suffix', 'trim_end_matches', 'trim_start_matches', 'contains')
_STR_OK = ('starts_with', 'ends_with', 'strip_prefix', 'strip_suffix')


def desugar_str_patterns(text):
    """`RECV.m('c')` -> `crate::oq3_str_m_char(&(RECV), 'c')`, `RECV.m("lit")` -> `crate::oq3_str_m_str(&(RECV), "lit")`,
    `RECV.trim_end()` / `.trim_start()` -> `crate::oq3_str_trim_end(&(RECV))`: the stand-ins of contracts/std_str_specs.rs
    (each calls the std method it stands for).  Only literal patterns; anything else is left alone."""
    log = []
    guard = 0
    pat = re.compile(r'\.\s*(?:(%s)\s*\(\s*(%s|%s)\s*\)|(trim_end|trim_start)\s*\(\s*\))' % ('|'.join(_PAT_METHODS), _CHAR_LIT, _STR_LIT))
    pos = 0
    while guard < 60:
        guard += 1
        rf = RustFile('<fn>', text)
        hit = None
        for m in pat.finditer(text, pos):
            if rf.code[m.start()]:
                hit = m
                break
        if hit is None:
            break
        pos = hit.start() + 1
        start = _recv_start(text, hit.start(), rf.code)
        if start is None:
            continue
        recv = text[start:hit.start()].strip()
        if hit.group(3):
            new = 'crate::oq3_str_%s(&(%s))' % (hit.group(3), recv)
            what = '.%s()' % hit.group(3)
        else:
            meth, lit = hit.group(1), hit.group(2)
            if lit.startswith('"'):
                if meth not in _STR_OK:
                    continue
                new = 'crate::oq3_str_%s_str(&(%s), %s)' % (meth, recv, lit)
            else:
                new = 'crate::oq3_str_%s_char(&(%s), %s)' % (meth, recv, lit)
            what = '.%s(%s)' % (meth, lit)
        text = text[:start] + new + text[hit.end():]
        pos = start + len(new)
        log.append('`%s%s` routed to the stand-in of contracts/std_str_specs.rs (literal pattern)' % (recv[-40:], what))
    return text, log


def _block_is_if_branch(body, code, open_idx):
    """the `{` at open_idx opens the block of an `if COND`, `else if COND` or `else`"""
    j = open_idx - 1
    while j >= 0 and body[j].isspace():
        j -= 1
    if j >= 3 and body[j - 3:j + 1] == 'else' and code[j]:
        return True
    # walk back over the condition to the `if` keyword: stop at `;`, `{`, `}` at depth 0
    d = 0
    k = j
    while k >= 0:
        if code[k]:
            c = body[k]
            if c in ')]':
                d += 1
            elif c in '([':
                d -= 1
            elif d == 0 and c in ';{}':
                return False
            elif d == 0 and body.startswith('if', k) and re.match(r'if\b', body[k:k + 3]) and (k == 0 or not (body[k - 1].isalnum() or body[k - 1] == '_')):
                return True
        k -= 1
    return False


def drop_tail_continues(text):
    """D31b: inside a `for` body, a `continue;` after which nothing can run -- it closes a branch of an if / else-if /
    else chain (possibly nested in further such chains) that is the last statement of the body -- is dropped.
    Returns (text, number dropped)."""
    from .rustsrc import find_loops
    n = 0
    guard = 0
    while guard < 40:
        guard += 1
        b0 = text.find('{')
        if b0 < 0:
            return text, n
        body = text[b0:]
        rf = RustFile('<body>', body)
        code = rf.code
        changed = False
        for kwoff, broff, kw in find_loops(body):
            if kw != 'for':
                continue
            end = _match_close(body, broff, code)
            if end < 0:
                continue
            for m in re.finditer(r'\bcontinue\s*;', body[broff:end]):
                cs, ce = broff + m.start(), broff + m.end()
                if not code[cs]:
                    continue
                # the continue must belong to THIS for loop: no other loop header between broff and cs that encloses it
                inner = False
                for k2, b2, _kw2 in find_loops(body):
                    if b2 > broff and b2 < cs:
                        e2 = _match_close(body, b2, code)
                        if e2 > cs:
                            inner = True
                if inner:
                    continue
                j = ce
                ok = True
                while True:
                    while j < end and (body[j].isspace() or not code[j]):
                        j += 1
                    if j == end:
                        break
                    if body[j] != '}':
                        ok = False
                        break
                    op = _match_open_brace(body, j, code)
                    if op < 0 or not _block_is_if_branch(body, code, op):
                        ok = False
                        break
                    j += 1
                    # skip any `else [if COND] { .. }` that follows
                    while True:
                        k = j
                        while k < end and (body[k].isspace() or not code[k]):
                            k += 1
                        if body.startswith('else', k) and re.match(r'else\b', body[k:k + 5]):
                            k2 = k + 4
                            pd = 0
                            while k2 < end and not (code[k2] and body[k2] == '{' and pd == 0):
                                if code[k2] and body[k2] in '([':
                                    pd += 1
                                elif code[k2] and body[k2] in ')]':
                                    pd -= 1
                                k2 += 1
                            e3 = _match_close(body, k2, code)
                            if e3 < 0:
                                ok = False
                                break
                            j = e3 + 1
                        else:
                            break
                    if not ok:
                        break
                if ok:
                    body = body[:cs] + body[ce:]
                    text = text[:b0] + body
                    n += 1
                    changed = True
                    break
            if changed:
                break
        if not changed:
            return text, n
    return text, n


def _match_open_brace(text, i, code):
    d = 0
    for j in range(i, -1, -1):
        if not code[j]:
            continue
        if text[j] == '}':
            d += 1
        elif text[j] == '{':
            d -= 1
            if d == 0:
                return j
    return -1
