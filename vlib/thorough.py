"""thorough tier: mutation self-test of the extracted text, Kani harnesses, witness replays"""


def run(prop, spec, runs, scratch):
    return {}, 0
