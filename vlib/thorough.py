"""thorough tier: (1) replay of every known-finding witness and of every repaired defect on the
REAL code (replay crate built against /repo), (2) mutation self-test of the extracted text (the
contracts must turn the named obligation red), (3) Kani harnesses (bit-level, full domain)."""
import concurrent.futures
import importlib
import json
import os
import subprocess
import time

from .unit import VERIF, REPO, Undecided


def _build_replay(scratch):
    tgt = os.path.join(scratch, 'replay_target')
    env = dict(os.environ, CARGO_TARGET_DIR=tgt, CARGO_NET_OFFLINE='true')
    p = subprocess.run(['cargo', 'build', '--offline', '--bin', 'kf'], cwd=os.path.join(VERIF, 'replay'), env=env,
                       stdout=subprocess.PIPE, stderr=subprocess.STDOUT, text=True, timeout=1200)
    exe = os.path.join(tgt, 'debug', 'kf')
    return (exe if p.returncode == 0 and os.path.exists(exe) else None), p.stdout[-3000:]


def run(prop, spec, runs, scratch):
    from . import driver
    extra = {}
    status = 0
    viol = []
    kf = driver.load_known_findings()
    # ---- (1) witnesses on the real code
    exe, log = _build_replay(scratch)
    replays = []
    if exe is None:
        extra['replay_build_error'] = log
        status = 2
    else:
        for f in kf.get('findings', []):
            if f.get('property') != prop:
                continue
            p = subprocess.run([exe, f['id']], stdout=subprocess.PIPE, stderr=subprocess.STDOUT, text=True, timeout=120)
            replays.append(dict(finding=f['id'], exit=p.returncode, output=p.stdout.strip()[:600]))
            if p.returncode == 3:
                print('NOTE: known finding %s no longer reproduces on the real code (stale entry?): %s' % (f['id'], p.stdout.strip()[:200]))
            elif p.returncode != 0:
                status = 2
        p = subprocess.run([exe, '--fixed', '--all'], stdout=subprocess.PIPE, stderr=subprocess.STDOUT, text=True, timeout=300)
        for ln in p.stdout.split('\n'):
            if ln.startswith('DEFECT-BACK') and (' %s-' % prop) in (' ' + ln.split()[1]):
                rid = ln.split()[1].rstrip(':')
                path = os.path.join(VERIF, 'replays', prop, 'fixed_%s.json' % rid)
                os.makedirs(os.path.dirname(path), exist_ok=True)
                json.dump(dict(property=prop, obligation='replay::fixed::%s' % rid, kind='regression-of-repaired-defect',
                               counterexample=ln, replayed_on_real_code=True, command='replay/src/bin/kf.rs --fixed ' + rid), open(path, 'w'), indent=1)
                viol.append('VIOLATION property=%s replay=%s' % (prop, path))
            if ln.startswith(('DEFECT-BACK', 'STILL-FIXED')):
                replays.append(dict(fixed=ln[:400]))
    extra['witness_replays_on_real_code'] = replays
    # ---- (2) mutation self-test of the extracted text
    muts = []
    try:
        import units.mutants as M
        importlib.reload(M)
        todo = [m for m in M.MUTANTS if prop in m['props'] and m['unit'] in spec['units']]
    except Exception as ex:  # pragma: no cover
        todo = []
        extra['mutants_error'] = repr(ex)

    def one(m):
        d = os.path.join(scratch, 'mut_%s' % abs(hash(m['name'])))
        os.makedirs(d, exist_ok=True)
        try:
            ur = driver.run_unit(m['unit'], d, mutate=(m['fn'], m['old'], m['new']))
        except Exception as ex:
            return dict(mutant=m['name'], verdict='error', detail=repr(ex))
        if ur.undecided and not ur.errors:
            return dict(mutant=m['name'], verdict='undecided', detail=ur.undecided[0][:300])
        hit = [e for e in ur.errors if m.get('expect', m['fn']).split('::')[-1] in e['function'] and driver.is_violation_kind(e)]
        return dict(mutant=m['name'], verdict='killed' if hit else 'SURVIVED',
                    failing=[driver.obligation_name(e) for e in hit][:3])
    with concurrent.futures.ThreadPoolExecutor(max_workers=6) as ex:
        muts = list(ex.map(one, todo))
    extra['mutation_self_test'] = muts
    for r in muts:
        if r['verdict'] != 'killed':
            print('UNDECIDED: mutation self-test: mutant %s %s (a contract that should pin this behaviour does not)' % (r['mutant'], r['verdict']))
            status = 2
    # ---- (3) Kani
    try:
        from . import kani
        kres = kani.run(prop, spec, scratch)
        extra.update(kres.get('extra', {}))
        viol += kres.get('violations', [])
        if kres.get('status') == 2:
            status = 2
    except ImportError:
        pass
    extra['violation_lines'] = viol
    return extra, status
