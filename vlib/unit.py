"""Verification units: which items of /repo are copied, which contracts are spliced where.

A unit definition (units/<name>.py) builds a Unit object; Unit.generate() re-reads /repo's
current working tree and produces the single Rust file handed to Verus together with a map from
generated lines back to (repo file, item, original line).
"""
import difflib
import os
import re

from .rustsrc import RustFile, ScanError, split_signature, name_return, find_loops

REPO = os.environ.get('OQ3_REPO', '/repo')
VERIF = os.path.dirname(os.path.dirname(os.path.abspath(__file__)))


class Undecided(Exception):
    """extraction cannot produce the unit (lost anchor, changed desugaring site, ...): exit 2"""


DROP_ATTR = re.compile(r'#\[(inline|allow|rustfmt::skip|must_use|doc|cfg_attr|non_exhaustive|track_caller|cold)\b')
KEEP_ATTR = re.compile(r'#\[(repr|macro_export|verifier::)')


class Entry:
    """one copied item"""

    def __init__(self, **kw):
        self.kind = kw.pop('kind')
        self.name = kw.pop('name')
        self.file = kw.pop('file')          # repo-relative path
        self.impl = kw.pop('impl', None)    # impl header pattern if a method
        self.ret = kw.pop('ret', None)
        self.spec = kw.pop('spec', None)
        self.loops = kw.pop('loops', {})    # ordinal -> text | (iter_name, text)
        self.rewrites = kw.pop('rewrites', [])  # (id, old, new[, count])
        self.ghost = kw.pop('ghost', [])    # (anchor, 'before'|'after', text[, occurrence])
        self.loop_ghost = kw.pop('loop_ghost', None)   # ghost text placed first in every annotated loop body
        self.props = set(kw.pop('props', ()))
        self.trusted = kw.pop('trusted', False)
        self.attrs = kw.pop('attrs', [])
        self.derive = kw.pop('derive', None)
        self.note = kw.pop('note', '')
        self.vis_pub = kw.pop('vis_pub', True)
        self.nodecreases = kw.pop('nodecreases', False)
        self.qualname = kw.pop('qualname', None) or self.name
        self.exec_const = kw.pop('exec_const', None)   # D10: ensures text for `exec const`
        self.const_proof = kw.pop('const_proof', None) # ghost block placed before the initialiser
        self.d1 = kw.pop('d1', False)   # generic D1: split or-patterns that carry a guard
        self.hash_strip = kw.pop('hash_strip', None)   # verified pieces of a trusted function's text: excluded from its pin
        self.d8 = kw.pop('d8', False)   # generic D8: closure parameter `_` -> `_x`
        self.with_scope = kw.pop('with_scope', None)   # D17: text of context.rs holding the macro definition -> expand with_scope!
        self.mut_self = kw.pop('mut_self', False)     # generic D25: `fn f(mut self, ..)` -> `fn f(self, ..) { let mut oq3_self = self; .. }`
        self.string_eq = kw.pop('string_eq', None)   # generic D22: `NAME == "lit"` on a String local -> `NAME.as_str() == "lit"`
        self.for_iter = kw.pop('for_iter', None)     # generic D18: names of iterator locals whose `for` loops become loop/match next
        self.destruct = kw.pop('destruct', False)    # generic D21: destructuring assignment
        self.strmatch = kw.pop('strmatch', False)   # generic D20: match on &str literals -> if / else-if chain
        self.closures = kw.pop('closures', False)   # generic D3/D16: Option / iterator closures -> match / loop (vlib/closures.py)
        self.all_loops = kw.pop('all_loops', None)     # invariant text applied to every loop without its own
        self.depth = kw.pop('depth', 0)                # brace depth at which the item sits (nested inline modules)
        if kw:
            raise TypeError('unknown options %s' % list(kw))
        # filled by generate()
        self.gen_lines = None
        self.orig_start_line = None
        self.applied = []


class FileCtx:
    def __init__(self, unit, rel):
        self.unit = unit
        self.rel = rel

    def item(self, kind, name, **kw):
        e = Entry(kind=kind, name=name, file=self.rel, **kw)
        self.unit.entries.append(e)
        return e

    def fn(self, name, **kw):
        return self.item('fn', name, **kw)

    def impl(self, header, methods, trait_for=None):
        """header: regex matching what follows `impl ` (e.g. 'Type' or 'From<u16> for SyntaxKind').
        methods: list of (name, kwargs) or name."""
        grp = ImplGroup(header, self.rel)
        for m in methods:
            if isinstance(m, str):
                m = (m, {})
            name, kw = m
            kw = dict(kw)
            kw.setdefault('qualname', '%s::%s' % (re.sub(r'\W+', '_', header).strip('_') if ' ' in header else header, name))
            knd = kw.pop('kind', 'fn')
            e = Entry(kind=knd, name=name, file=self.rel, impl=header, **kw)
            grp.methods.append(e)
        self.unit.entries.append(grp)
        return grp

    def raw(self, text, note=''):
        self.unit.entries.append(Raw(text, note))

    def all_fns(self, default, overrides=None, skip=()):
        """every top-level fn of the file, in source order (so a function added by an edit is
        picked up with the default contract); `default` is a callable name -> kwargs."""
        import os
        rf = RustFile(os.path.join(REPO, self.rel))
        overrides = overrides or {}
        seen = set()
        for name in rf.list_fns(None, 0):
            if name in skip or name in seen:
                continue
            seen.add(name)
            # skip #[test] functions
            it = rf.find_fn(name, None, 0)
            if any(a.startswith('#[test') or a.startswith('#[cfg(test') for a in it['attrs']):
                continue
            kw = dict(default(name, rf.src[it['header_start']:it['sig_end']]))
            kw.update(overrides.get(name, {}))
            self.fn(name, **kw)
        missing = set(overrides) - seen
        if missing:
            raise Undecided('functions under contract not found in %s: %s' % (self.rel, sorted(missing)))

    def ingest(self, overrides=None, skip=(), only_kinds=('struct', 'enum', 'type', 'impl', 'fn'), item_kw=None,
               skip_impl=(), default=None):
        """copy EVERY top-level item of the file (types, impl blocks with all their methods, free
        fns) in source order.  overrides: 'Type::method' / 'fn' / 'Type' -> kwargs.  Items added by a
        later edit are therefore picked up automatically (without contract)."""
        import os
        rf = RustFile(os.path.join(REPO, self.rel))
        overrides = overrides or {}
        item_kw = item_kw or {}
        used = set()
        src = rf.src
        seen_impl = set()
        pat = re.compile(r'(?m)^(?:pub(?:\([^)]*\))?\s+)?(struct|enum|type|impl|fn|const|unsafe\s+fn)\b')
        for m in pat.finditer(src):
            if not rf.code[m.start()] or rf.depth[m.start()] != 0:
                continue
            kind = m.group(1)
            if kind not in only_kinds:
                continue
            if kind in ('struct', 'enum', 'type'):
                nm = re.match(r'\s*(\w+)', src[m.end():]).group(1)
                if nm in skip:
                    continue
                kw = dict(item_kw)
                kw.update(overrides.get(nm, {}))
                used.add(nm)
                self.item(kind, nm, **kw)
            elif kind == 'fn':
                nm = re.match(r'\s*(\w+)', src[m.end():]).group(1)
                if nm in skip:
                    continue
                it = rf.find_fn(nm, None, 0)
                if any(a.startswith('#[test') or a.startswith('#[cfg(test') for a in it['attrs']):
                    continue
                kw = dict(default(nm, src[it['header_start']:it['sig_end']]) if default else {})
                kw.update(overrides.get(nm, {}))
                used.add(nm)
                self.fn(nm, **kw)
            elif kind == 'impl':
                j = src.find('{', m.end())
                header = ' '.join(src[m.end():j].split())
                # drop leading generics for the key
                key = re.sub(r'^<[^>]*>\s*', '', header)
                tyname = re.sub(r'<.*$', '', key.split(' for ')[-1]).strip()
                if header in seen_impl or key in skip_impl or tyname in skip:
                    continue
                seen_impl.add(header)
                hdr_rx = re.escape(key)
                blocks = rf.find_all_impls(hdr_rx)
                meths = []
                for blk in blocks:
                    for fnm in rf.list_fns((blk['body_open'] + 1, blk['end'] - 1), rf.depth[blk['body_open']] + 1):
                        q = '%s::%s' % (tyname if ' for ' not in key else key, fnm)
                        qshort = '%s::%s' % (tyname, fnm)
                        if q in skip or qshort in skip:
                            continue
                        it = rf.find_fn(fnm, (blk['body_open'] + 1, blk['end'] - 1), rf.depth[blk['body_open']] + 1)
                        kw = dict(default(qshort, src[it['header_start']:it['sig_end']]) if default else {})
                        ov = overrides.get(q, overrides.get(qshort, {}))
                        kw.update(ov)
                        if q in overrides:
                            used.add(q)
                        if qshort in overrides:
                            used.add(qshort)
                        kw.setdefault('qualname', qshort if ' for ' not in key else '%s::%s' % (key, fnm))
                        meths.append((fnm, kw))
                if meths:
                    self.impl(hdr_rx, meths)
        missing = set(overrides) - used
        if missing:
            raise Undecided('items under contract not found in %s: %s' % (self.rel, sorted(missing)))

    def guard_rest(self, why, skip=()):
        n0_ = len(self.unit.entries)
        n_ = self._guard_rest(why, skip)
        for g_ in self.unit.entries[n0_:]:
            # a NEW method in an `impl Trait for Type` block silently changes dispatch (e.g. an override of a default method); a new
            # inherent / free function only matters once something calls it -- and then that caller's text changed
            if isinstance(g_, Guard) and g_.impl and re.search(r'\\? for\b|\bfor\\? ', g_.impl):
                g_.from_rest = True
        return n_

    def _guard_rest(self, why, skip=()):
        """hash guards (contracts/trusted_hashes.json) for every method of every impl block of this file that the unit has no
        entry for: code the unit does not verify but whose behaviour its trusted boundary (opaque accessors, stubs) stands for"""
        import os
        rf = RustFile(os.path.join(REPO, self.rel))
        have = {}
        for e in self.unit.entries:
            if isinstance(e, ImplGroup) and e.file == self.rel:
                have.setdefault(e.header, set()).update(m.name for m in e.methods)
        n = 0
        for mb in rf.code_finditer(r'(?m)^impl\b(?:\s*<[^{;]*?>)?\s+([^{;]+?)\s*\{', 0, len(rf.src)):
            if rf.depth[mb.start()] != 0:
                continue
            header = ' '.join(mb.group(1).split())
            bo = mb.end() - 1
            region = (bo + 1, rf.match_brace(bo) - 1)
            done = set()
            for pat, names in have.items():
                if re.fullmatch(pat, header):
                    done |= names
            for name in rf.list_fns(region, 1):
                if name in done or name in skip or (header, name) in skip:
                    continue
                done.add(name)
                self.guard(name, None, impl=re.escape(header), why=why)
                n += 1
        # default methods of the traits declared in this file
        for mb in rf.code_finditer(r'(?m)^(?:pub(?:\([^)]*\))?\s+)?trait\s+(\w+)[^{;]*\{', 0, len(rf.src)):
            if rf.depth[mb.start()] != 0:
                continue
            tname = mb.group(1)
            bo = mb.end() - 1
            lo, hi = bo + 1, rf.match_brace(bo) - 1
            done = set()
            for fm in rf.code_finditer(r'\bfn\s+(\w+)', lo, hi):
                if rf.depth[fm.start()] != 1 or fm.group(1) in done:
                    continue
                j = fm.end()
                while j < hi and not (rf.code[j] and rf.src[j] in '{;' and rf.depth[j] == 1):
                    j += 1
                if j >= hi or rf.src[j] != '{':
                    continue                      # declaration without a default body
                name = fm.group(1)
                if name in skip or (tname, name) in skip or any(isinstance(e, Guard) and e.file == self.rel and e.fn == name and getattr(e, 'block', None) for e in self.unit.entries):
                    continue
                done.add(name)
                self.guard(name, None, why=why, block=r'trait\s+%s\b' % tname)
                n += 1
        # free functions of this file
        havefn = set(e.name for e in self.unit.entries if getattr(e, 'kind', None) == 'fn' and getattr(e, 'file', None) == self.rel)
        havefn |= set(e.fn for e in self.unit.entries if isinstance(e, Guard) and e.file == self.rel and not e.impl and not getattr(e, 'block', None))
        for name in rf.list_fns(None, 0):
            if name in havefn or name in skip:
                continue
            try:
                if any(re.match(r'#\[\s*(test|cfg\(test\))', a) for a in rf.find_fn(name, None, 0)['attrs']):
                    continue                      # a unit test is not code that runs
            except KeyError:
                continue
            havefn.add(name)
            self.guard(name, None, why=why)
            n += 1
        return n

    def guard_file(self, why):
        """hash guard over the whole (comment-stripped, whitespace-normalised) file"""
        self.unit.entries.append(Guard(self.rel, None, None, None, why))

    def guard(self, fn, expected, impl=None, why='', block=None):
        """text guard: a function that is NOT verified but whose (comment-stripped, whitespace-
        normalised) source text a lemma restates; if it changes the unit is undecided."""
        g = Guard(self.rel, fn, impl, expected, why)
        g.block = block          # regex of a block header other than an impl (e.g. r'pub trait SourceTrait') that holds the function
        self.unit.entries.append(g)


class ImplGroup:
    def __init__(self, header, file):
        self.header = header
        self.file = file
        self.methods = []
        self.kind = 'impl'


class Guard:
    def __init__(self, file, fn, impl, expected, why):
        self.file, self.fn, self.impl, self.expected, self.why = file, fn, impl, expected, why
        self.kind = 'guard'


_TH = None


def _trusted_hashes():
    global _TH
    if _TH is None:
        try:
            import json
            _TH = json.load(open(os.path.join(VERIF, 'contracts', 'trusted_hashes.json')))
        except (OSError, ValueError):
            _TH = {}
    return _TH


def normalise_code(text):
    rf = RustFile('<g>', text)
    out = []
    i = 0
    n = len(text)
    while i < n:
        if text.startswith('//', i) and not rf.code[i]:
            j = text.find('\n', i)
            i = n if j < 0 else j
            continue
        out.append(text[i])
        i += 1
    return ' '.join(''.join(out).split())


class Raw:
    """ghost / glue text written in the sidecar (never executable code of /repo)"""

    def __init__(self, text, note=''):
        self.text = text
        self.note = note
        self.kind = 'raw'


class Unit:
    def __init__(self, name, props, doc=''):
        self.name = name
        self.props = list(props)
        self.doc = doc
        self.entries = []
        self.preludes = []
        self.trusted_decl = []      # human-readable list of trusted functions (from prelude)
        self.assumed_dep = []
        self.not_verified = []
        self.dropped = set()
        self.expected_assumption_count = None
        self.files = {}
        self.mod_wrappers = []

    # -- definition API
    def file(self, rel):
        return FileCtx(self, rel)

    def prelude(self, relpath):
        self.entries.append(Raw(open(os.path.join(VERIF, relpath)).read(), note='prelude:' + relpath))

    def raw(self, text, note=''):
        self.entries.append(Raw(text, note))

    def open_mod(self, name):
        self.entries.append(Raw('pub mod %s {\nuse vstd::prelude::*;\n' % name, note='mod-open'))

    def close_mod(self):
        self.entries.append(Raw('}\n', note='mod-close'))

    # -- generation
    def _rf(self, rel):
        if rel not in self.files:
            p = os.path.join(REPO, rel)
            try:
                self.files[rel] = RustFile(p)
            except (OSError, ScanError) as ex:
                raise Undecided('cannot read %s: %s' % (rel, ex))
        return self.files[rel]

    def all_fn_entries(self):
        for e in self.entries:
            if isinstance(e, ImplGroup):
                for m in e.methods:
                    yield m
            elif isinstance(e, Entry) and e.kind == 'fn':
                yield e

    def generate(self):
        """returns (text, linemap) ; linemap[i] (0-based generated line) = dict or None"""
        self.files = {}
        out = []      # list of (line_text, origin) ; origin = (entry, orig_line or None) | None
        self.desugar_log = list(getattr(self, 'build_log', []))     # (desugarings decided while the unit was built)
        self.dropped = set()
        self.twin_names = []
        self.guards_ok = []

        def emit_text(text, origin=None):
            for ln in text.split('\n'):
                out.append((ln, origin))

        emit_text('// GENERATED by /verif/vlib from %s working tree -- unit %s -- do not edit' % (REPO, self.name))
        emit_text('#![allow(unused_imports, unused_variables, dead_code, unused_mut, unused_macros, non_camel_case_types, unreachable_code, unused_parens, unused_braces, unreachable_patterns)]')
        emit_text('#![feature(allocator_api)]      // (the std specification of Vec::dedup names the allocator parameter)')
        emit_text('use vstd::prelude::*;')
        emit_text('verus! {')
        emit_text(open(os.path.join(VERIF, 'contracts', 'std_specs.rs')).read())
        emit_text(open(os.path.join(VERIF, 'contracts', 'std_str_specs.rs')).read())
        for e in self.entries:
            if isinstance(e, Raw):
                emit_text(e.text, None)
            elif isinstance(e, Guard) and e.fn is None:
                # whole-file hash guard (generated code the unit sees only through opaque accessors)
                import hashlib
                rf = self._rf(e.file)
                hv = hashlib.sha1(normalise_code(rf.src).encode()).hexdigest()[:16]
                key = '%s::file::%s' % (self.name, e.file)
                self.trusted_seen = getattr(self, 'trusted_seen', {})
                self.trusted_seen[key] = hv
                exp = _trusted_hashes().get(key)
                if exp is not None and exp != hv:
                    raise Undecided('the text of %s changed, but the unit sees it only through opaque accessors (%s): no verdict' % (e.file, e.why))
                self.guards_ok.append('%s:*' % e.file)
            elif isinstance(e, Guard):
                rf = self._rf(e.file)
                try:
                    if getattr(e, 'block', None):
                        it = None
                        for mb in rf.code_finditer(e.block + r'[^{;]*\{', 0, len(rf.src)):
                            bo = mb.end() - 1
                            try:
                                it = rf.find_fn(e.fn, (bo + 1, rf.match_brace(bo) - 1), rf.depth[bo] + 1)
                                break
                            except KeyError:
                                continue
                        if it is None:
                            raise KeyError(e.fn)
                    elif e.impl:
                        it = None
                        for blk in rf.find_all_impls(e.impl):
                            try:
                                it = rf.find_fn(e.fn, (blk['body_open'] + 1, blk['end'] - 1), rf.depth[blk['body_open']] + 1)
                                break
                            except KeyError:
                                continue
                        if it is None:
                            raise KeyError(e.fn)
                    else:
                        it = rf.find_fn(e.fn, None, 0)
                except KeyError:
                    raise Undecided('guarded function %s not found in %s' % (e.fn, e.file))
                txt_ = rf.src[it['header_start']:it['end']]
                for piece_ in getattr(e, 'hash_strip', None) or []:
                    txt_ = txt_.replace(piece_, ' @@VERIFIED_PIECE@@ ')       # (a verified piece of the function: only the frame is pinned)
                got = normalise_code(txt_)
                if e.expected is None:
                    # hash guard: the function is modelled by a hand-written trusted stub (contracts/*.rs); its text is pinned
                    # in contracts/trusted_hashes.json (tools/trusted_hashes.py)
                    import hashlib
                    hv = hashlib.sha1(got.encode()).hexdigest()[:16]
                    key = '%s::stub::%s%s' % (self.name, (e.impl + '::') if e.impl else ((e.block + '::') if getattr(e, 'block', None) else ''), e.fn)
                    self.trusted_seen = getattr(self, 'trusted_seen', {})
                    self.trusted_seen[key] = hv
                    exp = _trusted_hashes().get(key)
                    if exp is not None and exp != hv and not os.environ.get('OQ3_TRUSTED_REGEN'):
                        raise Undecided('the text of %s in %s changed, but the unit models it by a trusted stub (%s): no verdict' % (e.fn, e.file, e.why))
                    if exp is None and getattr(e, 'from_rest', False) and _trusted_hashes() and not os.environ.get('OQ3_TRUSTED_REGEN'):
                        # a function that did not exist when the rest of this file was pinned (e.g. a new override of a trait default method)
                        raise Undecided('%s was added to %s, whose functions outside the verified set are pinned (%s): no verdict' % (e.fn, e.file, e.why))
                    self.guards_ok.append('%s:%s' % (e.file, e.fn))
                    continue
                if got != e.expected:
                    raise Undecided('guarded (unverified) function %s in %s changed; %s\n  expected: %s\n  found:    %s' % (e.fn, e.file, e.why, e.expected, got))
                self.guards_ok.append('%s:%s' % (e.file, e.fn))
            elif isinstance(e, ImplGroup):
                rf = self._rf(e.file)
                impls = rf.find_all_impls(e.header)
                if not impls:
                    derived = _derived_default_impl(rf, e.header)
                    if derived is None:
                        raise Undecided('impl %s not found in %s' % (e.header, e.file))
                    # D33: `#[derive(Default)]` on a struct with named fields IS this impl (the expansion of the derive)
                    rf = RustFile('<derive(Default) of %s>' % e.file, derived)
                    impls = rf.find_all_impls(e.header)
                    self.desugar_log.append(('D33', '%s: no hand-written impl; `#[derive(Default)]` expanded to `Self { field: Default::default(), .. }`' % e.header))
                emit_text('impl ' + _impl_header_text(impls[0]['header']) + ' {')
                for blk in impls:   # associated types / consts of the impl are copied too
                    d1 = rf.depth[blk['body_open']] + 1
                    for m_ in rf.code_finditer(r'(?m)^[ \t]*((?:pub(?:\([^)]*\))?\s+)?(?:type|const)\s+\w+[^;{]*;)', blk['body_open'], blk['end']):
                        if rf.depth[m_.start(1)] == d1 and not any(getattr(mm, 'kind', '') == 'const' and re.search(r'\bconst\s+%s\b' % re.escape(mm.name), m_.group(1)) for mm in e.methods):
                            emit_text('    ' + m_.group(1))
                for m in e.methods:
                    if m.kind == 'const':
                        it = None
                        for blk in impls:
                            try:
                                it = rf.find_simple_item('const', m.name, (blk['body_open'] + 1, blk['end'] - 1), rf.depth[blk['body_open']] + 1)
                                break
                            except KeyError:
                                continue
                        if it is None:
                            raise Undecided('const %s of impl %s not found in %s' % (m.name, e.header, e.file))
                        self._emit_const(rf, m, it, out)
                        continue
                    found = None
                    for blk in impls:
                        try:
                            found = rf.find_fn(m.name, (blk['body_open'] + 1, blk['end'] - 1), rf.depth[blk['body_open']] + 1)
                            break
                        except KeyError:
                            continue
                    if found is None:
                        raise Undecided('method %s of impl %s not found in %s' % (m.name, e.header, e.file))
                    self._emit_fn(rf, m, found, out)
                emit_text('}')
            elif e.kind == 'fn':
                rf = self._rf(e.file)
                try:
                    found = rf.find_fn(e.name, None, e.depth)
                except KeyError as ex:
                    raise Undecided(str(ex))
                self._emit_fn(rf, e, found, out)
            else:
                self._emit_item(e, out)
        emit_text('} // verus!')
        emit_text('fn main() {}')
        text = '\n'.join(l for l, _ in out) + '\n'
        linemap = [o for _, o in out]
        return text, linemap

    def _emit_const(self, rf, e, it, out):
        """D10: `[vis] const NAME: T = E;` -> `pub exec const NAME: T ensures .. { E }` (E unchanged)"""
        text = rf.src[it['header_start']:it['end']]
        e.orig_start_line = rf.line_of(it['header_start'])
        text = self._apply_rewrites(e, text)
        m = re.match(r'(?:pub(?:\([^)]*\))?\s+)?const\s+(\w+)\s*:\s*([^=]+?)\s*=\s*(.*);\s*$', text, re.S)
        if not m:
            raise Undecided('cannot parse const %s in %s' % (e.name, e.file))
        name, ty, init = m.group(1), m.group(2), m.group(3)
        ens = (e.exec_const or 'ensures true,').strip()
        pf = ('proof { %s } ' % e.const_proof) if e.const_proof else ''
        lines = ['pub exec const %s: %s' % (name, ty), '    ' + ens, '{ ' + pf + init + ' }']
        k = 0
        for ln in '\n'.join(lines).split('\n'):
            out.append((ln, (e, e.orig_start_line)))
        self.desugar_log.append(('D10', 'const %s -> exec const with ensures (initialiser unchanged)' % name))

    # -- items other than fns
    def _emit_item(self, e, out):
        rf = self._rf(e.file)
        if e.kind == 'const' and e.exec_const is not None:
            try:
                it = rf.find_simple_item('const', e.name)
            except KeyError as ex:
                raise Undecided(str(ex))
            return self._emit_const(rf, e, it, out)
        try:
            if e.kind in ('struct', 'enum', 'macro_rules', 'trait', 'union'):
                it = rf.find_block_item(e.kind, e.name)
            elif e.kind in ('type', 'const', 'static'):
                it = rf.find_simple_item(e.kind, e.name)
            else:
                raise Undecided('unknown item kind %s' % e.kind)
        except KeyError as ex:
            raise Undecided(str(ex))
        text = rf.src[it['header_start']:it['end']]
        e.orig_start_line = rf.line_of(it['header_start'])
        attrs_out = []
        derives = []
        for a in it['attrs']:
            m = re.match(r'#\[derive\((.*)\)\]$', a, re.S)
            if m:
                derives += [d.strip() for d in m.group(1).split(',') if d.strip()]
            elif KEEP_ATTR.match(a):
                attrs_out.append(a)
            else:
                self.dropped.add(a.split('(')[0].rstrip(']') + (']' if '(' not in a else '(..)]'))
        text = self._apply_rewrites(e, text)
        if e.kind != 'macro_rules':
            text = _widen_vis(text)
        if e.kind == 'struct':
            text = _pub_fields(text)
        if e.kind in ('struct', 'enum') and not text.lstrip().startswith('pub'):
            text = 'pub ' + text.lstrip()     # D5: a private type becomes pub (specs must be able to name it)
        gm = re.search(r'\b(?:struct|enum)\s+' + re.escape(e.name) + r'\s*(<[^>{(;]*>)?', text)
        e.generics = (gm.group(1) or '') if gm else ''
        keep, gen = _derive_plan(e, derives)
        if keep:
            attrs_out.append('#[derive(%s)]' % ', '.join(keep))
        for a in attrs_out + list(e.attrs):
            out.append((a, None))
        olines = text.split('\n')
        for k, ln in enumerate(olines):
            out.append((ln, (e, e.orig_start_line + k)))
        for g in gen:
            for ln in g.split('\n'):
                out.append((ln, None))
        if derives:
            self.desugar_log.append(('D6', '%s %s: derive(%s) -> kept [%s], assumed structural impls [%s]' % (
                e.kind, e.name, ', '.join(derives), ', '.join(keep), ', '.join(sorted(set(derives) - set(keep) - {'Hash', 'BoolEnum'})))))

    def _apply_rewrites(self, e, text):
        for rw in e.rewrites:
            rid, old, new = rw[0], rw[1], rw[2]
            cnt = rw[3] if len(rw) > 3 else 1
            have = text.count(old)
            if have != cnt:
                raise Undecided('desugaring %s in %s %s: expected %d occurrence(s) of %r, found %d'
                                % (rid, e.kind, e.qualname, cnt, old, have))
            text = text.replace(old, new)
            self.desugar_log.append((rid, '%s: %r -> %r (x%d)' % (e.qualname, _short(old), _short(new), cnt)))
        return text

    # -- functions
    def _emit_fn(self, rf, e, it, out):
        src = rf.src
        e.orig_start_line = rf.line_of(it['header_start'])
        orig_text = src[it['header_start']:it['end']]
        for a in it['attrs']:
            if not KEEP_ATTR.match(a):
                self.dropped.add(re.sub(r'\(.*', '(..)]', a) if '(' in a else a)
        if e.trusted and not getattr(e, 'auto', False) and not getattr(e, 'auto_trusted', False):
            # a trusted function's contract was written against a reviewed text: if that text changes, the
            # contract is no longer backed by anything (contracts/trusted_hashes.json, tools/trusted_hashes.py)
            import hashlib
            pinned_text = orig_text
            for piece_ in getattr(e, 'hash_strip', None) or []:
                # a part of the function that IS verified (copied into a helper on this run): only the frame around it is pinned
                pinned_text = piece_.sub(' @@VERIFIED_PIECE@@ ', pinned_text) if hasattr(piece_, 'sub') else pinned_text.replace(piece_, ' @@VERIFIED_PIECE@@ ')
            hv = hashlib.sha1(normalise_code(pinned_text).encode()).hexdigest()[:16]
            key = '%s::%s' % (self.name, e.qualname)
            self.trusted_seen = getattr(self, 'trusted_seen', {})
            self.trusted_seen[key] = hv
            exp = _trusted_hashes().get(key)
            if exp is not None and exp != hv and getattr(self, 'mutation', None) is None and not os.environ.get('OQ3_TRUSTED_REGEN'):
                raise Undecided('the text of the TRUSTED function %s (%s) changed: its assumed contract was reviewed against another text; no verdict' % (e.qualname, e.file))
        text = self._apply_rewrites(e, orig_text)
        mut = getattr(self, 'mutation', None)
        if mut and mut[0] == e.qualname:
            if text.count(mut[1]) != 1:
                raise Undecided('mutant anchor %r occurs %d times in %s' % (mut[1], text.count(mut[1]), e.qualname))
            text = text.replace(mut[1], mut[2])
            self.mutation_applied = True
        for info in getattr(self, 'inline_helpers', {}).values():
            if info['name'] != e.name and not getattr(e, 'auto', False):
                from .inline import inline_calls
                text, n30 = inline_calls(text, info)
                if n30:
                    self.desugar_log.append(('D30', '%s: %d call(s) of the new contract-less helper `%s` replaced by its body (arguments bound first, `self` bound to the receiver)' % (e.qualname, n30, info['name'])))
        if not e.trusted and re.search(r'\.\s*(?:starts_with|ends_with|strip_prefix|strip_suffix|trim_end_matches|trim_start_matches|contains|trim_end|trim_start)\s*\(', text):
            from .inline import desugar_str_patterns
            text, l32 = desugar_str_patterns(text)
            for ln_ in l32:
                self.desugar_log.append(('D32', '%s: %s' % (e.qualname, ln_)))
        if not e.trusted and '.as_deref()' in text and re.search(r'->\s*Option<\s*&\s*\[', text):
            # D43: `self.F.as_deref()` in a function returning Option<&[T]> (F: Option<Vec<T>>): the definition of Option::as_deref
            # (`match self { Some(t) => Some(t.deref()), None => None }`) with Vec's deref (= as_slice) written out
            text, n43 = re.subn(r'\bself\.(\w+)\.as_deref\(\)', lambda m_: 'match &self.%s { Some(oq3_v) => Some(oq3_v.as_slice()), None => None }' % m_.group(1), text)
            if n43:
                self.desugar_log.append(('D43', '%s: %d `self.F.as_deref()` on an Option<Vec<T>> field -> `match &self.F { Some(v) => Some(v.as_slice()), None => None }`' % (e.qualname, n43)))
        if not e.trusted and re.search(r'\.map_or\(\s*\w+\s*,\s*Vec::len\s*\)', text):
            # D3 with a function path for the closure: `self.F.as_ref().map_or(D, Vec::len)` is Option::map_or's definition with
            # `Vec::len` applied to the payload (D a literal or a name: evaluating it eagerly or not makes no difference)
            text, n3p = re.subn(r'\bself\.(\w+)\.as_ref\(\)\.map_or\(\s*(\w+)\s*,\s*Vec::len\s*\)',
                                lambda m_: 'match self.%s.as_ref() { Some(oq3_v) => oq3_v.len(), None => %s }' % (m_.group(1), m_.group(2)), text)
            if n3p:
                self.desugar_log.append(('D3', '%s: %d `self.F.as_ref().map_or(D, Vec::len)` -> `match self.F.as_ref() { Some(v) => v.len(), None => D }`' % (e.qualname, n3p)))
        if getattr(e, 'bool_compound', False):
            # D36: `X |= E;` / `X &= E;` on bools (Verus has only the short-circuit forms): E is evaluated first, as the original does
            text, n36 = re.subn(r'(?m)^(\s*)([A-Za-z_][\w.]*)\s*(\|=|&=)\s*([^;\n]+);[ \t]*$',
                                lambda m_: '%s{ let oq3_b = %s; %s = %s %s oq3_b; }' % (m_.group(1), m_.group(4), m_.group(2), m_.group(2), '||' if m_.group(3) == '|=' else '&&'), text)
            if n36:
                self.desugar_log.append(('D36', '%s: %d compound `|=` / `&=` on a bool -> `{ let b = E; X = X || b; }`' % (e.qualname, n36)))
        if re.search(r'\bcontinue\b', text) and re.search(r'\bfor\b', text) and not e.trusted:
            from .inline import desugar_for_continue, drop_tail_continues
            text, n31b = drop_tail_continues(text)
            if n31b:
                self.desugar_log.append(('D31', '%s: %d `continue;` in tail position of a `for` body (last statement of a branch of the final if / else chain) dropped' % (e.qualname, n31b)))
            text, n31 = desugar_for_continue(text)
            if n31:
                self.desugar_log.append(('D31', '%s: %d `if C { ..; continue; } REST` in a `for` body -> `if C { .. } else { REST }` (Verus for-loops have no `continue`)' % (e.qualname, n31)))
        if e.d1 or (not e.trusted and re.search(r'\|[^;{}=]*\bif\b[^;{}]*=>', text)):
            text, n1 = split_or_guards(text)
            if n1:
                self.desugar_log.append(('D1', '%s: %d or-pattern arm(s) with a guard split into one arm per alternative' % (e.qualname, n1)))
        if e.with_scope:
            from .closures import expand_with_scope, NoRule
            try:
                text, nws = expand_with_scope(text, e.with_scope)
            except NoRule as ex:
                raise Undecided('D17 in %s: %s' % (e.qualname, ex))
            if nws:
                self.desugar_log.append(('D17', '%s: %d with_scope! invocation(s) expanded by the macro definition of context.rs' % (e.qualname, nws)))
        if e.string_eq:
            for nm_ in e.string_eq:
                text, n22 = re.subn(r'\b%s\s*==\s*"' % re.escape(nm_), '%s.as_str() == "' % nm_, text)
                if n22:
                    self.desugar_log.append(('D22', '%s: %d comparison(s) `%s == "…"` (String with &str: compares the characters) written with as_str()' % (e.qualname, n22, nm_)))
        if e.for_iter or e.destruct:
            from .closures import desugar_for_iter, desugar_destructuring_assignment, NoRule
            try:
                flog = []
                if e.for_iter:
                    text, flog = desugar_for_iter(text, e.for_iter)
                if e.destruct:
                    text, dlog = desugar_destructuring_assignment(text)
                    flog += dlog
            except NoRule as ex:
                raise Undecided('D18/D21 in %s: %s' % (e.qualname, ex))
            for ln_ in flog:
                self.desugar_log.append((ln_.split(' ')[0], '%s: %s' % (e.qualname, ln_)))
        if e.strmatch:
            from .closures import desugar_str_match, NoRule
            try:
                text, slog = desugar_str_match(text)
            except NoRule as ex:
                raise Undecided('D20 in %s: %s' % (e.qualname, ex))
            for ln_ in slog:
                self.desugar_log.append(('D20', '%s: %s' % (e.qualname, ln_)))
        if e.closures or getattr(self, 'default_closures', False):
            from .closures import desugar_closures, NoRule
            try:
                text, clog = desugar_closures(text)
            except NoRule as ex:
                raise Undecided('closure desugaring of %s: %s' % (e.qualname, ex))
            for ln_ in clog:
                self.desugar_log.append((ln_.split(' ')[0] if ln_[0] == 'D' else 'D3', '%s: %s' % (e.qualname, ln_)))
        if e.d8:
            text, n8 = re.subn(r'\|\s*_\s*\|', '|_x|', text)
            if n8:
                self.desugar_log.append(('D8', '%s: %d closure parameter(s) `_` named' % (e.qualname, n8)))
        sig, body = split_signature(text)
        if e.mut_self and re.search(r'\(\s*mut\s+self\b', sig):
            sig = re.sub(r'\(\s*mut\s+self\b', '(self', sig, count=1)
            b0 = body.index('{')
            body = body[:b0 + 1] + '\n        let mut oq3_self = self;' + re.sub(r'(?<![\w.])self\b', 'oq3_self', body[b0 + 1:])
            self.desugar_log.append(('D25', '%s: `mut self` parameter -> `self` rebound to a mutable local at the top of the body' % e.qualname))
        # D25 (generic): a by-value `mut x: T` parameter -> `x: T` rebound by `let mut x = x;` first thing in the body (Verus has no
        # `mut` by-value parameters in specifications; the rebinding is what the parameter mode means)
        if not e.trusted:
            muts = re.findall(r'[(,]\s*mut\s+(\w+)\s*:', sig)
            muts = [m_ for m_ in muts if m_ != 'self']
            if muts:
                sig = re.sub(r'([(,]\s*)mut\s+(\w+\s*:)', r'\1\2', sig)
                b0 = body.index('{')
                body = body[:b0 + 1] + ' ' + ' '.join('let mut %s = %s;' % (m_, m_) for m_ in muts) + body[b0 + 1:]
                self.desugar_log.append(('D25', '%s: by-value `mut` parameter(s) %s rebound by `let mut` at the top of the body' % (e.qualname, ', '.join(muts))))
        sig = _widen_vis(sig)
        if e.ret:
            sig, _ = name_return(sig, e.ret)
        # a loop that no loop contract covers (one introduced by an edit): obligations of this function that fail are
        # then "needs an invariant", not a verdict (driver: unspecified_loops)
        e.unspecified_loops = 0
        if not e.trusted and not e.all_loops:
            n_l = len(find_loops(body))
            if n_l > len(e.loops):
                e.unspecified_loops = n_l - len(e.loops)
        # loops (ordinals refer to the body after desugaring)
        if e.loops or e.all_loops:
            loops = find_loops(body)
            ins = []
            lspecs = dict(e.loops)
            if e.all_loops:
                for k_ in range(1, len(loops) + 1):
                    lspecs.setdefault(k_, e.all_loops)
            for ordn, spec in lspecs.items():
                if ordn < 1 or ordn > len(loops):
                    raise Undecided('loop %d of %s not found (function has %d loops)' % (ordn, e.qualname, len(loops)))
                kwoff, broff, kw = loops[ordn - 1]
                itname = None
                if isinstance(spec, tuple):
                    itname, spec = spec
                ins.append((kwoff, broff, kw, itname, spec))
            if len(loops) != getattr(e, 'expect_loops', len(loops)):
                raise Undecided('loop count of %s changed' % e.qualname)
            if getattr(self, 'tag_loops', False):
                tagp = ','.join(sorted(e.props or self.props))
                def _tag(spec_text):
                    outl = []
                    for ln_ in spec_text.split('\n'):
                        st = ln_.strip()
                        if st and '//@' not in ln_ and not st.startswith('decreases') and st not in ('invariant', 'ensures', 'invariant_except_break') \
                                and not st.startswith('//'):
                            ln_ = ln_ + '    //@%s:loop-invariant' % tagp
                        outl.append(ln_)
                    return '\n'.join(outl)
                ins = [(a, b, c, d, _tag(sp)) for (a, b, c, d, sp) in ins]
            for kwoff, broff, kw, itname, spec in sorted(ins, key=lambda t: -t[1]):
                lg = ('\n' + _indent(e.loop_ghost, 12)) if e.loop_ghost else ''
                body = body[:broff] + '\n' + _indent(spec, 8) + '\n    {' + lg + body[broff + 1:]
                if itname:
                    # for PAT in EXPR  ->  for PAT in itname: EXPR
                    seg = body[kwoff:broff]
                    m = re.match(r'(for\s+.*?\sin\s)', seg, re.S)
                    if not m:
                        raise Undecided('cannot name iterator of loop in %s' % e.qualname)
                    body = body[:kwoff + m.end()] + itname + ': ' + body[kwoff + m.end():]
        # ghost insertions (proof blocks / proof asserts; never executable code)
        strlits = sorted(set(_string_literals(body)))
        for g in e.ghost:
            anchor, where, gtext = g[0], g[1], g[2]
            if '@@REVEAL_STRLITS@@' in gtext:
                gtext = gtext.replace('@@REVEAL_STRLITS@@', ' '.join('reveal_strlit(%s);' % l for l in strlits))
            if '@@STRLIT_FACTS@@' in gtext:
                # reveal_strlit is scoped to its block: state length and characters of every (escape-free) literal so that they persist
                facts = []
                for l in strlits:
                    inner = l[1:-1]
                    facts.append('reveal_strlit(%s);' % l)
                    if '\\' not in inner:
                        facts.append('assert(%s);' % ' && '.join(['%s@.len() == %d' % (l, len(inner))] + ["%s@[%d] == '%s'" % (l, i_, c_ if c_ != "'" else "\\'") for i_, c_ in enumerate(inner)]))
                gtext = gtext.replace('@@STRLIT_FACTS@@', '\n'.join(facts))
            occ = g[3] if len(g) > 3 else 1
            idx = -1
            pos = 0
            gmask = RustFile('<fn>', body).code
            for _ in range(occ):
                idx = body.find(anchor, pos)
                while idx >= 0 and not gmask[idx]:      # occurrences inside comments are not anchors
                    idx = body.find(anchor, idx + 1)
                if idx < 0:
                    break
                pos = idx + 1
            if idx < 0:
                raise Undecided('ghost anchor %r (occurrence %d) not found in %s' % (anchor, occ, e.qualname))
            if where == 'after':
                p = idx + len(anchor)
            else:
                p = idx
            body = body[:p] + '\n' + _indent(gtext, 8) + '\n' + body[p:]
        pre = []
        if e.trusted:
            pre.append('#[verifier::external_body]')
        if e.nodecreases:
            pre.append('#[verifier::exec_allows_no_decreases_clause]')
        pre += list(e.attrs)
        spec = ('\n' + _indent(e.spec.strip('\n'), 4) + '\n') if e.spec else ' '
        if e.trusted:
            body = '{ unimplemented!() }'
            sig = re.sub(r'([(,]\s*)mut\s+', r'\1', sig)   # `mut` bindings of by-value params are body-local
        new_text = sig.rstrip() + spec + body
        # origin per generated line: match against original lines
        olines = orig_text.split('\n')
        nlines = new_text.split('\n')
        sm = difflib.SequenceMatcher(a=[l.strip() for l in olines], b=[l.strip() for l in nlines], autojunk=False)
        origin = [None] * len(nlines)
        for tag, i1, i2, j1, j2 in sm.get_opcodes():
            if tag == 'equal':
                for k in range(j2 - j1):
                    origin[j1 + k] = e.orig_start_line + i1 + k
        for a in pre:
            out.append((a, (e, None)))
        for k, ln in enumerate(nlines):
            out.append((ln, (e, origin[k])))
        e.file_obj = rf
        tw = twin_for_entry(e, sig)
        if tw:
            for ln in tw.split('\n'):
                out.append((ln, None))
            self.twin_names.append(e.name + '__vacuity')


def _impl_header_text(h):
    # 'impl Foo' / 'impl<T> Trait for Foo' -> text after 'impl'
    return h[len('impl'):].strip()


def _indent(text, n):
    pad = ' ' * n
    return '\n'.join(pad + l if l.strip() else l for l in text.strip('\n').split('\n'))


def _short(s, n=70):
    s = ' '.join(s.split())
    return s if len(s) <= n else s[:n - 3] + '...'


_VIS = re.compile(r'\bpub\((?:crate|super|in [^)]*)\)\s*')


def _widen_vis(text):
    """D5: pub(crate)/pub(super) -> pub ; private fields/items are left as they are unless the
    unit asks (visibility has no run-time meaning)."""
    return _VIS.sub('pub ', text)


SUPPORTED_KEEP = {'Clone', 'Copy', 'PartialEq', 'Eq'}


def _derive_plan(e, derives):
    """returns (derives to keep as #[derive], generated impl texts)."""
    if not derives:
        return [], []
    mode = e.derive or 'assume'
    name = e.name
    G = getattr(e, 'generics', '') or ''          # e.g. <'a, T: Foo>
    args = ''
    if G:
        args = '<' + ', '.join(a.split(':')[0].strip() for a in G[1:-1].split(',')) + '>'
    def I(trait, body):
        return 'impl%s %s for %s%s %s' % (G, trait, name, args, body)
    name_a = name + args
    keep, gen = [], []
    if mode == 'keep':
        keep = [d for d in derives if d in SUPPORTED_KEEP]
        rest = [d for d in derives if d not in SUPPORTED_KEEP]
    else:
        rest = list(derives)
    for d in rest:
        if d == 'PartialEq':
            gen.append(I('vstd::std_specs::cmp::PartialEqSpecImpl', '{ open spec fn obeys_eq_spec() -> bool { true } open spec fn eq_spec(&self, other: &%s) -> bool { *self == *other } }' % name_a))
            gen.append(I('std::cmp::PartialEq', '{ #[verifier::external_body] fn eq(&self, other: &Self) -> (r: bool) { unimplemented!() } }'))
        elif d == 'Eq':
            gen.append(I('std::cmp::Eq', '{}'))
        elif d == 'Clone':
            gen.append(I('std::clone::Clone', '{ #[verifier::external_body] fn clone(&self) -> (r: Self) ensures r == *self { unimplemented!() } }'))
        elif d == 'Copy':
            gen.append(I('std::marker::Copy', '{}'))
        elif d == 'Debug':
            gen.append(I('vstd::std_specs::fmt::DebugSpecImpl', "{ open spec fn fmt_req(&self, f: &std::fmt::Formatter<'_>) -> bool { true } }"))
            gen.append(I('std::fmt::Debug', "{ #[verifier::external_body] fn fmt(&self, f: &mut std::fmt::Formatter<'_>) -> std::fmt::Result { unimplemented!() } }"))
        elif d in ('Hash', 'BoolEnum', 'PartialOrd', 'Ord', 'Default'):
            pass  # dropped: not used by any verified body (extraction fails to type-check otherwise)
    return keep, gen


def _derived_default_impl(rf, header):
    """text of the impl that `#[derive(Default)]` generates for the struct named in `Default for NAME`, or None"""
    m = re.fullmatch(r'Default for (\w+)', header.strip())
    if not m:
        return None
    name = m.group(1)
    for sm in rf.code_finditer(r'\bstruct\s+%s\b[^;{(]*\{' % re.escape(name), 0, len(rf.src)):
        # attributes directly above the struct
        head = rf.src[:sm.start()]
        attrs = re.search(r'((?:\s*(?:#\[[^\]]*\]|///[^\n]*|//[^\n]*|pub(?:\([^)]*\))?))*\s*)$', head)
        if not attrs or not re.search(r'#\[derive\([^)]*\bDefault\b[^)]*\)\]', attrs.group(1)):
            return None
        bo = sm.end() - 1
        be = rf.match_brace(bo)
        body = rf.src[bo + 1:be - 1] if rf.src[be - 1] == '}' else rf.src[bo + 1:be]
        code = ''.join(c if rf.code[bo + 1 + i] else ' ' for i, c in enumerate(body))
        fields = re.findall(r'(?:^|,)\s*(?:pub(?:\([^)]*\))?\s+)?(\w+)\s*:', code)
        if not fields:
            return None
        return 'impl Default for %s {\n    fn default() -> Self {\n        %s { %s }\n    }\n}\n' % (
            name, name, ', '.join('%s: Default::default()' % f_ for f_ in fields))
    return None


def _strip_comments(s):
    return re.sub(r'//[^\n]*', '', s)


def twin_for_entry(e, sig_text):
    """Vacuity guard: a proof-mode copy of a contract's precondition, `requires R ensures false`,
    which must FAIL (it verifies only if R is contradictory)."""
    if not e.spec or not re.search(r'\brequires\b', _strip_comments(e.spec)):
        return None
    m = re.search(r'\brequires\b(.*?)(?=\bensures\b|\bdecreases\b|\Z)', _strip_comments(e.spec), re.S)
    if not m:
        return None
    req = m.group(1).strip().rstrip(',')
    if not req or req == 'false':
        return None      # `requires false`: the function is declared unreachable on purpose; every call site must prove that
    sig_text = _strip_comments(sig_text)
    pm = re.search(r'\bfn\s+\w+\s*(<[^()]*>)?\s*\(', sig_text)
    if not pm:
        return None
    i = pm.end()
    d = 1
    j = i
    while j < len(sig_text) and d > 0:
        if sig_text[j] == '(':
            d += 1
        elif sig_text[j] == ')':
            d -= 1
        j += 1
    params = sig_text[i:j - 1]
    generics = pm.group(1) or ''
    params = re.sub(r'&\s*mut\s+self\b', '&self', params)
    params = re.sub(r'(?<![\w&])mut\s+self\b', 'self', params)
    params = re.sub(r'&\s*mut\s+', '&', params)
    params = re.sub(r'\bmut\s+(\w+\s*:)', r'\1', params)
    req = re.sub(r'\bold\(\s*(\w+)\s*\)', r'\1', req)
    where = ''
    wm = re.search(r'\bwhere\b(.*)$', sig_text[j:], re.S)
    if wm:
        where = ' where ' + ' '.join(wm.group(1).split())
    return 'proof fn %s__vacuity%s(%s)%s\n    requires %s,\n    ensures false,\n{}' % (
        e.name, generics, ' '.join(params.split()), where, req)


def _pub_fields(text):
    """D5 for fields: every field of a copied struct becomes `pub` (specs must be able to name it)."""
    m = re.match(r'((?:pub\s+)?struct\s+\w+\s*(?:<[^>{(;]*>)?\s*)\((.*)\)\s*;\s*$', text, re.S)
    if m:   # tuple struct
        parts, depth, cur = [], 0, ''
        for ch in m.group(2):
            if ch in '(<[':
                depth += 1
            elif ch in ')>]':
                depth -= 1
            if ch == ',' and depth == 0:
                parts.append(cur)
                cur = ''
            else:
                cur += ch
        if cur.strip():
            parts.append(cur)
        parts = [p_ if re.match(r'\s*pub\b', p_) else ' pub ' + p_.strip() for p_ in parts]
        return m.group(1) + '(' + ','.join(parts).strip() + ');'
    out = []
    depth = 0
    for ln in text.split('\n'):
        if depth == 1 and re.match(r'\s*(?!pub\b)(r#)?[a-z_]\w*\s*:', ln):
            ln = re.sub(r'^(\s*)', r'\1pub ', ln, count=1)
        depth += ln.split('//')[0].count('{') - ln.split('//')[0].count('}')
        out.append(ln)
    return '\n'.join(out)


def _string_literals(text):
    """every plain "..." literal of a code text (comments skipped)"""
    rf = RustFile('<lits>', text)
    out = []
    i = 0
    n = len(text)
    while i < n:
        if text[i] == '"' and not rf.code[i] and (i == 0 or rf.code[i - 1] or text[i - 1] in ' (=,'):
            # find the end of this literal: next index where code resumes
            j = i + 1
            while j < n and text[j] != '"':
                if text[j] == '\\':
                    j += 1
                j += 1
            lit = text[i:j + 1]
            # make sure we are at a literal start (not inside a comment)
            ls = text.rfind('\n', 0, i) + 1
            if '//' not in text[ls:i]:
                out.append(lit)
            i = j + 1
        else:
            i += 1
    return out


def split_or_guards(text):
    """D1, applied mechanically: in every `match`, an arm `P1 | P2 | .. if G => E` becomes
    `P1 if G => E, P2 if G => E, ..` (definition of or-patterns with a guard)."""
    rf = RustFile('<d1>', text)
    n = len(text)
    count = 0
    out = []
    i = 0

    def depth0_find(start, end, targets):
        d = 0
        j = start
        while j < end:
            if rf.code[j]:
                c = text[j]
                if d == 0:
                    for t in targets:
                        if text.startswith(t, j):
                            return j, t
                if c in '([{':
                    d += 1
                elif c in ')]}':
                    d -= 1
                    if d < 0:
                        return -1, None
            j += 1
        return -1, None

    def process(lo, hi):
        nonlocal count
        res = []
        pos = lo
        for m in re.compile(r'\bmatch\b').finditer(text, lo, hi):
            if m.start() < pos or not rf.code[m.start()]:
                continue
            # opening brace of the match body
            b, _ = depth0_find(m.end(), hi, ['{'])
            if b < 0:
                continue
            e = rf.match_brace(b)
            res.append(text[pos:b + 1])
            # arms
            k = b + 1
            while True:
                # skip whitespace/comments (not a leading char / string literal pattern, which is non-code in the mask as well)
                while k < e - 1:
                    if text[k].isspace():
                        k += 1
                    elif not rf.code[k] and (text.startswith('//', k) or text.startswith('/*', k)):
                        k += 2
                        while k < e - 1 and not rf.code[k]:
                            k += 1
                    else:
                        break
                if k >= e - 1:
                    break
                arrow, _ = depth0_find(k, e - 1, ['=>'])
                if arrow < 0:
                    break
                head = text[k:arrow]
                body_start = arrow + 2
                while body_start < e - 1 and text[body_start].isspace():
                    body_start += 1
                if text[body_start] == '{' and rf.code[body_start]:
                    body_end = rf.match_brace(body_start)
                    body = '{' + process(body_start + 1, body_end - 1) + '}'
                    nxt = body_end
                    while nxt < e - 1 and text[nxt].isspace():
                        nxt += 1
                    if nxt < e - 1 and text[nxt] == ',':
                        nxt += 1
                else:
                    comma, _ = depth0_find(body_start, e - 1, [','])
                    body_end = comma if comma >= 0 else e - 1
                    body = process(body_start, body_end)
                    nxt = body_end + 1 if comma >= 0 else body_end
                # split head into pattern alternatives and guard
                hrf_start = k
                g, _ = depth0_find(hrf_start, arrow, [' if ', '\nif ', '\tif '])
                guard = None
                pat = head
                if g >= 0:
                    pat = text[k:g]
                    guard = text[g:arrow].strip()[2:].strip()
                alts = []
                d = 0
                cur = ''
                for idx in range(k, k + len(pat)):
                    ch = text[idx]
                    if rf.code[idx]:
                        if ch in '([{':
                            d += 1
                        elif ch in ')]}':
                            d -= 1
                        elif ch == '|' and d == 0:
                            alts.append(cur)
                            cur = ''
                            continue
                    cur += ch
                alts.append(cur)
                alts = [a.strip() for a in alts if a.strip()]
                if guard is not None and len(alts) > 1:
                    count += 1
                    for a in alts:
                        res.append('\n        %s if %s => %s,' % (a, guard, body))
                else:
                    res.append('\n        ' + head.strip() + ' => ' + body + ',')
                k = nxt
            res.append('\n    }')
            pos = e
        res.append(text[pos:hi])
        return ''.join(res)

    new = process(0, n)
    return (new, count) if count else (text, 0)
