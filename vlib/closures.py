"""D16 / D3 (generic): closures that capture `&mut` state are outside the Verus dialect.  The two
shapes the analyser uses are rewritten by RULE (no per-site text), on the extracted text, every run:

  Option receiver
    RECV.map(|P| B)                 ->  match RECV { Some(P) => Some(B), None => None }
    RECV.and_then(|P| B)            ->  match RECV { Some(P) => B, None => None }
    RECV.map_or_else(|| A, |P| B)   ->  match RECV { Some(P) => B, None => A }
    RECV.map_or(D, |P| B)           ->  match RECV { Some(P) => B, None => D }        (D a plain value)
    RECV.is_some_and(|P| B)         ->  match RECV { Some(P) => B, None => false }
    RECV.filter(|p| B)              ->  match RECV { Some(oq3_x) => { let oq3_keep = { let p = &oq3_x; B }; if oq3_keep { Some(oq3_x) } else { None } }, None => None }
    RECV.unwrap_or_else(|| A)       ->  match RECV { Some(x) => x, None => A }
    RECV.map(Enum::Variant)         ->  match RECV { Some(oq3_x) => Some(Enum::Variant(oq3_x)), None => None }
  Iterator receiver (the call is followed by `.collect()` / `.collect::<..>()`)
    RECV.map(|P| B).collect()       ->  { let mut oq3_itK = RECV; let mut oq3_vK = Vec::new();
                                          loop { match oq3_itK.next() { Some(P) => { let oq3_eK = B; oq3_vK.push(oq3_eK); }
                                                                        None => { break; } } }
                                          oq3_vK }
    RECV.filter_map(|P| B).collect() -> same, with `match B { Some(oq3_eK) => { oq3_vK.push(oq3_eK); } None => {} }`
    RECV.map(|P| B).for_each(drop)   ->  { let mut oq3_itK = RECV; loop { match oq3_itK.next() { Some(P) => { B; } None => { break; } } } }
                                         (the adapter is driven to the end and every result is dropped)

These are the definitions of Option::map / and_then / map_or_else and of Iterator::map / filter_map
followed by Vec's FromIterator (elements pushed in iteration order); evaluation order of RECV, P and
B is unchanged.  K numbers the rewritten sites of one function from the END of its text (the
right-most site is 1): names are stable when code is added before a site's function-relative end.
Anything else (typed / `move` closures, other adapters, non-Vec collect targets) is left alone and
is then rejected by Verus => UNDECIDED, never a verdict."""
import re

from .rustsrc import RustFile

METHODS = ('map', 'and_then', 'filter_map', 'filter', 'map_or_else', 'map_or', 'is_some_and', 'unwrap_or_else')
_CALL = re.compile(r'\.\s*(map_or_else|map_or|map|and_then|filter_map|filter|is_some_and|unwrap_or_else)\s*\(\s*(?:\||[^()|]*,\s*\|)')
_MAP_PATH = re.compile(r'\.\s*map\s*\(\s*([A-Z][A-Za-z0-9_]*(?:::[A-Za-z_][A-Za-z0-9_]*)+)\s*\)')
_FOR_EACH_DROP = re.compile(r'\s*\.\s*for_each\s*\(\s*drop\s*\)')
_COLLECT = re.compile(r'\s*\.\s*collect\s*(::\s*<\s*Vec\s*<\s*_\s*>\s*>)?\s*\(\s*\)')


class NoRule(Exception):
    pass


def _match_close(text, code, i):
    """text[i] is an opening bracket; index of its partner"""
    opn = text[i]
    cls = {'(': ')', '[': ']', '{': '}'}[opn]
    d = 0
    j = i
    while j < len(text):
        if code[j]:
            c = text[j]
            if c == opn:
                d += 1
            elif c == cls:
                d -= 1
                if d == 0:
                    return j
        j += 1
    raise NoRule('unbalanced %s' % opn)


def _match_open(text, code, i):
    cls = text[i]
    opn = {')': '(', ']': '[', '}': '{'}[cls]
    d = 0
    j = i
    while j >= 0:
        if code[j]:
            c = text[j]
            if c == cls:
                d += 1
            elif c == opn:
                d -= 1
                if d == 0:
                    return j
        j -= 1
    raise NoRule('unbalanced %s' % cls)


def _ws_back(text, code, i):
    """largest j <= i such that text[j-1] is code and not whitespace (comments count as whitespace)"""
    j = i
    while j > 0 and (not code[j - 1] or text[j - 1].isspace()):
        j -= 1
    return j


def _ident_back(text, j):
    k = j
    while True:
        k0 = k
        while k > 0 and (text[k - 1].isalnum() or text[k - 1] == '_'):
            k -= 1
        if k != k0 and k >= 2 and text[k - 2:k] == '::':
            k -= 2
            continue
        if k == k0 and k0 != j:
            k += 2          # dangling `::` without a path segment before it: not part of the path
        return k


def _recv_start(text, code, dot):
    i = dot
    while True:
        j = _ws_back(text, code, i)
        if j == 0:
            raise NoRule('no receiver')
        c = text[j - 1]
        if c in ')]':
            j = _match_open(text, code, j - 1)
            j = _ident_back(text, j)
        elif c == '?':
            i = j - 1
            continue
        elif c.isalnum() or c == '_':
            j = _ident_back(text, j)
        else:
            raise NoRule('receiver ends with %r' % c)
        p = _ws_back(text, code, j)
        if p >= 1 and text[p - 1] == '.' and not (p >= 2 and text[p - 2] == '.'):
            i = p - 1
            continue
        if text[j:j + 1].isdigit():
            raise NoRule('numeric receiver')
        return j


def _split_args(text, code, lo, hi):
    """depth-0 commas of text[lo:hi]"""
    parts = []
    d = 0
    start = lo
    inbar = False
    for k in range(lo, hi):
        if not code[k]:
            continue
        c = text[k]
        if c in '([{':
            d += 1
        elif c in ')]}':
            d -= 1
        elif c == ',' and d == 0:
            parts.append((start, k))
            start = k + 1
    parts.append((start, hi))
    return [(a, b) for a, b in parts if text[a:b].strip()]


def _closure(text, code, lo, hi):
    """text[lo:hi] is `|P| BODY` or `|| BODY`; returns (P, BODY)"""
    s = text[lo:hi]
    m = re.match(r'\s*\|\s*([A-Za-z_][A-Za-z0-9_]*)?\s*(?::[^|]*)?\|\s*', s)
    if not m:
        raise NoRule('closure parameter list %r' % s[:30])
    body = s[m.end():].strip()
    if body.startswith('->'):
        raise NoRule('closure with declared return type')
    return m.group(1), body


def desugar_closures(text):
    """returns (new_text, [log lines]).  Raises NoRule only for malformed text; unknown shapes are left as they are."""
    log = []
    k = 0
    guard = 0
    skip_from = len(text)
    while True:
        guard += 1
        if guard > 200:
            raise NoRule('closure desugaring does not converge')
        rf = RustFile('<fn>', text)
        code = rf.code
        cands = [m for m in _CALL.finditer(text, 0, skip_from) if code[m.start()]]
        pm_ = [m for m in _MAP_PATH.finditer(text) if code[m.start()]]
        if pm_:
            # RECV.map(Path)  ->  match RECV { Some(oq3_x) => Some(Path(oq3_x)), None => None }   (Option::map with a constructor)
            m = pm_[-1]
            try:
                recv0 = _recv_start(text, code, m.start())
            except NoRule as ex:
                raise NoRule('`.map(%s)`: %s' % (m.group(1), ex))
            recv = text[recv0:m.start()].rstrip()
            text = text[:recv0] + 'match %s { Some(oq3_x) => Some(%s(oq3_x)), None => None }' % (recv, m.group(1)) + text[m.end():]
            log.append('D3 Option::map(%s): `%s…`' % (m.group(1), ' '.join(recv.split())[:50]))
            skip_from = len(text)
            continue
        if not cands:
            return text, log
        m = cands[-1]
        meth = m.group(1)
        dot = m.start()
        po = text.index('(', m.start(1))
        try:
            pc = _match_close(text, code, po)
            args = _split_args(text, code, po + 1, pc)
            recv0 = _recv_start(text, code, dot)
            recv = text[recv0:dot].rstrip()
            mc = _COLLECT.match(text, pc + 1)
            # RECV.map(|P| B).filter(F).collect(): an iterator filter between the adapter and the collect (F a path such as
            # Result::is_ok, or a closure |x| C over a reference to the element)
            keep = None
            if not mc and meth in ('map', 'filter_map'):
                q = pc + 1
                while q < len(text) and (not code[q] or text[q].isspace()):
                    q += 1
                if text.startswith('.filter(', q):
                    fpo = q + len('.filter')
                    fpc = _match_close(text, code, fpo)
                    farg = text[fpo + 1:fpc].strip()
                    mc2 = _COLLECT.match(text, fpc + 1)
                    if mc2:
                        if re.fullmatch(r'[A-Za-z_][\w:]*', farg):
                            keep = lambda e_, farg=farg: '%s(&%s)' % (farg, e_)
                        else:
                            fp, fbody = _closure(text, code, fpo + 1, fpc)
                            if fp is None:
                                raise NoRule('filter closure without parameter')
                            keep = lambda e_, fp=fp, fbody=fbody: '{ let %s = &%s; %s }' % (fp, e_, fbody)
                        mc = mc2
            if meth == 'map_or':
                # RECV.map_or(D, |P| B)  ->  match RECV { Some(P) => B, None => D }   (D is evaluated eagerly by map_or: only
                # rewritten when D is a path / literal, whose evaluation has no effect)
                if len(args) != 2 or mc:
                    raise NoRule('map_or shape')
                dflt = text[args[0][0]:args[0][1]].strip()
                if not re.match(r'^[\w:.]+$', dflt):
                    raise NoRule('map_or default is not a plain value')
                p1, b_body = _closure(text, code, *args[1])
                if p1 is None:
                    raise NoRule('map_or closure')
                new = 'match %s { Some(%s) => %s, None => %s }' % (recv, p1, b_body, dflt)
                end = pc + 1
                rule = 'D3 Option::map_or'
            elif meth == 'is_some_and':
                if len(args) != 1 or mc:
                    raise NoRule('is_some_and shape')
                p1, b_body = _closure(text, code, *args[0])
                if p1 is None:
                    raise NoRule('is_some_and closure')
                new = '(match %s { Some(%s) => %s, None => false })' % (recv, p1, b_body)      # (parenthesised: a block-like expression at the start of a statement would end it)
                end = pc + 1
                rule = 'D3 Option::is_some_and'
            elif meth == 'filter':
                # Option::filter: the predicate sees a reference to the payload
                if len(args) != 1 or mc:
                    raise NoRule('filter shape (iterator filters are not covered)')
                p1, b_body = _closure(text, code, *args[0])
                if p1 is None or not re.fullmatch(r'[A-Za-z_]\w*', p1.strip()):
                    raise NoRule('filter closure parameter is not a plain identifier')
                new = ('match %s { Some(oq3_x) => { let oq3_keep = { let %s = &oq3_x; %s }; if oq3_keep { Some(oq3_x) } else { None } }, None => None }'
                       % (recv, p1.strip(), b_body))
                end = pc + 1
                rule = 'D3 Option::filter'
            elif meth == 'unwrap_or_else':
                if len(args) != 1 or mc:
                    raise NoRule('unwrap_or_else shape')
                p0, a_body = _closure(text, code, *args[0])
                if p0 is not None:
                    raise NoRule('unwrap_or_else closure takes a parameter (Result?)')
                new = 'match %s { Some(oq3_x) => oq3_x, None => %s }' % (recv, a_body)
                end = pc + 1
                rule = 'D3 Option::unwrap_or_else'
            elif meth == 'map_or_else':
                if len(args) != 2 or mc:
                    raise NoRule('map_or_else shape')
                p0, a_body = _closure(text, code, *args[0])
                p1, b_body = _closure(text, code, *args[1])
                if p0 is not None or p1 is None:
                    raise NoRule('map_or_else closures')
                new = 'match %s { Some(%s) => %s, None => %s }' % (recv, p1, b_body, a_body)
                end = pc + 1
                rule = 'D3 Option::map_or_else'
            else:
                if len(args) != 1:
                    raise NoRule('closure call with %d arguments' % len(args))
                p, body = _closure(text, code, *args[0])
                if p is None:
                    raise NoRule('closure without parameter')
                mfd = _FOR_EACH_DROP.match(text, pc + 1)
                if mfd and meth == 'map' and not mc:
                    k += 1
                    it = 'oq3_it%d' % k
                    new = ('{ let mut %s = %s;\n loop {\n match %s.next() {\n Some(%s) => { %s; }\n None => { break; }\n }\n }\n }' % (it, recv, it, p, body))
                    end = mfd.end()
                    rule = 'D16 Iterator::map + for_each(drop) -> loop (%s)' % it
                elif mc:
                    if meth == 'and_then':
                        raise NoRule('and_then before collect')
                    k += 1
                    it, v, e = 'oq3_it%d' % k, 'oq3_v%d' % k, 'oq3_e%d' % k
                    push = '%s.push(%s);' % (v, e) if keep is None else 'let oq3_keep = %s; if oq3_keep { %s.push(%s); }' % (keep(e), v, e)
                    if meth == 'map':
                        arm = '{ let %s = %s; %s }' % (e, body, push)
                    else:
                        arm = '{ match %s { Some(%s) => { %s } None => {} } }' % (body, e, push)
                    new = ('{ let mut %s = %s; let mut %s = Vec::new();\n loop {\n match %s.next() {\n Some(%s) => %s\n None => { break; }\n }\n }\n %s }'
                           % (it, recv, v, it, p, arm, v))
                    end = mc.end()
                    rule = 'D16 Iterator::%s%s + collect -> loop (%s, %s)' % (meth, ' + filter' if keep is not None else '', it, v)
                else:
                    if meth == 'filter_map':
                        raise NoRule('filter_map without collect')
                    if meth == 'map':
                        new = 'match %s { Some(%s) => Some(%s), None => None }' % (recv, p, body)
                    else:
                        new = 'match %s { Some(%s) => %s, None => None }' % (recv, p, body)
                    end = pc + 1
                    rule = 'D3 Option::%s' % meth
        except NoRule as ex:
            # leave the site alone (Verus will reject it if it is outside the dialect) and go on with earlier sites
            log.append('closure at `%s` left as is: %s' % (' '.join(text[dot:dot + 40].split()), ex))
            skip_from = dot
            continue
        log.append('%s: `%s…`' % (rule, ' '.join(text[recv0:recv0 + 60].split())))
        text = text[:recv0] + new + text[end:]
        skip_from = len(text)


# ---------------------------------------------------------------------------------------------
# D17: `with_scope!(ctxt, scope, stmt; stmt; ..)` expanded by its own definition (second arm of the
# macro in context.rs).  The definition is read from /repo on every run and compared with the text
# this expansion implements; any difference => UNDECIDED.
WITH_SCOPE_DEF = """macro_rules! with_scope {
    ($val:expr) => { 2 };
    ($ctxt:ident, $scope:path, $($code:stmt);+ $(;)?) => {
        $ctxt.symbol_table.enter_scope($scope);
        $($code)+
        $ctxt.symbol_table.exit_scope();
    };

    ($ctxt:ident, $scope:path, $code:block) => {
        $ctxt.symbol_table.enter_scope($scope);
        $code;
        $ctxt.symbol_table.exit_scope();
    };
}"""


def expand_with_scope(text, macro_def_text):
    """returns (new_text, n).  Raises NoRule if the macro changed or an invocation has another shape."""
    norm = lambda t: ' '.join(t.split())
    if norm(WITH_SCOPE_DEF) not in norm(macro_def_text):
        raise NoRule('the definition of with_scope! in context.rs differs from the one D17 expands')
    n = 0
    while True:
        rf = RustFile('<fn>', text)
        code = rf.code
        m = None
        for mm in re.finditer(r'\bwith_scope!\s*\(', text):
            if code[mm.start()]:
                m = mm
        if m is None:
            return text, n
        po = m.end() - 1
        pc = _match_close(text, code, po)
        args = _split_args(text, code, po + 1, pc)
        if len(args) < 3:
            raise NoRule('with_scope! with %d arguments' % len(args))
        ctxt = text[args[0][0]:args[0][1]].strip()
        scope = text[args[1][0]:args[1][1]].strip()
        body = text[args[2][0]:pc].strip()
        if not re.match(r'^[A-Za-z_]\w*$', ctxt) or body.startswith('{'):
            raise NoRule('with_scope! shape (block arm or non-identifier context)')
        if not body.endswith(';'):
            body += ';'
        end = pc + 1
        k = end
        while k < len(text) and text[k].isspace():
            k += 1
        if k < len(text) and text[k] == ';':
            end = k + 1
        new = '%s.symbol_table.enter_scope(%s);\n%s\n%s.symbol_table.exit_scope();' % (ctxt, scope, body, ctxt)
        text = text[:m.start()] + new + text[end:]
        n += 1


# ---------------------------------------------------------------------------------------------
# D20: `match X { "a" => E1, "b" | "c" => E2, _ => D }` on a `&str` scrutinee  ->
#      `if X == "a" { E1 } else if X == "b" || X == "c" { E2 } else { D }`.
# String-literal patterns compare by value (str: PartialEq), arms are tried in order: this is the
# definition of the match.  (Verus accepts the match form but gives the later arms no negative
# information, so completeness of a keyword table cannot be proved on it.)
_STR_MATCH = re.compile(r'\bmatch\s+([^{};]+?)\s*\{\s*"')


def desugar_str_match(text):
    log = []
    while True:
        rf = RustFile('<fn>', text)
        code = rf.code
        m = None
        for mm in _STR_MATCH.finditer(text):
            if code[mm.start()]:
                m = mm
                break
        if m is None:
            return text, log
        scrut = m.group(1)
        bo = text.index('{', m.start())
        bc = _match_close(text, code, bo)
        arms = _split_args(text, code, bo + 1, bc)
        conds = []
        default = None
        for a, b in arms:
            arm = text[a:b].strip()
            mm = re.match(r'^((?:"(?:[^"\\]|\\.)*"\s*\|\s*)*"(?:[^"\\]|\\.)*")\s*=>\s*(.*)$', arm, re.S)
            if mm:
                if default is not None:
                    raise NoRule('arm after the default arm')
                lits = re.findall(r'"(?:[^"\\]|\\.)*"', mm.group(1))
                conds.append((lits, mm.group(2).strip()))
                continue
            md = re.match(r'^_\s*=>\s*(.*)$', arm, re.S)
            if md and default is None:
                default = md.group(1).strip()
                continue
            raise NoRule('str match arm %r' % arm[:40])
        if default is None or not conds:
            raise NoRule('str match without default arm')
        parts = []
        for lits, rhs in conds:
            parts.append('if %s { %s }' % (' || '.join('%s == %s' % (scrut, l) for l in lits), rhs))
        new = ' else '.join(parts) + ' else { %s }' % default
        if not re.fullmatch(r'[A-Za-z_][A-Za-z0-9_]*', scrut):
            # a scrutinee that is not a plain local is evaluated once, by a `match` with a single binding arm
            # (temporaries of the scrutinee live as long as they do in the original `match`)
            new = 'match %s { oq3_s => { %s } }' % (scrut, new.replace(scrut + ' == ', 'oq3_s == '))
        log.append('D20 match on &str `%s`: %d literal arm(s) -> if / else-if chain' % (scrut, len(conds)))
        text = text[:m.start()] + new + text[bc + 1:]


# ---------------------------------------------------------------------------------------------
# D18: `for PAT in NAME { BODY }` where NAME is a local holding an iterator the dialect has no
# for-loop support for (rowan's AstChildren)  ->  `let mut oq3_itfK = NAME; loop { match
# oq3_itfK.next() { None => { break; } Some(PAT) => { BODY } } }` (the definition of `for`).
# D21: destructuring assignment `(a, b) = EXPR;`  ->  `let (oq3_t1, oq3_t2) = EXPR; a = oq3_t1; b = oq3_t2;`
def desugar_for_iter(text, names):
    log = []
    k = 0
    for name in names:
        while True:
            rf = RustFile('<fn>', text)
            code = rf.code
            m = None
            for mm in re.finditer(r'\bfor\s+([^{};]+?)\s+in\s+' + re.escape(name) + r'\s*\{', text):
                if code[mm.start()]:
                    m = mm
                    break
            if m is None:
                break
            k += 1
            bo = m.end() - 1
            bc = _match_close(text, code, bo)
            it = 'oq3_itf%d' % k
            new = ('let mut %s = %s;\n loop {\n match %s.next() {\n None => { break; }\n Some(%s) => {%s}\n }\n }'
                   % (it, name, it, m.group(1).strip(), text[bo + 1:bc]))
            text = text[:m.start()] + new + text[bc + 1:]
            log.append('D18 for over `%s` -> loop / match next (%s)' % (name, it))
    return text, log


def desugar_destructuring_assignment(text):
    log = []
    k = 0
    while True:
        rf = RustFile('<fn>', text)
        code = rf.code
        m = None
        for mm in re.finditer(r'(?m)^(\s*)\(\s*([A-Za-z_]\w*)\s*,\s*([A-Za-z_]\w*)\s*\)\s*=(?!=)', text):
            if code[mm.start(2)]:
                m = mm
                break
        if m is None:
            return text, log
        # end of the statement: the `;` at depth 0
        d = 0
        j = m.end()
        while j < len(text):
            if code[j]:
                c = text[j]
                if c in '([{':
                    d += 1
                elif c in ')]}':
                    d -= 1
                elif c == ';' and d == 0:
                    break
            j += 1
        if j >= len(text):
            raise NoRule('destructuring assignment without end')
        k += 1
        t1, t2 = 'oq3_t%da' % k, 'oq3_t%db' % k
        new = '%slet (%s, %s) =%s; %s = %s; %s = %s;' % (m.group(1), t1, t2, text[m.end():j], m.group(2), t1, m.group(3), t2)
        text = text[:m.start()] + new + text[j + 1:]
        log.append('D21 destructuring assignment to (%s, %s)' % (m.group(2), m.group(3)))


# ---------------------------------------------------------------------------------------------
# D40: `RECV.iter().any(|P| B)` over a Vec / slice  ->  an index loop that stops at the first element for which B holds
# (Iterator::any short-circuits in the same way).  The loop contract and a ghost hint are supplied by the caller
# (markers @@ANY_INV@@ / @@ANY_GHOST@@ are left in the text when none is given).
_ANY = re.compile(r'\.\s*iter\s*\(\s*\)\s*\.\s*any\s*\(')


def desugar_iter_any(text, inv='@@ANY_INV@@', ghost='@@ANY_GHOST@@'):
    n = 0
    while True:
        rf = RustFile('<fn>', text)
        code = rf.code
        m = None
        for mm in _ANY.finditer(text):
            if code[mm.start()]:
                m = mm
        if m is None:
            return text, n
        po = m.end() - 1
        pc = _match_close(text, code, po)
        p, body = _closure(text, code, po + 1, pc)
        if p is None:
            raise NoRule('any closure without parameter')
        recv0 = _recv_start(text, code, m.start())
        recv = text[recv0:m.start()].rstrip()
        new = ('{ let oq3_s = %s; let mut oq3_i: usize = 0; let mut oq3_found = false;\n while oq3_i < oq3_s.len() && !oq3_found\n%s\n {\n %s\n let %s = &oq3_s[oq3_i];\n if %s { oq3_found = true; }\n oq3_i += 1;\n }\n oq3_found }'
               % (recv, inv, ghost, p, body))
        text = text[:recv0] + new + text[pc + 1:]
        n += 1
