//! `kf <finding-id>`: exit 0 and print REPRODUCED if the known finding still manifests on the real
//! code, exit 3 and print NOT-REPRODUCED otherwise.  `kf --list` lists the ids.
use oq3_semantics::types::{promote_types, IsConst, Type};
use std::process::exit;

fn c(b: bool) -> IsConst {
    if b { IsConst::True } else { IsConst::False }
}

type Check = fn() -> (bool, String);

fn table() -> Vec<(&'static str, Check)> {
    vec![
        ("C20-int-uint", || {
            let r = promote_types(&Type::Int(Some(8), c(false)), &Type::UInt(Some(8), c(false)));
            (r == Type::Void, format!("promote_types(int[8], uint[8]) = {:?}", r))
        }),
        ("C20-complex-width", || {
            let r = promote_types(&Type::Complex(Some(32), c(false)), &Type::Complex(Some(64), c(false)));
            (r == Type::Void, format!("promote_types(complex[32], complex[64]) = {:?}", r))
        }),
        ("C20-narrow", || {
            let r = promote_types(&Type::Int(Some(64), c(false)), &Type::Float(Some(32), c(false)));
            (r == Type::Float(Some(32), c(false)), format!("promote_types(int[64], float[32]) = {:?}", r))
        }),
        ("C20-const-cross", || {
            let r = promote_types(&Type::Int(Some(8), c(false)), &Type::Float(Some(32), c(true)));
            (r.is_const(), format!("promote_types(int[8], const float[32]) = {:?}", r))
        }),
        ("C20-const-eq", || {
            let r = promote_types(&Type::Int(Some(8), c(true)), &Type::Int(Some(8), c(false)));
            (r.is_const(), format!("promote_types(const int[8], int[8]) = {:?}", r))
        }),
    ]
}

fn main() {
    let arg = std::env::args().nth(1).unwrap_or_default();
    if arg == "--list" {
        for (id, _) in table() {
            println!("{id}");
        }
        return;
    }
    for (id, f) in table() {
        if id == arg {
            let (rep, what) = f();
            println!("{} {}: {}", if rep { "REPRODUCED" } else { "NOT-REPRODUCED" }, id, what);
            exit(if rep { 0 } else { 3 });
        }
    }
    eprintln!("unknown finding id {arg}");
    exit(2);
}
