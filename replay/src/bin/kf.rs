//! `kf <finding-id>`: exit 0 and print REPRODUCED if the known finding still manifests on the real
//! code, exit 3 and print NOT-REPRODUCED otherwise.  `kf --list` lists the ids.
use oq3_semantics::types::{promote_types, IsConst, Type};
use std::process::exit;
use std::sync::mpsc;
use std::time::Duration;

/// outcome of running the always-parse entry point on `src` in a helper thread
#[derive(Debug, PartialEq)]
enum Run { Returned { errors: usize }, Panicked(String), Hung }

fn parse_outcome(src: &'static str) -> Run {
    let (tx, rx) = mpsc::channel();
    std::thread::spawn(move || {
        let r = std::panic::catch_unwind(|| oq3_syntax::SourceFile::parse(src).errors().len());
        let _ = tx.send(match r {
            Ok(n) => Run::Returned { errors: n },
            Err(e) => Run::Panicked(e.downcast_ref::<String>().cloned().or_else(|| e.downcast_ref::<&str>().map(|s| s.to_string())).unwrap_or_default()),
        });
    });
    rx.recv_timeout(Duration::from_secs(5)).unwrap_or(Run::Hung)
}
/// texts of all BIN_EXPR nodes of the tree of `src`
fn bin_exprs(src: &str) -> Vec<String> {
    let parse = oq3_syntax::SourceFile::parse(src);
    parse.syntax_node().descendants().filter(|n| n.kind() == oq3_syntax::SyntaxKind::BIN_EXPR).map(|n| n.text().to_string()).collect()
}
/// (syntax diagnostics, outcome of the full semantic analysis) for `src`
fn sema_outcome(src: &'static str) -> (usize, Run) {
    let nsyn = oq3_syntax::SourceFile::parse(src).errors().len() + lex_errors(src);
    let (tx, rx) = mpsc::channel();
    std::thread::spawn(move || {
        let r = std::panic::catch_unwind(|| {
            let res = oq3_semantics::syntax_to_semantics::parse_source_string(src, None);
            res.semantic_errors().len()
        });
        let _ = tx.send(match r {
            Ok(n) => Run::Returned { errors: n },
            Err(e) => Run::Panicked(e.downcast_ref::<String>().cloned().or_else(|| e.downcast_ref::<&str>().map(|s| s.to_string())).unwrap_or_default()),
        });
    });
    (nsyn, rx.recv_timeout(Duration::from_secs(5)).unwrap_or(Run::Hung))
}
/// a C03 witness: parses without any diagnostic, yet the analyser panics
fn c03(src: &'static str) -> (bool, String) {
    let (nsyn, r) = sema_outcome(src);
    (nsyn == 0 && matches!(r, Run::Panicked(_)), format!("`{}`: {} syntax diagnostics, analysis -> {:?}", src, nsyn, r))
}
/// the first statement of `src` (typed AST)
fn first_stmt(src: &str) -> Option<oq3_syntax::ast::Stmt> { oq3_syntax::SourceFile::parse(src).tree().statements().next() }
/// texts of the then- and else-body that the typed accessors of the first `if` of `src` return
fn if_bodies(src: &str) -> (String, Option<String>) {
    use oq3_syntax::ast::{AstNode, Stmt};
    use oq3_syntax::BlockOrStmt;
    let txt = |b: BlockOrStmt| match b { BlockOrStmt::BlockExpr(x) => x.syntax().text().to_string(), BlockOrStmt::Stmt(x) => x.syntax().text().to_string() };
    match first_stmt(src) {
        Some(Stmt::IfStmt(i)) => (txt(i.true_body_block_or_stmt()), i.false_body_block_or_stmt().map(txt)),
        _ => ("<no if>".to_string(), None),
    }
}
/// (diagnostics of the always-parse entry point, ERROR nodes, ERROR tokens of its tree)
fn error_elements(src: &str) -> (usize, usize, usize) {
    let parse = oq3_syntax::SourceFile::parse(src);
    let nodes = parse.syntax_node().descendants().filter(|n| n.kind() == oq3_syntax::SyntaxKind::ERROR).count();
    let toks = parse.syntax_node().descendants_with_tokens().filter(|e| e.as_token().is_some() && e.kind() == oq3_syntax::SyntaxKind::ERROR).count();
    (parse.errors().len(), nodes, toks)
}
fn lex_errors(src: &str) -> usize { oq3_parser::LexedStr::new(src).errors().count() }


fn c(b: bool) -> IsConst {
    if b { IsConst::True } else { IsConst::False }
}

type Check = fn() -> (bool, String);

fn kf_if_then() -> (bool, String) {
            let a = if_bodies("if (c) a; else {b;}");
            let b = if_bodies("if (c) a; else b;");
            let c_ = if_bodies("if (c) a;");
            let swapped = a.0.trim() == "{b;}" && a.1.as_deref().map(str::trim) == Some("a;");
            let dup = b.0.trim() == "a;" && b.1.as_deref().map(str::trim) == Some("a;");
            let ghost_else = c_.1.as_deref().map(str::trim) == Some("a;");
            (swapped || dup || ghost_else, format!("`if (c) a; else {{b;}}` -> then={:?} else={:?}; `if (c) a; else b;` -> then={:?} else={:?}; `if (c) a;` -> else={:?}", a.0, a.1, b.0, b.1, c_.1))
        }


fn table() -> Vec<(&'static str, Check)> {
    vec![
        ("C20-int-uint", || {
            let r = promote_types(&Type::Int(Some(8), c(false)), &Type::UInt(Some(8), c(false)));
            (r == Type::Void, format!("promote_types(int[8], uint[8]) = {:?}", r))
        }),
        ("C20-complex-width", || {
            let r = promote_types(&Type::Complex(Some(32), c(false)), &Type::Complex(Some(64), c(false)));
            (r == Type::Void, format!("promote_types(complex[32], complex[64]) = {:?}", r))
        }),
        ("C20-narrow", || {
            let r = promote_types(&Type::Int(Some(64), c(false)), &Type::Float(Some(32), c(false)));
            (r == Type::Float(Some(32), c(false)), format!("promote_types(int[64], float[32]) = {:?}", r))
        }),
        ("C20-const-cross", || {
            let r = promote_types(&Type::Int(Some(8), c(false)), &Type::Float(Some(32), c(true)));
            (r.is_const(), format!("promote_types(int[8], const float[32]) = {:?}", r))
        }),
        ("C05-power", || {
            let b = bin_exprs("float r = a ** b ** c;");
            let b2 = bin_exprs("float r = a * b ** c;");
            (b.iter().any(|t| t == "a ** b") && b2.iter().any(|t| t == "a * b"), format!("BIN_EXPR nodes: {:?} / {:?}", b, b2))
        }),
        ("C05-eq-rel", || {
            let b = bin_exprs("bool r = a == b < c;");
            (b.iter().any(|t| t == "a == b"), format!("BIN_EXPR nodes of `a == b < c`: {:?}", b))
        }),
        ("C05-bitwise", || {
            let b = bin_exprs("bool r = a == b & c;");
            (b.iter().any(|t| t == "b & c"), format!("BIN_EXPR nodes of `a == b & c`: {:?}", b))
        }),
        ("C12-expr-entry-error-node", || {
            let lexed = oq3_parser::LexedStr::new("1 2");
            let out = oq3_parser::TopEntryPoint::Expr.parse(&lexed.to_input());
            let mut err_nodes = 0; let mut errors = 0;
            for step in out.iter() {
                match step {
                    oq3_parser::Step::Enter { kind } if kind == oq3_parser::SyntaxKind::ERROR => err_nodes += 1,
                    oq3_parser::Step::Error { .. } => errors += 1,
                    _ => (),
                }
            }
            (err_nodes > 0 && errors == 0, format!("TopEntryPoint::Expr on `1 2`: {err_nodes} ERROR node(s), {errors} diagnostic(s)"))
        }),
        ("C03-cmp-ord", || c03("bool b = 1 < 2;")),
        ("C03-logic-op", || c03("bool a; bool b; a && b;")),
        ("C03-compound-assign", || c03("int a; a += 1;")),
        ("C03-unary-not", || c03("bool x; !x;")),
        ("C03-neg-bool", || c03("-true;")),
        ("C03-neg-timing", || c03("-3ns;")),
        ("C03-designator-expr", || c03("int[2+3] x;")),
        ("C03-designator-undeclared", || c03("int[n] x;")),
        ("C03-designator-no-value", || c03("const int n; int[n] x;")),
        ("C03-call-undeclared", || c03("f(1);")),
        ("C03-redeclare-const", || c03("const int x = 1; const int x = 2;")),
        ("C03-int-literal-overflow", || c03("340282366920938463463374607431768211456;")),
        ("C03-tuple-expr", || {
            let (a, wa) = c03("int x; x = (());");
            let (b, wb) = c03("int x; x = ();");
            (a && b, format!("{wa}; {wb}"))
        }),
        ("C03-array-expr", || c03("int x = [1, 2];")),
        ("C03-io-array", || c03("input array[int, 3] x;")),
        ("C03-array-literal", || c03("array[int, 2] a = {1, 2};")),
        ("C03-block-expr", || c03("int x = {1};")),
        ("C03-box-expr", || c03("box { };")),
        ("C03-gphase-no-arg", || { let (a, wa) = c03("gphase();"); let (b, wb) = c03("inv @ gphase();"); (a && b, format!("{wa}; {wb}")) }),
        ("C03-empty-stmt-body", || {
            let (a, wa) = c03("if (true) ;"); let (b, wb) = c03("while (true) ;"); let (c_, wc) = c03("for int i in [0:1] ;");
            (a && b && c_, format!("{wa}; {wb}; {wc}"))
        }),
        ("C06-power-op", || {
            let res = oq3_semantics::syntax_to_semantics::parse_source_string("float a; float b; a ** b;", None);
            let dbg = format!("{:?}", res.program());
            (dbg.contains("ConcatenationOp") && !dbg.contains("PowerOp"), format!("ASG of `a ** b;`: contains ConcatenationOp={} PowerOp={}", dbg.contains("ConcatenationOp"), dbg.contains("PowerOp")))
        }),
        ("C08-imaginary-int", || {
            let res = oq3_semantics::syntax_to_semantics::parse_source_string("3im;", None);
            let dbg = format!("{:?}", res.program());
            (dbg.contains("ImaginaryInt") && dbg.contains("ty: Int(Some(64), True)"), format!("ASG of `3im;`: {}", dbg))
        }),
        ("C08-decl-silent", || {
            let res = oq3_semantics::syntax_to_semantics::parse_source_string("const int[16] n = 5; int[8] y = n;", None);
            let dbg = format!("{:?}", res.program().stmts().last());
            (res.semantic_errors().len() == 0 && !dbg.contains("Cast("), format!("`const int[16] n = 5; int[8] y = n;`: {} diagnostics, last stmt {}", res.semantic_errors().len(), dbg))
        }),
        ("C08-assign-int-literal-silent", || {
            let res = oq3_semantics::syntax_to_semantics::parse_source_string("duration d; d = 1;", None);
            let dbg = format!("{:?}", res.program().stmts().last());
            (res.semantic_errors().len() == 0 && !dbg.contains("Cast("), format!("`duration d; d = 1;`: {} diagnostics, last stmt {}", res.semantic_errors().len(), dbg))
        }),
        ("C09-width-truncation", || {
            let res = oq3_semantics::syntax_to_semantics::parse_source_string("int[4294967297] x;", None);
            let dbg = format!("{:?}", res.symbol_table());
            (dbg.contains("Int(Some(1), False)") && res.semantic_errors().len() == 0, format!("`int[4294967297] x;`: {} semantic diagnostics; symbol typed Int(Some(1))={}", res.semantic_errors().len(), dbg.contains("Int(Some(1), False)")))
        }),
        ("C09-nonconst-designator-silent", || {
            let res = oq3_semantics::syntax_to_semantics::parse_source_string("int n = 4; int[n] x;", None);
            let dbg = format!("{:?}", res.symbol_table());
            (res.semantic_errors().len() == 0 && dbg.contains("name: \"x\", typ: Int(None, False)"), format!("`int n = 4; int[n] x;`: {} semantic diagnostics; x typed Int(None)={}", res.semantic_errors().len(), dbg.contains("name: \"x\", typ: Int(None, False)")))
        }),
        ("C20-const-eq", || {
            let r = promote_types(&Type::Int(Some(8), c(true)), &Type::Int(Some(8), c(false)));
            (r.is_const(), format!("promote_types(const int[8], int[8]) = {:?}", r))
        }),
    ]
}

/// defects that were repaired by a `fix:` commit: REPRODUCED here means the defect is BACK
fn fixed_table() -> Vec<(&'static str, Check)> {
    vec![
        ("C11-bitstring-underscores", || {
            let n = lex_errors("bit[4] b = \"0__1");
            (n == 0, format!("lexical diagnostics for unterminated `\"0__1`: {n}"))
        }),
        ("C01-tokenset-shift", || {
            let r = parse_outcome("x = OPENQASM 3;");
            (matches!(r, Run::Panicked(_)), format!("SourceFile::parse(\"x = OPENQASM 3;\") -> {:?}", r))
        }),
        ("C01-delay-no-designator", || {
            let r = parse_outcome("delay q;");
            (matches!(r, Run::Panicked(_)), format!("SourceFile::parse(\"delay q;\") -> {:?}", r))
        }),
        ("C05-assignment-identifier-from-rhs", || {
            use oq3_syntax::ast::{HasTextNode, Stmt};
            let id = match first_stmt("x[0] = y;") { Some(Stmt::AssignmentStmt(a)) => a.identifier().map(|i| i.string()), _ => None };
            (id.is_some(), format!("AssignmentStmt::identifier() of `x[0] = y;` -> {:?}", id))
        }),
        ("C05-if-single-statement-then", kf_if_then),
        ("C13-const-element-assignment", || {
            // assigning to an element of a const register must be reported (exactly one semantic diagnostic); a non-const one must not
            let (s1, r1) = sema_outcome("const bit[4] b = \"0101\"; b[0] = 1;");
            let (s2, r2) = sema_outcome("bit[4] b = \"0101\"; b[0] = 1;");
            let back = s1 == 0 && r1 == (Run::Returned { errors: 0 });
            (back || r2 != (Run::Returned { errors: 0 }) || s2 != 0, format!("`const bit[4] b = \"0101\"; b[0] = 1;` -> {:?}; non-const control -> {:?}", r1, r2))
        }),
        ("C12-array-ref-type-error-token", || {
            // an ERROR token in the tree must come with a diagnostic; the well-formed spelling must stay diagnostic-free
            let (n1, _, t1) = error_elements("def f(readonly ` [int[32], 2] x) { }");
            let (n2, e2, t2) = error_elements("def f(readonly array[int[32], 2] x) { }");
            (t1 > 0 && n1 == 0 || n2 != 0 || e2 != 0 || t2 != 0, format!("`def f(readonly ` [int[32], 2] x) {{ }}` -> {n1} diagnostics, {t1} error tokens; well-formed control -> {n2} diagnostics"))
        }),
        ("C11-malformed-include", || {
            // a source with a syntax diagnostic is not analysed (and nothing panics); a well-formed include still works
            let (s1, r1) = sema_outcome("include;");
            let (s2, r2) = sema_outcome("include \"stdgates.inc\"; qubit q; h q;");
            (s1 == 0 || r1 != (Run::Returned { errors: 0 }) || s2 != 0 || r2 != (Run::Returned { errors: 0 }), format!("`include;` -> {s1} syntax diagnostics, {:?}; well-formed control -> {:?}", r1, r2))
        }),
        ("C03-barrier-no-operands", || c03("barrier;")),
        ("C03-stmt-body-none", || {
            let (a, wa) = c03("while (true) OPENQASM 3;");
            let (b, wb) = c03("for int i in [0:3] @a\n");
            (a || b, format!("{wa}; {wb}"))
        }),
        ("C01-param-list-hang", || {
            let r = parse_outcome("def f(3) {}");
            let r2 = parse_outcome("extern f(x");
            (r == Run::Hung || r2 == Run::Hung, format!("parse(\"def f(3) {{}}\") -> {:?}; parse(\"extern f(x\") -> {:?}", r, r2))
        }),
    ]
}

fn main() {
    std::panic::set_hook(Box::new(|_| {}));
    let arg = std::env::args().nth(1).unwrap_or_default();
    if arg == "--fixed" {
        let id = std::env::args().nth(2).unwrap_or_default();
        for (fid, f) in fixed_table() {
            if id == fid || id == "--all" {
                let (rep, what) = f();
                println!("{} {}: {}", if rep { "DEFECT-BACK" } else { "STILL-FIXED" }, fid, what);
                if id != "--all" { exit(if rep { 3 } else { 0 }); }
            }
        }
        exit(0);
    }
    if arg == "--src" {
        // probe: run one source text through the whole pipeline and print the outcome
        let src: &'static str = Box::leak(std::env::args().nth(2).unwrap_or_default().into_boxed_str());
        let (nsyn, r) = sema_outcome(src);
        println!("syntax-diagnostics={} analysis={:?}", nsyn, r);
        return;
    }
    if arg == "--syn" {
        // probe: parse one source text; print the diagnostics and the error nodes / tokens of the tree
        let src: &'static str = Box::leak(std::env::args().nth(2).unwrap_or_default().into_boxed_str());
        let (nerr, nodes, toks) = error_elements(src);
        println!("lexical-diagnostics={} diagnostics={} error-nodes={} error-tokens={}", lex_errors(src), nerr, nodes, toks);
        return;
    }
    if arg == "--list" {
        for (id, _) in table() {
            println!("{id}");
        }
        return;
    }
    for (id, f) in table() {
        if id == arg {
            let (rep, what) = f();
            println!("{} {}: {}", if rep { "REPRODUCED" } else { "NOT-REPRODUCED" }, id, what);
            exit(if rep { 0 } else { 3 });
        }
    }
    eprintln!("unknown finding id {arg}");
    exit(2);
}
