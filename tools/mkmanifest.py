#!/usr/bin/env python3
"""regenerate MANIFEST.json from the registry (units/__init__.py)"""
import json, os, sys
sys.path.insert(0, os.path.dirname(os.path.dirname(os.path.abspath(__file__))))
sys.dont_write_bytecode = True
import units

NA = [
 {"property_id": "C04", "reason": "language inclusion needs full functional correctness of ~100 mutually recursive parser procedures against a spec grammar; no contract within reach, and the bounded stand-in (Kani on the grammar) does not run at any useful bound (DESIGN §6)"},
 {"property_id": "C10", "reason": "values come from std string/number parsing (from_str_radix, parse::<f64>, replace) applied to rowan token text inside rowan wrappers; no contract short of axiomatising std decides it (DESIGN §6)"},
 {"property_id": "C16", "reason": "relational property of tree-valued parser output on concatenations; needs functional correctness of the parser (DESIGN §6)"},
 {"property_id": "C17", "reason": "2-safety hyperproperty across runs (layout/renaming invariance, prefix stability, determinism); a deductive verifier proves properties of one call (DESIGN §6)"},
 {"property_id": "C18", "reason": "quantifies over file-system/environment configurations observed through std::fs/env in closure/iterator code (DESIGN §6)"},
]
checks = []
for pid in sorted(units.PROPS):
    sp = units.PROPS[pid]
    checks.append({
        "property_id": pid,
        "quick_cmd": "./check %s --tier quick" % pid,
        "thorough_cmd": "./check %s --tier thorough" % pid,
        "evidence_file": "/verif/evidence/%s.json" % pid,
        "replay_cmd_template": "cat {path}",
        "engine": "verus-contracts",
        "level_claimed": {
            "category": "proof",
            "text": "Machine-checked contracts (Verus) on the real functions of /repo, re-extracted verbatim from the working tree on every run: each decided clause is a postcondition, invariant or lemma discharged for all inputs; a change that breaks one fails a named obligation. Decided: " + "; ".join(sp.get('decided', [])) + ". NOT decided (outside any contract within reach): " + "; ".join(sp.get('not_decided', [])),
            "design_ref": "DESIGN.md §4 (units %s), §5 %s" % (', '.join(u.upper() for u in sp['units']), pid),
        },
        "level_note": "Trusted: Verus+Z3, rustc macro expansion, the extractor (verbatim copy + enumerated desugarings), trusted/assumed contracts listed in the evidence file on every run (trusted_base). Partial by design: the not-decided clauses are listed in the evidence.",
        "technique": "contract-based deductive verification (Verus requires/ensures/invariants on extracted real code" + (", Kani full-domain harnesses" if sp.get('kani') else "") + ")",
    })
m = {
 "version": 1,
 "setup_cmd": "true",
 "hooks": {
  "guard": "oq3_verif",
  "enable": "none needed: contracts live in /verif sidecars and are spliced into text extracted from /repo's working tree on every run; Kani harness modules are injected into a scratch copy",
  "baseline_off_cmd": "cd /repo && cargo test --workspace --no-fail-fast --offline",
  "source_commits": [],
  "add_only": True
 },
 "engines": [{"name": "verus-contracts", "path": "/verif/check", "serves_properties": sorted(units.PROPS), "kind_free_text": "extract real functions + splice contracts + Verus; classification of failed obligations; known findings; evidence"}],
 "checks": checks,
 "not_applicable": [n for n in NA if n['property_id'] not in units.PROPS] + [
    {"property_id": p, "reason": r} for p, r in getattr(units, 'NOT_YET', {}).items() if p not in units.PROPS],
 "notes": "exit 0 = all obligations discharged (KNOWN-FINDING lines printed for recorded defects); exit 1 = VIOLATION line(s); exit 2 = undecided (lost anchor / unsupported construct / resource limit) — never an alarm. Fix commits in /repo: see known_findings.json 'fixed'."
}
json.dump(m, open(os.path.join(os.path.dirname(os.path.dirname(os.path.abspath(__file__))), 'MANIFEST.json'), 'w'), indent=1)
print('MANIFEST.json written:', len(checks), 'checks')
