#!/bin/bash
# usage: seed_why.sh <seed-id>...   -- run the seed's own check in a scratch worktree, print the verdict lines
for id in "$@"; do
  WT=/tmp/seedwhy_$$; own=${id%-*}
  git -C /repo worktree add -q --detach "$WT" HEAD || exit 1
  git -C "$WT" apply "/verif/seeded/$id/patch.diff" || echo APPLY-FAILED
  echo "=== $id"
  (cd /verif && OQ3_REPO="$WT" OQ3_EVIDENCE_DIR=/tmp/seedwhy_ev_$$/ev OQ3_REPLAY_DIR=/tmp/seedwhy_ev_$$/rp ./check "$own" 2>&1 | grep -v "^KNOWN-FINDING" | cut -c1-700 | tail -8)
  git -C /repo worktree remove --force "$WT" >/dev/null 2>&1; rm -rf "$WT" /tmp/seedwhy_ev_$$
done
