#!/usr/bin/env python3
"""tools/coverage_map.py -- which functions of crates/*/src does no unit read?  For every non-test source file: the functions a
unit verifies or assumes a contract for (entry), those it pins by hash (guard / whole-file guard), and the rest (a change there
is invisible to every check).  Dev helper; prints a summary."""
import os, re, sys, glob, importlib
sys.path.insert(0, os.path.dirname(os.path.dirname(os.path.abspath(__file__))))
sys.dont_write_bytecode = True
from vlib.unit import REPO, Guard, ImplGroup
from vlib.rustsrc import RustFile
import units

covered = {}     # file -> {fn: how}
whole = {}
for name in units.UNITS:
    mod = importlib.import_module('units.' + name)
    U = mod.build()
    for e in U.entries:
        if isinstance(e, Guard):
            if e.fn is None:
                whole[e.file] = 'file-pinned(%s)' % name
            else:
                covered.setdefault(e.file, {}).setdefault(e.fn, 'pinned(%s)' % name)
        elif isinstance(e, ImplGroup):
            for m in e.methods:
                covered.setdefault(e.file, {})[m.name] = ('trusted' if getattr(m, 'trusted', False) else 'contract') + '(%s)' % name
        elif getattr(e, 'kind', None) == 'fn':
            covered.setdefault(e.file, {})[e.name] = ('trusted' if getattr(e, 'trusted', False) else 'contract') + '(%s)' % name
tot = unc = 0
for path in sorted(glob.glob(os.path.join(REPO, 'crates/*/src/**/*.rs'), recursive=True)):
    rel = os.path.relpath(path, REPO)
    if '/tests' in rel or rel.endswith('tests.rs') or '/bin/' in rel:
        continue
    rf = RustFile(path)
    fns = []
    for m in rf.code_finditer(r'\bfn\s+(\w+)', 0, len(rf.src)):
        fns.append(m.group(1))
    # drop functions inside #[cfg(test)] / #[test] modules (crudely: after `mod tests`)
    cut = re.search(r'#\[cfg\(test\)\]', rf.src)
    if cut:
        fns = [m.group(1) for m in rf.code_finditer(r'\bfn\s+(\w+)', 0, cut.start())]
    if rel in whole:
        print('%-62s %4d fns  %s' % (rel, len(fns), whole[rel]))
        tot += len(fns)
        continue
    c = covered.get(rel, {})
    miss = sorted(set(f for f in fns if f not in c))
    tot += len(fns); unc += len([f for f in fns if f not in c])
    print('%-62s %4d fns  %4d unread %s' % (rel, len(fns), len([f for f in fns if f not in c]), ' '.join(miss)[:400] if '-v' in sys.argv or len(miss) <= 12 else ' '.join(miss)[:200] + ' ...'))
print('TOTAL %d functions, %d read by no unit' % (tot, unc))
