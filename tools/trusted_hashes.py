#!/usr/bin/env python3
"""tools/trusted_hashes.py -- (re)writes contracts/trusted_hashes.json: for every function of /repo that a unit takes on
trust (`trusted=True`: external_body with an assumed contract), the hash of its comment-free text.  Run it after REVIEWING
a change to such a function; at check time a mismatch makes the run undecided (exit 2) instead of silently keeping a
contract that nothing backs any more."""
import sys, os, json
sys.path.insert(0, os.path.dirname(os.path.dirname(os.path.abspath(__file__))))
sys.dont_write_bytecode = True
os.environ['OQ3_TRUSTED_REGEN'] = '1'
from vlib import driver
import units
out = {}
for name in units.UNITS:
    ur = driver.prepare_unit(name, '/tmp/vgen_th')
    out.update(getattr(ur.unit, 'trusted_seen', {}))
p = os.path.join(os.path.dirname(os.path.dirname(os.path.abspath(__file__))), 'contracts', 'trusted_hashes.json')
json.dump(dict(sorted(out.items())), open(p, 'w'), indent=1)
print('%d trusted functions recorded in %s' % (len(out), p))
