#!/usr/bin/env python3
"""Search for the rank table of units/parser_ranks.py (C01 stage 3).
Loop: generate the PARSER unit with the current table, run Verus, read the call sites whose
termination could not be proved, add the constraint rank[callee] < rank[caller] for each, recompute
ranks as longest paths in the constraint graph.  Stops when Verus accepts every call site, or when
the constraints become cyclic (then there is a call cycle without token consumption that the
contracts cannot exclude)."""
import sys, os, re, json
sys.path.insert(0, os.path.dirname(os.path.dirname(os.path.abspath(__file__))))
sys.dont_write_bytecode = True
from vlib import driver
import importlib

ROOT = os.path.dirname(os.path.dirname(os.path.abspath(__file__)))
RF = os.path.join(ROOT, 'units', 'parser_ranks.py')
HEAD = open(RF).read().split('RANK = ')[0]
cons_file = '/tmp/rank_constraints.json'
edges = set(tuple(x) for x in json.load(open(cons_file))) if os.path.exists(cons_file) and '--resume' in sys.argv else set()


def ranks_from(edges):
    nodes = {a for a, b in edges} | {b for a, b in edges}
    succ = {n: set() for n in nodes}
    for a, b in edges:          # a calls b at the same position: rank[b] < rank[a]
        succ[a].add(b)
    memo, onstack = {}, set()

    def depth(n):
        if n in memo:
            return memo[n]
        if n in onstack:
            raise RuntimeError('cycle through ' + n)
        onstack.add(n)
        d = 0
        for m in succ[n]:
            d = max(d, depth(m) + 1)
        onstack.discard(n)
        memo[n] = d
        return d
    return {n: depth(n) for n in nodes}


FIXED = {'gate_call_expr': "(if crate::parser::cur(old(p).st()) == SyntaxKind::IDENT { 0nat } else { 1000nat })"}


def write(ranks):
    ranks = dict(ranks); ranks.update(FIXED)
    with open(RF, 'w') as f:
        f.write(HEAD + 'RANK = {\n' + ''.join(('    %r: %r,\n' % (k, v)) for k, v in sorted(ranks.items()) if v) + '}\n')


for rnd in range(30):
    ranks = ranks_from(edges)
    write(ranks)
    for m in [k for k in sys.modules if k.startswith('units')]:
        del sys.modules[m]
    ur = driver.run_unit('parser', '/tmp/rank_gen')
    if ur.undecided and not ur.errors:
        print('UNDECIDED', ur.undecided[0][:800]); sys.exit(2)
    names = set(ranks) | {e['function'].split('::')[-1] for e in ur.errors}
    new = set()
    other = []
    for e in ur.errors:
        if e['kind'] != 'termination':
            other.append((e['function'], e['kind'], e['site_text'][:80]))
            continue
        caller = e['function'].split('::')[-1]
        m = re.search(r'([a-z_][a-z0-9_]*)\s*\(', e['site_text'])
        # the callee is the last path segment before the first '('
        callee = m.group(1) if m else None
        if callee is None:
            other.append((e['function'], 'termination?', e['site_text'][:80])); continue
        if caller in FIXED or callee in FIXED:
            other.append((e['function'], 'termination(fixed-rank)', e['site_text'][:80])); continue
        new.add((caller, callee))
    fresh = new - edges
    print('round %d: %d termination failures, %d new constraints, %d other failures' % (rnd, len(new), len(fresh), len(other)))
    for o in other[:10]:
        print('   other:', o)
    if not new:
        print('DONE: ranks', json.dumps(ranks))
        break
    if not fresh:
        print('STUCK: failures remain although their constraints hold:', sorted(new)[:20])
        break
    edges |= fresh
    json.dump(sorted(edges), open(cons_file, 'w'))
    try:
        ranks_from(edges)
    except RuntimeError as ex:
        print('CYCLE:', ex, sorted(fresh))
        break
