#!/bin/bash
# usage: confirm_seed.sh <srcdir with patch.diff demo.rs> <outdir under /verif/seeded> 
# Confirms, in a scratch worktree of /repo: (1) patch applies, (2) full suite passes with it,
# (3) demo fails with it, (4) demo passes without it.  Writes <outdir>/confirm.log + verdict.
set -u
src=$1; out=$2
name=$(echo "$out" | tr '/' '_')
wt=/tmp/confirm_wt_$$_$RANDOM
mkdir -p "$out"
log="$out/confirm.log"; : > "$log"
git -C /repo worktree add -q --detach "$wt" HEAD >>"$log" 2>&1 || { echo "VERDICT worktree-failed" | tee -a "$log"; exit 1; }
cleanup() { git -C /repo worktree remove --force "$wt" >/dev/null 2>&1; rm -rf "$wt"; }
trap cleanup EXIT
cp /repo/Cargo.lock "$wt/" 2>/dev/null
place=$(head -3 "$src/demo.rs" | grep -o 'crates/[A-Za-z0-9_/-]*\.rs' | head -1)
pkg=$(echo "$place" | cut -d/ -f2)
tname=$(basename "$place" .rs)
echo "place=$place pkg=$pkg test=$tname" >>"$log"
cd "$wt"
export CARGO_TARGET_DIR="$wt/target"
git apply --check "$src/patch.diff" >>"$log" 2>&1 || { echo "VERDICT patch-does-not-apply" | tee -a "$log"; exit 1; }
git apply "$src/patch.diff"
echo "### full suite WITH change" >>"$log"
timeout 1200 cargo test --workspace --no-fail-fast --offline >"$out/suite_with.log" 2>&1; s1=$?
passed=$(grep -h "^test result" "$out/suite_with.log" | awk '{p+=$4; f+=$6} END{print p" passed "f" failed"}')
echo "suite exit=$s1 $passed" >>"$log"
mkdir -p "$(dirname "$place")"; cp "$src/demo.rs" "$place"
echo "### demo WITH change" >>"$log"
timeout 600 cargo test --offline -p "$pkg" --test "$tname" >"$out/demo_with.log" 2>&1; d1=$?
echo "demo with: exit=$d1" >>"$log"
git apply -R "$src/patch.diff"
echo "### demo WITHOUT change" >>"$log"
timeout 600 cargo test --offline -p "$pkg" --test "$tname" >"$out/demo_without.log" 2>&1; d0=$?
echo "demo without: exit=$d0" >>"$log"
if [ $s1 -eq 0 ] && [ $d1 -ne 0 ] && [ $d0 -eq 0 ]; then v=CONFIRMED; else v="REJECTED(suite=$s1,demo_with=$d1,demo_without=$d0)"; fi
echo "VERDICT $v $passed" | tee -a "$log"
tail -5 "$out/demo_with.log" >>"$log"
rm -f "$out/suite_with.log"
