#!/usr/bin/env python3
"""dev helper: generate a unit file and run verus on it, print human-readable errors"""
import sys, importlib, os, subprocess, json
sys.path.insert(0, os.path.dirname(os.path.dirname(os.path.abspath(__file__))))
from vlib import verus
name = sys.argv[1]
mod = importlib.import_module('units.' + name)
U = mod.build()
text, lm = U.generate()
d = '/tmp/vgen'; os.makedirs(d, exist_ok=True)
p = os.path.join(d, name + '.rs'); open(p, 'w').write(text)
print('generated', p, len(text.split('\n')), 'lines')
if len(sys.argv) > 2 and sys.argv[2] == 'gen': sys.exit(0)
r = subprocess.run(['verus', name + '.rs', '--multiple-errors', '50'] + sys.argv[2:], cwd=d, text=True, capture_output=True)
print(r.stdout[-3000:]); print(r.stderr[-12000:])
