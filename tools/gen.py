#!/usr/bin/env python3
"""dev helper: tools/gen.py <unit> [-v]  -- generate, run Verus, print compact classified errors"""
import sys, os
sys.path.insert(0, os.path.dirname(os.path.dirname(os.path.abspath(__file__))))
sys.dont_write_bytecode = True
from vlib import driver
name = sys.argv[1]
d = '/tmp/vgen'; os.makedirs(d, exist_ok=True)
ur = driver.run_unit(name, d)
for r in ur.undecided:
    print('UNDECIDED:', r[:6000])
if ur.result:
    ok = sum(1 for f in ur.result.functions if f['success']); n = len(ur.result.functions)
    print('functions %d/%d ok   wall %.1fs' % (ok, n, ur.result.wall_s))
for e in ur.errors:
    print('- %-28s %-18s L%-5d %s %s' % (e['function'], e['kind'], e['gen_line'], ','.join(e['tags']), e['label'] or ''))
    print('      site  : %s' % e['site_text'][:160])
    if e['clause']: print('      clause: %s' % e['clause'][:200])
    if '-v' in sys.argv: print(e['rendered'])
