#!/bin/bash
# Harmless edits of /repo (in a scratch worktree, never in /repo) on which every check must stay at exit 0:
# a renamed local, two reordered independent statements, an equivalent extra conjunct, an "extract method" refactoring.
set -u
WT=/tmp/benign_wt_$$
git -C /repo worktree add -q --detach "$WT" HEAD || exit 1
python3 - "$WT" <<'PY'
import sys
wt = sys.argv[1]
def edit(rel, old, new, count=1):
    p = wt + '/' + rel
    s = open(p).read()
    assert old in s, (rel, old)
    s = s.replace(old, new) if count == 0 else s.replace(old, new, count)
    open(p, 'w').write(s)
edit('crates/oq3_parser/src/grammar/expressions.rs', 'lhs_kind', 'kind_of_lhs', 0)
edit('crates/oq3_semantics/src/types.rs', 'ty1.is_const() && ty2.is_const()', 'ty2.is_const() && ty1.is_const() && true')
edit('crates/oq3_semantics/src/syntax_to_semantics.rs',
     "            let name_str = alias_stmt.name().unwrap().string();\n            let rhs = expr_to_asg_texpr(alias_stmt.expr(), context).unwrap();",
     "            let rhs = expr_to_asg_texpr(alias_stmt.expr(), context).unwrap();\n            let name_str = alias_stmt.name().unwrap().string();")
edit('crates/oq3_semantics/src/context.rs',
     "        let symbol_record = self.symbol_table.lookup(name);\n        if symbol_record.is_err() {\n            self.semantic_errors.insert(UndefGateError, node);",
     "        let symbol_record = self.symbol_table.lookup_any_scope(name);\n        if symbol_record.is_err() {\n            self.semantic_errors.insert(UndefGateError, node);")
edit('crates/oq3_semantics/src/symbols.rs',
     "    /// Try to lookup `name`. If a binding is found return the `SymbolId`, otherwise create a new binding",
     "    /// Same as `lookup`.\n    pub fn lookup_any_scope(&self, name: &str) -> Result<SymbolRecord<'_>, SymbolError> {\n        self.lookup(name)\n    }\n\n    /// Try to lookup `name`. If a binding is found return the `SymbolId`, otherwise create a new binding")
# a scrutinee computed through a local, a constructor delegating to its sibling, a comment in a generated file, a renamed local
edit('crates/oq3_parser/src/grammar/expressions.rs', "T!['['] if allow_calls => match lhs.kind() {", "T!['['] if allow_calls => match { let base = lhs.kind(); base } {")
edit('crates/oq3_syntax/src/syntax_error.rs', "        Self(message.into(), TextRange::empty(offset))", "        Self::new(message, TextRange::empty(offset))")
edit('crates/oq3_syntax/src/ast/generated/nodes.rs', "pub struct Name {", "// (a comment)\npub struct Name {")
edit('crates/oq3_semantics/src/syntax_to_semantics.rs', "            let num = int_num.value_u128().unwrap(); // fn value_u128 is kind of a hack\n            asg::IntLiteral::new(num, true).to_texpr() // `true` means positive literal.", "            let n128 = int_num.value_u128().unwrap();\n            asg::IntLiteral::new(n128, true).to_texpr()")
# comments inside the functions whose pieces are copied into helpers (D37, D39, D40, D41), and a re-ordered pair of independent arms
edit('crates/oq3_parser/src/lexed_str.rs', "            let token_text = &text[conv.offset..][..token.len as usize];", "            // the text of this token\n            let token_text = &text[conv.offset..][..token.len as usize];")
edit('crates/oq3_syntax/src/parsing.rs', "        oq3_parser::StrStep::Exit => builder.finish_node(),", "        // leave the node\n        oq3_parser::StrStep::Exit => builder.finish_node(),")
edit('crates/oq3_source_file/src/source_file.rs', "                .any(|inclusion| inclusion.have_syntax_errors())", "                // ask every included file\n                .any(|inclusion| inclusion.have_syntax_errors())")
edit('crates/oq3_syntax/src/ast/expr_ext.rs', "                T![||] => BinaryOp::LogicOp(LogicOp::Or),\n                T![&&] => BinaryOp::LogicOp(LogicOp::And),", "                T![&&] => BinaryOp::LogicOp(LogicOp::And),\n                T![||] => BinaryOp::LogicOp(LogicOp::Or),")
# a gate moved inside its row of the standard library table (D42: rows are checked, the frame is pinned)
edit('crates/oq3_semantics/src/symbols.rs', 'vec!["p", "rx", "ry", "rz", /* 2.0 */ "phase", "u1"]', 'vec!["p", "u1", "rx", "ry", "rz", /* 2.0 */ "phase"]')
PY
rc=0
for p in ${*:-C01 C02 C03 C05 C06 C07 C08 C09 C11 C12 C13 C14 C15 C19 C20}; do
  r=$(cd "$(dirname "$0")/.." && OQ3_REPO="$WT" OQ3_EVIDENCE_DIR=/tmp/benign_ev_$$/ev OQ3_REPLAY_DIR=/tmp/benign_ev_$$/rp ./check "$p" 2>/dev/null | tail -1)
  echo "$r"
  case "$r" in *"exit 0") ;; *) rc=1;; esac
done
git -C /repo worktree remove --force "$WT" >/dev/null 2>&1; rm -rf "$WT" /tmp/benign_ev_$$
exit $rc
