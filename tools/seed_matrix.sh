#!/bin/bash
# Runs every seeded change against the checks, in scratch worktrees of /repo (OQ3_REPO), without
# touching /repo, /verif/evidence or /verif/replays.  Output: one line per (seed, property).
# usage: seed_matrix.sh [out-file] [workers] [own-only]
set -u
OUT=${1:-/tmp/seed_matrix.txt}
W=${2:-4}
OWN_ONLY=${3:-}
ALL="C01 C02 C03 C05 C06 C07 C08 C09 C11 C12 C13 C14 C15 C19 C20"
: > "$OUT"
worker() {
  k=$1
  WT=/tmp/seedrepo_$$_$k
  git -C /repo worktree add -q --detach "$WT" HEAD || exit 1
  export OQ3_REPO="$WT" OQ3_EVIDENCE_DIR=/tmp/seedev_$$_$k/ev OQ3_REPLAY_DIR=/tmp/seedev_$$_$k/rp
  i=0
  for d in /verif/seeded/*/; do
    i=$((i+1)); [ $((i % W)) -eq $k ] || continue
    id=$(basename "$d"); own=${id%-*}
    git -C "$WT" checkout -q -- .
    if ! git -C "$WT" apply "$d/patch.diff" 2>/dev/null; then echo "$id APPLY-FAILED" >> "$OUT"; continue; fi
    res=$(cd /verif && ./check "$own" 2>/dev/null | tail -1 | grep -o "exit [0-9]")
    echo "$id $own ${res}" >> "$OUT"
    if [ "$res" != "exit 1" ] && [ -z "$OWN_ONLY" ]; then
      for p in $ALL; do
        [ "$p" = "$own" ] && continue
        r=$(cd /verif && ./check "$p" 2>/dev/null | tail -1 | grep -o "exit [0-9]")
        [ "$r" = "exit 1" ] && echo "$id $p ${r} (cross)" >> "$OUT"
      done
    fi
  done
  git -C /repo worktree remove --force "$WT" >/dev/null 2>&1; rm -rf "$WT" /tmp/seedev_$$_$k
}
for k in $(seq 0 $((W-1))); do worker $k & done
wait
echo DONE >> "$OUT"
