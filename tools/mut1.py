#!/usr/bin/env python3
"""dev helper: tools/mut1.py <substring> ...  -- run the mutants whose name contains a substring, print the verdicts"""
import sys, os, concurrent.futures
sys.path.insert(0, os.path.dirname(os.path.dirname(os.path.abspath(__file__))))
sys.dont_write_bytecode = True
from vlib import driver
import units.mutants as M
todo = [m for m in M.MUTANTS if any(a in m['name'] for a in sys.argv[1:])]
def one(m):
    d = '/tmp/vgen/mut_%s' % abs(hash(m['name'])); os.makedirs(d, exist_ok=True)
    ur = driver.run_unit(m['unit'], d, mutate=(m['fn'], m['old'], m['new']))
    if ur.undecided and not ur.errors:
        return m['name'], 'undecided', ur.undecided[0][:300]
    hit = [e for e in ur.errors if m.get('expect', m['fn']).split('::')[-1] in e['function'] and driver.is_violation_kind(e)]
    return m['name'], 'killed' if hit else 'SURVIVED', [driver.obligation_name(e) for e in hit][:3] or [(e['function'], e['kind'], e['site_text'][:80]) for e in ur.errors][:4]
with concurrent.futures.ThreadPoolExecutor(max_workers=5) as ex:
    for r in ex.map(one, todo):
        print(*r)
import shutil, glob
for d in glob.glob('/tmp/vgen/mut_*'): shutil.rmtree(d, ignore_errors=True)
