#!/usr/bin/env python3
"""tools/seed_table.py <own-matrix> [<full-matrix>] [--thorough ID,ID,..]
Writes the detection table into DESIGN.md (section 11.7) and `detected_by` into every
seeded/<id>/meta.json.  Input: the output of tools/seed_matrix.sh."""
import sys, os, json, re
ROOT = os.path.dirname(os.path.dirname(os.path.abspath(__file__)))
own = {}
cross = {}
thorough = set()
args = [a for a in sys.argv[1:] if not a.startswith('--')]
for a in sys.argv[1:]:
    if a.startswith('--thorough='):
        thorough = set(a.split('=', 1)[1].split(','))
for k, path in enumerate(args):
    for ln in open(path):
        f = ln.split()
        if len(f) >= 4 and f[2] == 'exit':
            if '(cross)' in ln:
                cross.setdefault(f[0], set()).add(f[1])
            elif k == 0 or f[0] not in own:
                own[f[0]] = int(f[3])
        elif len(f) == 2 and f[1] == 'APPLY-FAILED':
            own[f[0]] = -1
rows = []
for sid in sorted(os.listdir(os.path.join(ROOT, 'seeded'))):
    mp = os.path.join(ROOT, 'seeded', sid, 'meta.json')
    if not os.path.exists(mp):
        continue
    meta = json.load(open(mp))
    prop = meta['property']
    code = own.get(sid)
    if code == 1:
        det = 'VIOLATION by ./check %s (quick)' % prop
    elif sid in thorough:
        det = 'VIOLATION by ./check %s --tier thorough (bounded Kani stand-in); quick tier: %s' % (prop, 'undecided' if code == 2 else 'not detected')
    elif code == 2:
        det = 'UNDECIDED (exit 2) by ./check %s: the edit leaves the verifier\'s dialect or loses an anchor — no verdict' % prop
    elif code == 0:
        det = 'not detected by ./check %s (the changed code or the broken clause is outside the contracts)' % prop
    elif code == -1:
        det = 'patch no longer applies to the current tree'
    else:
        det = 'not run'
    if cross.get(sid):
        det += '; also VIOLATION by the check(s) of ' + ', '.join(sorted(cross[sid]))
    meta['detected_by'] = det
    json.dump(meta, open(mp, 'w'), indent=1)
    files = ', '.join(os.path.basename(f) for f in meta.get('files_changed', []))
    rows.append((sid, files, det))
n1 = sum(1 for r in rows if r[2].startswith('VIOLATION'))
n2 = sum(1 for r in rows if r[2].startswith('UNDECIDED'))
n0 = sum(1 for r in rows if r[2].startswith('not detected'))
tab = ['%d seeded changes: %d reported as VIOLATION by the check of their own property, %d leave that check UNDECIDED (exit 2), %d are not detected.' % (len(rows), n1, n2, n0), '',
       '| seed | file(s) changed | result of the own-property check |', '|---|---|---|']
tab += ['| %s | %s | %s |' % r for r in rows]
p = os.path.join(ROOT, 'DESIGN.md')
s = open(p).read()
a = s.index('### 11.7 Seed detection table')
s = s[:a] + '### 11.7 Seed detection table\n\n' + '\n'.join(tab) + '\n'
open(p, 'w').write(s)
print(tab[0])
