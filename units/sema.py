"""SEMA — oq3_semantics: asg.rs (all of it), syntax_to_semantics.rs (closure-free functions),
types.rs (re-verified copy), over an opaque, mechanically generated view of the oq3_syntax AST
(C03, C06, C07, C08, C09, C13)"""
import os
import re
from vlib.unit import Unit, REPO, Undecided
from vlib import genast
from units import types as types_unit

S2S = 'crates/oq3_semantics/src/syntax_to_semantics.rs'
ASG = 'crates/oq3_semantics/src/asg.rs'
SYM = 'crates/oq3_semantics/src/symbols.rs'
CTX = 'crates/oq3_semantics/src/context.rs'
ERR = 'crates/oq3_semantics/src/semantic_error.rs'
OPS = 'crates/oq3_syntax/src/ast/operators.rs'
EXT = 'crates/oq3_syntax/src/ast/expr_ext.rs'
NEXT = 'crates/oq3_syntax/src/ast/node_ext.rs'
TEXT = 'crates/oq3_syntax/src/ast/type_ext.rs'

P = ['C03', 'C06', 'C07', 'C08', 'C09', 'C13']

# functions of syntax_to_semantics.rs that are NOT verified (closures / iterator adapters capturing
# `&mut Context`, generic SourceTrait plumbing): declared with havoc contracts
S2S_UNVERIFIED = set()
S2S_SKIP = {'parse_source_string_with_path_search', 'parse_source_file_with_search', 'parse_source_string', 'parse_source_file', 'ParseResult'}

# asg.rs methods outside the dialect (generic `T: ToString`, slice accessors via Deref, iterator/println)
ASG_TRUSTED = {}
ASG_SKIP = set()


AP = 'AP'   # assumed-parser: holds on every tree that parsed without diagnostics
# accessors assumed to return Some (value = (kind, text)); KF entries are recorded known findings
ACC_SOME = {
    ('FloatNumber', 'value'): (AP, 'a lexed float literal always parses as f64'),
    ('IntNumber', 'value_u128'): ('KF', 'C03-int-literal-overflow'),
    ('IntNumber', 'value'): ('KF', 'C03-int-literal-overflow'),
    ('BitString', 'str'): (AP, 'a BIT_STRING token always has its quotes'),
    ('SetExpression', 'expression_list'): (AP, 'set_expression always completes an EXPRESSION_LIST'),
    ('IndexOperator', 'index_kind'): (AP, 'index_operator always contains a set expression or an expression list'),
    ('ArgList', 'expression_list'): (AP, 'call_arg_list always completes an EXPRESSION_LIST inside ARG_LIST'),
    ('CallExpr', 'identifier'): (AP, 'a CALL_EXPR precedes an IDENTIFIER'),
    ('CallExpr', 'arg_list'): (AP, 'call_expr always parses call_arg_list'),
    ('TimingLiteral', 'time_unit'): (AP, 'a TIMING_LITERAL is a literal followed by an identifier'),
    ('TimingLiteral', 'literal'): (AP, 'a TIMING_LITERAL is a literal followed by an identifier'),
    ('BinExpr', 'op_kind'): (AP, 'a BIN_EXPR is built around the operator token'),
    ('BinExpr', 'lhs'): (AP, 'a missing operand is a syntax error'),
    ('BinExpr', 'rhs'): (AP, 'a missing operand is a syntax error'),
    ('IndexExpr', 'index_operator'): (AP, 'index_expr always parses index_operator'),
    ('IndexExpr', 'expr'): (AP, 'an INDEX_EXPR precedes its operand'),
    ('MeasureExpression', 'gate_operand'): (AP, '`measure` without an operand is a syntax error'),
    ('CastExpression', 'scalar_type'): (AP, 'cast_expr starts with type_spec'),
    ('CastExpression', 'expr'): (AP, 'an empty cast operand is a syntax error'),
    ('GateCallExpr', 'identifier'): (AP, 'gate_call_expr starts with an identifier (else syntax error)'),
    ('GateCallExpr', 'qubit_list'): (AP, 'arg_list_gate_call_qubits always completes a QUBIT_LIST'),
    ('ClassicalDeclarationStatement', 'scalar_type'): (AP, 'a declaration without array type has a scalar type'),
    ('ClassicalDeclarationStatement', 'name'): (AP, 'var_name always completes a NAME'),
    ('IODeclarationStatement', 'scalar_type'): (AP, 'an io declaration without array type has a scalar type'),
    ('IODeclarationStatement', 'name'): (AP, 'var_name always completes a NAME'),
    ('ParenExpr', 'expr'): ('KF', 'C03-tuple-expr'),      # (`(())` parses without a diagnostic: the inner `()` is a TUPLE_EXPR, no typed-AST expression)
    ('AssignmentStmt', 'rhs'): (AP, 'a missing right-hand side is a syntax error'),
    ('AssignmentStmt', 'indexed_identifier'): (AP, 'the target of an ASSIGNMENT_STMT is IDENTIFIER or INDEXED_IDENTIFIER'),
    ('Include', 'file'): (AP, '`include` without a file path is a syntax error'),
    ('FilePath', 'to_string'): (AP, 'a FILE_PATH is a (terminated) string literal'),
    ('IndexedIdentifier', 'identifier'): (AP, 'an INDEXED_IDENTIFIER precedes its identifier'),
    ('TypedParam', 'name'): (AP, 'a typed parameter without a name is a syntax error'),
    ('PowModifier', 'paren_expr'): (AP, '`pow` without a parenthesised exponent is a syntax error'),
    ('ForStmt', 'loop_var'): (AP, '`for` without a loop variable is a syntax error'),
    ('ForStmt', 'scalar_type'): (AP, '`for` without the type of the loop variable is a syntax error'),
    ('ForStmt', 'for_iterable'): (AP, 'for_stmt always completes a FOR_ITERABLE'),
    ('CaseExpr', 'expression_list'): (AP, '`case` without values is a syntax error'),
    ('CaseExpr', 'block_expr'): (AP, '`case` without a block is a syntax error'),
    ('QuantumDeclarationStatement', 'qubit_type'): (AP, 'a quantum declaration starts with `qubit`'),
    ('Gate', 'name'): (AP, '`gate` without a name is a syntax error'),
    ('Gate', 'qubit_params'): (AP, 'gate_definition always completes the PARAM_LIST of qubits (possibly empty)'),
    ('Gate', 'body'): (AP, '`gate` without a body is a syntax error'),
    ('Def', 'name'): (AP, '`def` without a name is a syntax error'),
    ('Def', 'body'): (AP, '`def` without a body is a syntax error'),
    ('Def', 'typed_param_list'): (AP, '`def` without a parameter list is a syntax error'),
    ('DelayStmt', 'qubit_list'): (AP, 'delay_stmt always completes a QUBIT_LIST (possibly empty)'),
    ('DelayStmt', 'designator'): (AP, '`delay` without a designator is a syntax error'),
    ('Reset', 'gate_operand'): (AP, '`reset` without an operand is a syntax error'),
    ('AliasDeclarationStatement', 'name'): (AP, '`let` without a name is a syntax error'),
    ('AliasDeclarationStatement', 'expr'): (AP, '`let` without a right-hand side is a syntax error'),
    ('SwitchCaseStmt', 'control'): (AP, '`switch` without a control expression is a syntax error'),
    ('IfStmt', 'condition'): (AP, '`if` without a condition is a syntax error'),
    ('WhileStmt', 'condition'): (AP, '`while` without a condition is a syntax error'),
}
# hand-written accessors of node_ext.rs that panic ("Error in oq3_syntax") when the node has neither a
# block nor a statement child: the guard is a precondition, each call site carries the known finding
ACC_REQUIRES = {
    ('IfStmt', 'true_body_block_or_stmt'): 'KF:C03-empty-stmt-body',
    ('WhileStmt', 'block_or_stmt'): 'KF:C03-empty-stmt-body',
    ('ForStmt', 'block_or_stmt'): 'KF:C03-empty-stmt-body',
}
ACC_CUSTOM = {
    ('RangeExpr', 'start_step_stop'): (AP, 'r.0 is Some && r.2 is Some', 'a range without start or stop is a syntax error'),
}
# panic-capable arms: (function, text of the macro call prefix) -> (kind, id or reason[, count])
PANIC_GUARDS = [
    ('binary_op_to_asg_type', 'panic!("Comparision operators', 'KF', 'C03-cmp-ord'),
    ('binary_op_to_asg_type', 'panic!("Binary logic operators', 'KF', 'C03-logic-op'),
    ('binary_op_to_asg_type', 'panic!("Unsupported binary operator', 'KF', 'C03-compound-assign'),
    ('literal_to_asg_texpr', 'todo!()', AP, 'byte/char literals are never lexed and a string literal in expression position is a syntax error'),
    ('designator_to_asg', 'panic!("Unsupported designator type', 'KF', 'C03-designator-expr'),
    ('scalar_type_to_type', 'panic!("You have found a bug in oq3_parser', AP, 'a SCALAR_TYPE node always contains a type keyword'),
    ('call_expr_to_asg_texpr', 'panic!("programming error: expected Type::Def', 'KF', 'C03-call-undeclared'),
    ('expr_to_asg_texpr', 'panic!("Only integers and floats are supported', 'KF', 'C03-neg-bool'),
    ('expr_to_asg_texpr', 'panic!("Only floats are supported', 'KF', 'C03-neg-timing'),
    ('expr_to_asg_texpr', 'panic!("You have found a bug in oq3_parser. No operand to unary minus', AP, 'a PREFIX_EXPR has an operand (else syntax error)'),
    ('expr_to_asg_texpr', 'panic!("Unary operators other than minus', 'KF', 'C03-unary-not'),
    ('expr_to_asg_texpr', 'panic!("You have found a bug in oq3_parser. No operand to unary operator', AP, 'a PREFIX_EXPR starts with its operator token'),
    ('expr_to_asg_texpr', 'panic!("You have found a bug in oq3_syntax or oq3_parser")', AP, 'the literal of a TIMING_LITERAL is an int or float literal', 3),
    ('expr_to_asg_texpr', 'panic!("BlockExpr not supported', 'KF', 'C03-block-expr'),
    ('expr_to_asg_texpr', 'panic!("ArrayExpr not supported', 'KF', 'C03-array-expr'),
    ('expr_to_asg_texpr', 'panic!("ArrayLiteral not supported', 'KF', 'C03-array-literal'),
    ('expr_to_asg_texpr', 'panic!("BoxExpr not supported', 'KF', 'C03-box-expr'),
    ('expr_to_asg_texpr', 'panic!("You have found a bug in oq3_parser.")', AP, 'gate calls / dim expressions are statements, never operands'),
    ('io_declaration_statement_to_asg_stmt', 'panic!("Array types are not supported', 'KF', 'C03-io-array'),
    ('bind_typed_parameter_list', 'panic!("You have found a bug in oq3_parser")', AP, 'a TYPED_PARAM has a type (else syntax error)'),
    ('expr_stmt_to_asg_stmt', 'panic!("expr::ExprStmt is None', AP, 'an EXPR_STMT contains an expression (an empty statement `;` yields no EXPR_STMT)'),
    ('stmt_to_asg_stmt', 'unreachable!() // probably is reachable', AP, 'a FOR_ITERABLE contains a set expression, a range or an expression'),
]
GHOST_ASSUMES = [
    ('designator_to_asg', 'let const_value = context.get_const_value(sym.unwrap());', 'assume(sym is Ok); // KF:C03-designator-undeclared'),
    ('designator_to_asg', 'let width = match u32::try_from(const_value.unwrap()) {', 'assume(const_value is Some); // KF:C03-designator-no-value'),
    ('declare_classical_helper', 'context.insert_const_value(symbol_id.clone().unwrap(), initializer.clone());', 'assume(symbol_id is Ok); // KF:C03-redeclare-const'),
    ('expr_stmt_to_asg_stmt', 'let gphase = mod_gate_call.g_phase_call_expr().unwrap();', 'assume(mod_gate_call.sp_g_phase_call_expr() is Some); /* AP:a MODIFIED_GATE_CALL_EXPR wraps a gate call or a gphase call */'),
    ('expr_stmt_to_asg_stmt', 'let arg = expr_to_asg_texpr(gphase.arg(), context).unwrap();\n                Some(asg::Stmt::ModifiedGPhaseCall', 'assume(gphase.sp_arg() is Some); // KF:C03-gphase-no-arg'),
    ('expr_stmt_to_asg_stmt', 'let arg = expr_to_asg_texpr(gphase.arg(), context).unwrap();\n            Some(asg::Stmt::GPhaseCall', 'assume(gphase.sp_arg() is Some); // KF:C03-gphase-no-arg'),
    ('stmt_to_asg_stmt', 'let hw_qubit = q_decl.hardware_qubit().unwrap();', 'assume(q_decl.sp_hardware_qubit() is Some); /* AP:a quantum declaration names a variable or a hardware qubit */'),
    ('stmt_to_asg_stmt', 'let duration =\n                expr_to_asg_texpr(delay_stmt.designator().unwrap().expr(), context).unwrap();', 'assume(delay_stmt.sp_designator()->Some_0.sp_expr() is Some); /* AP:an empty designator `[]` is a syntax error */'),
    ('stmt_to_asg_stmt', 'let then_branch = block_or_stmt_to_asg_type(', 'assume(if_stmt.sp_true_body_block_or_stmt_ok()); // KF:C03-empty-stmt-body'),
    ('stmt_to_asg_stmt', 'let loop_body = block_or_stmt_to_asg_type(while_stmt', 'assume(while_stmt.sp_block_or_stmt_ok()); // KF:C03-empty-stmt-body'),
    ('stmt_to_asg_stmt', 'let loop_body = block_or_stmt_to_asg_type(for_stmt', 'assume(for_stmt.sp_block_or_stmt_ok()); // KF:C03-empty-stmt-body'),
]


def asg_structural_contracts():
    """C06: contracts for constructors and accessors of every ASG node, derived from the struct
    DEFINITIONS and the method SIGNATURES only (never from bodies): a parameter of `new` that is
    named like a field initialises that field; a method `f(&self) -> &T` named like a field returns
    it.  A body that swaps or drops a field therefore fails its contract."""
    import os
    from vlib.rustsrc import RustFile
    from vlib.unit import REPO, normalise_code
    rf = RustFile(os.path.join(REPO, ASG))
    src = rf.src
    fields = {}
    for m in rf.code_finditer(r'(?m)^pub struct (\w+)\s*\{', 0, len(src)):
        if rf.depth[m.start()] != 0:
            continue
        b = src.index('{', m.start())
        e = rf.match_brace(b)
        body = normalise_code(src[b + 1:e - 1])
        fs = {}
        for part in re.split(r',(?![^<(]*[>)])', body):
            mm = re.match(r'\s*(?:pub(?:\([^)]*\))?\s+)?(\w+)\s*:\s*(.+?)\s*$', part)
            if mm:
                fs[mm.group(1)] = mm.group(2)
        fields[m.group(1)] = fs
    out = {}
    # variants of `Stmt` by payload type: `X::to_stmt(self) -> Stmt` must wrap `self` in the variant that holds an X
    it_s = rf.find_block_item('enum', 'Stmt')
    variants = {}
    for vm in re.finditer(r'(?m)^\s*(\w+)\((Box<)?(\w+)>?\),', rf.src[it_s['header_start']:it_s['end']]):
        variants.setdefault(vm.group(3), []).append((vm.group(1), bool(vm.group(2))))
    it_e = rf.find_block_item('enum', 'Expr')
    evariants = {}
    for vm in re.finditer(r'(?m)^\s*(\w+)\((Box<)?(\w+)>?\),', rf.src[it_e['header_start']:it_e['end']]):
        evariants.setdefault(vm.group(3), []).append((vm.group(1), bool(vm.group(2))))
    for ty, fs in fields.items():
        for blk in rf.find_all_impls(re.escape(ty)):
            d1 = rf.depth[blk['body_open']] + 1
            for fn in rf.list_fns((blk['body_open'] + 1, blk['end'] - 1), d1):
                it = rf.find_fn(fn, (blk['body_open'] + 1, blk['end'] - 1), d1)
                sig = normalise_code(src[it['header_start']:it['sig_end']])
                q = '%s::%s' % (ty, fn)
                if fn == 'new':
                    pm = re.search(r'\bfn new\s*(<[^(]*>)?\s*\((.*)\)\s*->\s*(\w+)', sig)
                    if not pm or pm.group(1) or 'where' in sig:
                        continue          # generic constructors (ToString / Into) are outside the dialect
                    params = [x.strip() for x in re.split(r',(?![^<(]*[>)])', pm.group(2)) if x.strip()]
                    names = [re.sub(r'^mut\s+', '', x.split(':')[0].strip()) for x in params]      # (`mut x: T` binds x all the same)
                    ens = ['r.%s == %s' % (n, n) for n in names if n in fs]
                    if ens and len(ens) == len(names):
                        out[q] = dict(ret='r', props=['C06', 'C08', 'C09'], spec='ensures ' + ', '.join(ens) + ',                     //@C06:constructor-keeps-fields')
                elif fn in ('to_texpr', 'to_expr') and re.search(r'\(\s*self\b[^)]*\)\s*->\s*(TExpr|Expr)\s*$', sig) and len(evariants.get(ty, [])) == 1:
                    # `X::to_expr(self)` / `X::to_texpr(self, ..)` must wrap `self` in the Expr variant that holds an X
                    vn, boxed = evariants[ty][0]
                    wrapped = 'Expr::%s(%s)' % (vn, 'Box::new(self)' if boxed else 'self')
                    out[q] = dict(ret='r', props=['C06', 'C08'], spec='ensures %s == %s,                             //@C06:expression-kind' % ('r' if fn == 'to_expr' else 'r.expression', wrapped))
                elif fn == 'to_stmt' and re.search(r'\(\s*self\s*\)\s*->\s*Stmt\s*$', sig) and len(variants.get(ty, [])) == 1:
                    vn, boxed = variants[ty][0]
                    out[q] = dict(ret='r', props=['C06', 'C08', 'C09'], spec='ensures r == Stmt::%s(%s),                             //@C06:statement-kind' % (vn, 'Box::new(self)' if boxed else 'self'))
                elif fn.startswith('num_') and fn[4:] in fs and normalise_code(fs[fn[4:]]).startswith('Option<Vec<') and re.search(r'\(\s*&self\s*\)\s*->\s*usize\s*$', sig):
                    # `num_F(&self) -> usize` of an `Option<Vec<T>>` field F: the length of the list, 0 when there is none
                    out[q] = dict(ret='r', props=['C06', 'C08', 'C09'], spec='ensures r == (match self.%s { Some(v) => v@.len(), None => 0 }),                             //@C06:accessor-returns-field' % fn[4:])
                elif fn in fs:
                    am = re.search(r'\(\s*&self\s*\)\s*->\s*&\s*([\w:<>\[\] ,]+)$', sig)
                    if am and not am.group(1).startswith('[') and am.group(1) != 'str' and normalise_code(am.group(1)) == normalise_code(fs[fn]):
                        out[q] = dict(ret='r', props=['C06', 'C08', 'C09'], spec='ensures *r == self.%s,                             //@C06:accessor-returns-field' % fn)
                    else:
                        # ... `f(&self) -> &[T]` of a `Vec<T>` field, `-> Option<&T>` of an `Option<T>` field, `-> &str` of a `String` field,
                        # `-> T` of a field of that very (Copy) type: the view of that field
                        fty = normalise_code(fs[fn])
                        rm_ = re.search(r'\(\s*&self\s*\)\s*->\s*(.+)$', sig)
                        rty = normalise_code(rm_.group(1)) if rm_ else ''
                        TAGF = '                             //@C06:accessor-returns-field'
                        ms = re.fullmatch(r'&\s*\[(.+)\]', rty)
                        mo = re.fullmatch(r'Option<\s*&\s*(.+)>', rty)
                        if ms and fty == 'Vec<%s>' % normalise_code(ms.group(1)):
                            out[q] = dict(ret='r', props=['C06', 'C08', 'C09'], spec='ensures r@ == self.%s@,%s' % (fn, TAGF))
                        elif mo and fty == 'Option<%s>' % normalise_code(mo.group(1)):
                            out[q] = dict(ret='r', props=['C06', 'C08', 'C09'], spec='ensures (r is Some) == (self.%s is Some), r is Some ==> *r->Some_0 == self.%s->Some_0,%s' % (fn, fn, TAGF))
                        elif mo and re.fullmatch(r'\[(.+)\]', normalise_code(mo.group(1))) and fty == 'Option<Vec<%s>>' % re.fullmatch(r'\[(.+)\]', normalise_code(mo.group(1))).group(1):
                            out[q] = dict(ret='r', props=['C06', 'C08', 'C09'], spec='ensures (r is Some) == (self.%s is Some), r is Some ==> r->Some_0@ == self.%s->Some_0@,%s' % (fn, fn, TAGF))
                        elif rty == '&str' and fty == 'String':
                            out[q] = dict(ret='r', props=['C06', 'C08', 'C09'], spec='ensures r@ == self.%s@,%s' % (fn, TAGF))
                        elif rty == fty and rty in ('usize', 'bool', 'u32', 'u128', 'u64'):
                            out[q] = dict(ret='r', props=['C06', 'C08', 'C09'], spec='ensures r == self.%s,%s' % (fn, TAGF))
    return out


def _balanced_call(text, start):
    """text[start:] begins with `name!(`; returns end index just past the matching `)`"""
    i = text.index('(', start)
    d = 0
    j = i
    instr = False
    while j < len(text):
        c = text[j]
        if instr:
            if c == '\\':
                j += 1
            elif c == '"':
                instr = False
        elif c == '"':
            instr = True
        elif c == '(':
            d += 1
        elif c == ')':
            d -= 1
            if d == 0:
                return j + 1
        j += 1
    raise ValueError


def panic_rewrites(fn, src_text):
    """ghost-only rewrites `panic!(..)` -> `{ assume(false); /*tag*/ panic!(..) }` for the recorded arms"""
    out = []
    for g in PANIC_GUARDS:
        if g[0] != fn:
            continue
        prefix, kind, what = g[1], g[2], g[3]
        cnt = g[4] if len(g) > 4 else 1
        pos = 0
        found = []
        from vlib.rustsrc import RustFile
        mask = RustFile('<fn>', src_text)
        while True:
            i = src_text.find(prefix, pos)
            if i < 0:
                break
            e = _balanced_call(src_text, i)
            if mask.code[i]:          # occurrences inside comments do not count
                call_ = src_text[i:e]
                # a guard prefix that is longer than the macro call pins ONE site among identical calls
                found.append(call_ if len(prefix) <= len(call_) else prefix)
            pos = e
        tag = ('KF:%s' % what) if kind == 'KF' else ('AP:%s' % what)
        for call in sorted(set(found)):
            n = src_text.count(call)
            mcall = call[:_balanced_call(call, 0)]
            out.append(('GHOST-assume-unreachable', call, '{ assume(false); /* %s */ %s }%s' % (tag, mcall, call[len(mcall):]), n))
        if len(found) != cnt:
            from vlib.unit import Undecided
            raise Undecided('panic guard %r in %s: expected %d site(s), found %d' % (prefix, fn, cnt, len(found)))
    return out


def RM_(sym, name):
    """ghost block after a `context.new_binding(..)` statement: the scopes changed exactly when the binding succeeded"""
    return ('proof { if %s is Ok { assert(context.scopes().last().contains_key(%s)); assert(!old(context).scopes().last().contains_key(%s)); } '
            'assert((context.scopes() == old(context).scopes()) <==> %s is Err); }' % (sym, name, name, sym))


def build():
    U = Unit('SEMA', props=P)
    U.default_closures = True     # rule-based D3/D16 (vlib/closures.py) applies to every function of this unit
    U.tag_loops = True     # loop invariants state property-relevant facts about abstractions: a failing one is reported
    # ---- types (re-verified copy; the C20 lemmas stay in unit TYPES)
    U.raw('pub mod types {\nuse vstd::prelude::*;\n')
    types_unit.add(U, with_lemmas=False, arith_op=False)
    U.raw('}\n')
    # ---- symbols / context boundary
    U.prelude('contracts/sema.context.rs')
    s = U.file(SYM)
    for k, n in [('enum', 'ScopeType'), ('struct', 'SymbolId'), ('enum', 'SymbolError'), ('type', 'SymbolIdResult')]:
        s.item(k, n)
    # ---- the opaque AST
    some = {k: ('%s:%s' % (v[0], v[1])) for k, v in ACC_SOME.items()}
    ast_text, n_nodes, n_acc = genast.generate(some, {k: (v[1], '%s:%s' % (v[0], v[2])) for k, v in ACC_CUSTOM.items()}, ACC_REQUIRES)
    U.raw(open(__file__.replace('units/sema.py', 'contracts/sema.context2.rs')).read())
    from units.stdgates import std_gate_spec
    U.raw(std_gate_spec())
    U.raw('''pub mod synast {
use vstd::prelude::*;
pub mod ast { pub use super::*; }
pub trait AstNode {}
pub trait HasName {}
pub trait HasArgList {}
pub trait HasTextNode {}
#[verifier::external_body] pub struct SyntaxToken { _p: u8 }
#[verifier::external_body] pub struct TokenText { _p: u8 }
impl TokenText {
    pub uninterp spec fn chars(&self) -> Seq<char>;
    /// `impl AsRef<str> for TokenText` (token_text.rs): the text itself
    #[verifier::external_body] pub fn as_ref(&self) -> (r: &str) ensures r@ == self.chars() { unimplemented!() }
}
#[verifier::external_body] pub struct CowStr { _p: u8 }
#[verifier::external_body] #[verifier::reject_recursive_types(N)] pub struct AstChildren<N> { _p: std::marker::PhantomData<N> }
impl<N> AstChildren<N> {
    /// the children not yet yielded, in source order
    pub uninterp spec fn rest(&self) -> Seq<N>;
    /// assumed-dep (rowan): AstChildren is a finite iterator over the children of an immutable node
    #[verifier::external_body] pub fn next(&mut self) -> (r: Option<N>)
        ensures old(self).rest().len() == 0 ==> r is None && final(self).rest() == old(self).rest(),
                old(self).rest().len() > 0 ==> r == Some(old(self).rest()[0]) && final(self).rest() == old(self).rest().skip(1),
    { unimplemented!() }
    /// Iterator::nth / count / last as std documents them (not used by the analyser today; stated so that an edit which
    /// starts using them stays inside the verified dialect)
    #[verifier::external_body] pub fn nth(&mut self, n: usize) -> (r: Option<N>)
        ensures n < old(self).rest().len() ==> r == Some(old(self).rest()[n as int]) && final(self).rest() == old(self).rest().skip(n as int + 1),
                n >= old(self).rest().len() ==> r is None && final(self).rest().len() == 0,
    { unimplemented!() }
    #[verifier::external_body] pub fn count(self) -> (r: usize) ensures r == self.rest().len() { unimplemented!() }
    #[verifier::external_body] pub fn last(self) -> (r: Option<N>)
        ensures self.rest().len() == 0 ==> r is None, self.rest().len() > 0 ==> r == Some(self.rest().last()),
    { unimplemented!() }
}
''')
    o = U.file(OPS)
    for n in ['RangeOp', 'UnaryOp', 'BinaryOp', 'LogicOp', 'CmpOp', 'Ordering', 'ArithOp']:
        o.item('enum', n)
    e = U.file(EXT)
    for n in ['ArrayExprKind', 'LiteralKind', 'TimeUnit']:
        e.item('enum', n)
    U.file(NEXT).item('enum', 'BlockOrStmt')
    U.file(TEXT).item('enum', 'ScalarTypeKind')
    tk = U.file('crates/oq3_syntax/src/ast/token_ext.rs')
    tk.item('struct', 'CommentKind')
    tk.item('enum', 'CommentShape')
    tk.item('enum', 'Radix')
    U.raw(ast_text, note='generated AST view: %d node types, %d accessors' % (n_nodes, n_acc))
    for _gf in ('nodes.rs', 'tokens.rs'):
        U.file('crates/oq3_syntax/src/ast/generated/' + _gf).guard_file('generated typed-AST accessors / casts: the analyser model sees them as opaque functions of the node; pinned as a whole')
    U.raw('}\npub mod semantic_error {\nuse vstd::prelude::*;\n')
    U.file(ERR).item('enum', 'SemanticErrorKind')
    U.raw('''/// semantic_error.rs: the diagnostics of one file, and (nested) those of the files it includes (opaque)
#[verifier::external_body] pub struct SemanticErrorList { _p: u8 }
impl SemanticErrorList {
    pub uninterp spec fn kinds(&self) -> Seq<SemanticErrorKind>;
    pub uninterp spec fn included(&self) -> Seq<SemanticErrorList>;
    /// unit SYM: SemanticErrorList::new
    #[verifier::external_body] pub fn new(source_file_path: crate::source::PathBuf) -> (r: SemanticErrorList)
        ensures r.kinds() == Seq::<SemanticErrorKind>::empty(), r.included().len() == 0
    { unimplemented!() }
    /// unit SYM: SemanticErrorList::insert appends exactly one diagnostic of the given kind
    #[verifier::external_body] pub fn insert<T: crate::synast::AstNode>(&mut self, kind: SemanticErrorKind, node: &T)
        ensures final(self).kinds() == old(self).kinds().push(kind), final(self).included() == old(self).included()
    { unimplemented!() }
}
impl SemanticErrorKind {
    /// semantic_error.rs: io::ErrorKind -> FileNotFound / PermissionDenied / IOError
    #[verifier::external_body] pub fn from_io_error(io_error: crate::source::IoErrorKind) -> SemanticErrorKind { unimplemented!() }
}
}
''')
    U.raw(open(__file__.replace('units/sema.py', 'contracts/sema.source.rs')).read())
    # ---- asg.rs, all of it
    U.raw('pub mod asg {\nuse vstd::prelude::*;\nuse crate::symbols::SymbolIdResult;\nuse crate::types;\nuse crate::types::{ArrayDims, IsConst, Type};\n')
    a = U.file(ASG)
    U.raw(open(__file__.replace('units/sema.py', 'contracts/sema.asgspecs.rs')).read())
    U.raw('''// vstd's hook for TryFrom impls: no functional spec is claimed through it (the contract is on try_from itself)
impl vstd::std_specs::convert::TryFromSpecImpl<&TExpr> for u32 {
    open spec fn obeys_try_from_spec() -> bool { false }
    open spec fn try_from_spec(v: &TExpr) -> Result<u32, TryFromU32Error> { arbitrary() }
}
''')
    ov = asg_structural_contracts()
    U.n_structural = len(ov)
    T_ = 'crate::types::'
    TYP = dict(props=['C08'], ret='r')
    ov.update({
        'Program::set_version': dict(props=['C03'], spec='requires old(self).version is None,                       // the `panic!` of the body\nensures final(self).version == Some(version), final(self).stmts == old(self).stmts,'),
        'Program::insert_stmt': dict(props=['C06'], spec='ensures final(self).stmts@ == old(self).stmts@.push(stmt), final(self).version == old(self).version,     //@C06:statements-appended-in-order'),
        'AnnotatedStmt::new': dict(props=['C03', 'C06'], ret='r', spec='requires !(stmt is AnnotatedStmt),                          // the `panic!` of the body\nensures r.stmt == stmt, r.annotations == annotations,'),
        'implicit_cast_type': dict(props=['C08', 'C20'], ret='r', spec='ensures arith_common(*op, *ty1, *ty2, r),                                  //@C20,C08:arith-common-type'),
        'GateOperand::to_texpr': dict(props=['C13', 'C06'], ret='r', spec='ensures r.ty == typ, r.expression == Expr::GateOperand(self),'),
        'DeclareClassical::to_stmt': dict(props=['C08', 'C06'], ret='r', spec='ensures r == Stmt::DeclareClassical(Box::new(self)),'),
        'Assignment::to_stmt': dict(props=['C08', 'C06'], ret='r', spec='ensures r == Stmt::Assignment(self),'),
        'TExpr::get_type': dict(props=['C08', 'C06'], ret='r', spec='ensures *r == self.ty,'),
        'Cast::get_type': dict(props=['C08'], ret='r', spec='ensures *r == self.typ,'),
        'Cast::to_expr': dict(props=['C08', 'C06'], ret='r', spec='ensures r == Expr::Cast(Box::new(self)),'),
        'BoolLiteral::to_expr': dict(props=['C08', 'C06'], ret='r', spec='ensures r == Expr::Literal(Literal::Bool(self)),'),
        'IntLiteral::new': dict(props=['C08', 'C06'], ret='r', spec='ensures r.sign == sign,     //@C06:constructor-keeps-its-arguments'),
        'IntLiteral::to_expr': dict(props=['C08', 'C06'], ret='r', spec='ensures r == Expr::Literal(Literal::Int(self)),'),
        'IntLiteral::to_imaginary_expr': dict(props=['C08', 'C06'], ret='r', spec='ensures r == Expr::Literal(Literal::ImaginaryInt(self)),'),
        'FloatLiteral::to_expr': dict(props=['C08', 'C06'], ret='r', spec='ensures r == Expr::Literal(Literal::Float(self)),'),
        'FloatLiteral::to_imaginary_expr': dict(props=['C08', 'C06'], ret='r', spec='ensures r == Expr::Literal(Literal::ImaginaryFloat(self)),'),
        'TimingIntLiteral::to_expr': dict(props=['C08', 'C06'], ret='r', spec='ensures r == Expr::Literal(Literal::TimingIntLiteral(self)),'),
        'TimingFloatLiteral::to_expr': dict(props=['C08', 'C06'], ret='r', spec='ensures r == Expr::Literal(Literal::TimingFloatLiteral(self)),'),
        'BinaryExpr::to_expr': dict(props=['C08', 'C06'], ret='r', spec='ensures r == Expr::BinaryExpr(Box::new(self)),'),
        # literal classes and their types (C08): all const
        'BoolLiteral::to_texpr': dict(TYP, spec='ensures r.ty == Type::Bool(IsConst::True), r.expression == Expr::Literal(Literal::Bool(self)),        //@C08,C06:literal-type'),
        'IntLiteral::to_texpr': dict(TYP, spec='ensures r.ty is Int && ' + T_ + 'sp_is_const(r.ty), r.expression == Expr::Literal(Literal::Int(self)),       //@C08,C06:literal-type'),
        'IntLiteral::to_imaginary_texpr': dict(TYP, spec='ensures !co_imag_int() ==> r.ty is Complex, ' + T_ + 'sp_is_const(r.ty), r.expression == Expr::Literal(Literal::ImaginaryInt(self)),   //@C08,C06:literal-type'),
        'FloatLiteral::to_texpr': dict(TYP, spec='ensures r.ty is Float && ' + T_ + 'sp_is_const(r.ty), r.expression == Expr::Literal(Literal::Float(self)),   //@C08,C06:literal-type'),
        'FloatLiteral::to_imaginary_texpr': dict(TYP, spec='ensures r.ty is Complex && ' + T_ + 'sp_is_const(r.ty), r.expression == Expr::Literal(Literal::ImaginaryFloat(self)),   //@C08,C06:literal-type'),
        'TimingIntLiteral::to_texpr': dict(TYP, spec='ensures r.ty == Type::Duration(IsConst::True), r.expression == Expr::Literal(Literal::TimingIntLiteral(self)),   //@C08,C06:literal-type'),
        'TimingFloatLiteral::to_texpr': dict(TYP, spec='ensures r.ty == Type::Duration(IsConst::True), r.expression == Expr::Literal(Literal::TimingFloatLiteral(self)),   //@C08,C06:literal-type'),
        'Cast::to_texpr': dict(TYP, spec='ensures r.ty == self.typ, r.expression == Expr::Cast(Box::new(self)),                                       //@C08,C06:cast-has-target-type'),
        'MeasureExpression::to_texpr': dict(TYP, spec='''ensures
    (self.operand.ty is Qubit || self.operand.ty is HardwareQubit) ==> r.ty == Type::Bit(IsConst::False),
    self.operand.ty is QubitArray ==> r.ty == Type::BitArray(self.operand.ty->QubitArray_0, IsConst::False),
    !(self.operand.ty is Qubit || self.operand.ty is HardwareQubit || self.operand.ty is QubitArray) ==> r.ty == Type::Undefined,   //@C08:measure-has-bit-shape
    r.expression == Expr::MeasureExpression(Box::new(self)),                                  //@C06:expression-kind'''),
        'UnaryExpr::to_texpr': dict(TYP, spec='''ensures
    self.op is Not ==> r.ty == Type::Bool(IsConst::False),
    !(self.op is Not) ==> r.ty == self.operand.ty,                                          //@C08:unary-type
    r.expression == Expr::UnaryExpr(Box::new(self)),                                        //@C06:expression-kind'''),
        'BinaryExpr::to_texpr': dict(TYP, spec='ensures r.ty == typ, r.expression == Expr::BinaryExpr(Box::new(self)),     //@C08,C06:expression-kind'),
        'BinaryExpr::new_texpr_with_cast': dict(TYP, spec='''ensures
    r.expression is BinaryExpr, r.expression->BinaryExpr_0.op == op,
    // arithmetic: the expression has the common type of its operands, and each operand either
    // already has that type or is wrapped in an explicit cast to exactly it
    op is ArithOp ==> ({
        let t = r.ty; let b = r.expression->BinaryExpr_0;
        &&& (b.left == left && left.ty == t) || is_cast_to(b.left, left, t)
        &&& (b.right == right && right.ty == t) || is_cast_to(b.right, right, t)
        &&& arith_common(op->ArithOp_0, left.ty, right.ty, t)
    }),                                                                                       //@C08,C06:arith-operands-cast-to-common-type-in-order
    !(op is ArithOp) ==> r.expression->BinaryExpr_0.left == left && r.expression->BinaryExpr_0.right == right,'''),
        'TryFrom<&TExpr> for u32::try_from': dict(props=['C09'], ret='r', d8=True, spec='''ensures
    // only a cast of a non-negative integer literal that fits u32 is a designator value
    match const_int_of(*value) {
        Some(n) => (n <= u32::MAX ==> r == Ok::<u32, TryFromU32Error>(n as u32)) && (n > u32::MAX ==> r is Err),
        None => r is Err,
    },                                                                                        //@C09:designator-value-fits-or-error'''),
        'IndexedIdentifier::indexes': dict(ret='r', spec='ensures r@ == self.indexes@,'),
    })
    for q, why in ASG_TRUSTED.items():
        ov[q] = dict(trusted=True, note=why)
    ov['BitStringLiteral::to_texpr'] = dict(trusted=True, ret='r', props=['C08'], note='`chars().filter(..).count()` (iterator adapters): not verified; the contract is what the body says about kind, const-ness and expression',
        spec='ensures r.expression == Expr::Literal(Literal::BitString(self)), r.ty is BitArray && ' + T_ + 'sp_is_const(r.ty),      // (assumed) bit-string literal: a const bit register')
    a.ingest(overrides=ov, skip=ASG_SKIP, default=lambda q, sig: dict(props=P))
    U.raw('}\n')
    # ---- the analyser (syntax_to_semantics.rs) at the crate root
    U.raw('''use types::{ArrayDims, IsConst, Type};
use context::Context;
use semantic_error::SemanticErrorKind::{self, *};
use symbols::{ScopeType, SymbolIdResult, SymbolTable, SymbolError, SymbolId};
use semantic_error::SemanticErrorList;
use source::{SourceFile, SourceString, SourceTrait, Path, PathBuf};
use std::mem::replace;
// assumed-dep (std): mem::replace stores the new value and returns the old one
pub assume_specification<T> [std::mem::replace] (dest: &mut T, src: T) -> (r: T)
    ensures *final(dest) == src, r == *old(dest);
use vstd::std_specs::iter::IteratorSpec;
use synast::{HasArgList, HasName, HasTextNode};
pub mod oq3_syntax { pub use crate::synast::BlockOrStmt; pub mod ast { pub use crate::synast::*; } }
/// crate::utils::type_name_of (std::any::type_name; only used inside a panic message)
#[verifier::external_body] fn type_name_of<T>(_x: T) -> &'static str { unimplemented!() }
// assumed-dep (std): String -> &str views keep the characters
pub assume_specification [<String as AsRef<str>>::as_ref] (s: &String) -> (r: &str) ensures r@ == s@;
// assumed-dep (std): Result::clone clones the payload of the same variant
pub assume_specification<T: Clone, EE: Clone> [<Result<T, EE> as Clone>::clone] (x: &Result<T, EE>) -> (c: Result<T, EE>)
    ensures match (*x, c) { (Ok(a), Ok(b)) => cloned(a, b), (Err(a), Err(b)) => cloned(a, b), _ => false };
''')
    z = U.file(S2S)
    z.item('struct', 'ParseResult')
    U.raw('impl Clone for Context { #[verifier::external_body] fn clone(&self) -> (r: Context) ensures r == *self { unimplemented!() } }   // #[derive(Clone)]\n')
    z.item('macro_rules', 'not_impl')
    U.file(CTX).item('macro_rules', 'with_scope')
    zov = {}
    NEWLY = ['qubit_list_to_asg_texpr', 'expression_list_to_asg_texpr', 'indexed_identifier_to_asg_type', 'block_expr_to_asg_stmt_list',
             'block_expr_to_asg_type', 'block_or_stmt_to_asg_type', 'stmt_to_asg_stmt', 'expr_stmt_to_asg_stmt', 'bind_parameter_list', 'bind_typed_parameter_list']
    for fn in NEWLY:
        zov[fn] = dict(closures=True, spec='ensures grows(*old(context), *final(context)),', loop_ghost='broadcast use sema_lemmas;')
    ITER = lambda it, extra='': 'invariant\n    scoped(*old(context), *context),%s\nensures %s.rest().len() == 0,\ndecreases %s.rest().len(),' % (extra, it, it)
    ITER_NB = lambda it, extra='': ITER(it, ' same_scopes(*old(context), *context),' + extra)
    NONGLOBAL = 'requires !old(context).global(),      // a nested `include` is diagnosed, never evaluated (the `unreachable!` of stmt_to_asg_stmt)\n'
    zov['qubit_list_to_asg_texpr'].update(ret='r', props=['C06', 'C03', 'C13'], loops={1: ITER_NB('oq3_it1', '\n    qubit_list is Some, oq3_v1@.len() + oq3_it1.rest().len() == qubit_list->Some_0.sp_gate_operands().len(),')},
        spec='requires qubit_list is Some,    // the `unwrap` of the body\nensures grows(*old(context), *final(context)), r@.len() == qubit_list->Some_0.sp_gate_operands().len(),     //@C06:operands-keep-count')
    zov['expression_list_to_asg_texpr'].update(ret='r', props=['C06', 'C03'], loops={1: ITER_NB('oq3_it1', '\n    oq3_v1@.len() + oq3_it1.rest().len() == expression_list.sp_exprs().len(),')},
        spec='ensures grows(*old(context), *final(context)), r@.len() == expression_list.sp_exprs().len(),     //@C06:arguments-keep-count')
    zov['indexed_identifier_to_asg_type'].update(ret='r', props=['C06', 'C03', 'C07'], loops={1: ITER_NB('oq3_it1', '\n    oq3_v1@.len() + oq3_it1.rest().len() == indexed_identifier.sp_index_operators().len(),')},
        spec='ensures grows(*old(context), *final(context)), r.0.indexes@.len() == indexed_identifier.sp_index_operators().len(),     //@C06,C07:indexes-keep-count')
    DECLS = 'forall|i: int| 0 <= i < %s.sp_statements().len() ==> decl_bound(*final(context), #[trigger] %s.sp_statements()[i]),     //@C07:declarations-bind-in-the-scope-of-their-block'
    zov['block_expr_to_asg_stmt_list'].update(ret='r', props=['C06', 'C03', 'C07', 'C13', 'C08', 'C09'], loops={1: ITER('oq3_it1', '''
    !context.global(), oq3_v1@.len() + oq3_it1.rest().len() <= block.sp_statements().len(),
    oq3_it1.rest().len() <= block.sp_statements().len(),
    oq3_it1.rest() =~= block.sp_statements().skip(block.sp_statements().len() - oq3_it1.rest().len()),
    forall|i: int| 0 <= i < block.sp_statements().len() - oq3_it1.rest().len() ==> decl_bound(*context, #[trigger] block.sp_statements()[i]),
    block_ok(block.sp_statements().take(block.sp_statements().len() - oq3_it1.rest().len()), oq3_v1@),''')},
        spec=NONGLOBAL + 'ensures grows(*old(context), *final(context)), r@.len() <= block.sp_statements().len(),\n    ' + DECLS % ('block', 'block')
             + '\n    block_ok(block.sp_statements(), r@),     //@C06:block-holds-the-translations-of-its-statements-in-order',
        ghost=[('{', 'after', 'proof { assert(block.sp_statements().take(0) =~= Seq::<synast::Stmt>::empty()); }')],
        loop_ghost='''broadcast use sema_lemmas;
let ghost ss = block.sp_statements(); let ghost k = ss.len() - oq3_it1.rest().len(); let ghost v0 = oq3_v1@;
proof { if k < ss.len() { assert(ss.take(k + 1).drop_last() =~= ss.take(k)); assert(ss.take(k + 1).last() == ss[k as int]); assert(oq3_it1.rest()[0] == ss[k as int]); } else { assert(ss.take(k as int) =~= ss); } }''')
    zov['block_expr_to_asg_type'].update(ret='r', spec=NONGLOBAL + 'ensures grows(*old(context), *final(context)),\n    ' + DECLS % ('block_synast', 'block_synast')
             + '\n    block_ok(block_synast.sp_statements(), r.statements@),     //@C06:block-holds-the-translations-of-its-statements-in-order')
    zov['block_or_stmt_to_asg_type'].update(ret='r', spec=NONGLOBAL + 'ensures grows(*old(context), *final(context)),\n    bors_ok(val, r),     //@C06:body-holds-the-translations-of-its-statements')
    zov['bind_parameter_list'].update(ret='r', props=['C09', 'C07', 'C03', 'C13'], loops={1: ITER('oq3_it1', '''
    oq3_v1@.len() + oq3_it1.rest().len() == param_list.sp_params().len(),
    oq3_it1.rest() =~= param_list.sp_params().skip(oq3_v1@.len() as int),
    context.trace().len() == old(context).trace().len() + oq3_v1@.len(),
    forall|i: int| 0 <= i < oq3_v1@.len() ==> context.trace()[old(context).trace().len() + i] == context::Ev::Bind(param_list.sp_params()[i].sp_string(), *typ),''')},
        spec='''ensures grows(*old(context), *final(context)), (r is Some) == (inparam_list is Some), r is Some ==> r->Some_0@.len() == inparam_list->Some_0.sp_params().len(),     //@C09:one-symbol-per-parameter
    // every parameter is declared, in order, with exactly the given type, and nothing else happens to the symbol table
    final(context).trace().len() == old(context).trace().len() + n_params(inparam_list),
    inparam_list is Some ==> (forall|i: int| 0 <= i < n_params(inparam_list) ==>
        final(context).trace()[old(context).trace().len() + i] == context::Ev::Bind(inparam_list->Some_0.sp_params()[i].sp_string(), *typ)),     //@C09:parameters-get-their-type''')
    zov['bind_typed_parameter_list']['ghost'] = list(zov['bind_typed_parameter_list'].get('ghost', [])) + [
        ('                context.new_binding(namestr.as_ref(), &typ, &param)', 'before', 'proof { assert(ptype_ok(param.sp_param_type(), typ)); }      //@C09:parameter-bound-with-the-type-written\n')]
    zov['bind_typed_parameter_list'].update(ret='r', props=['C09', 'C07', 'C03'], loops={1: ITER('oq3_it1', '''
    oq3_v1@.len() + oq3_it1.rest().len() == param_list.sp_typed_params().len(),
    oq3_it1.rest() =~= param_list.sp_typed_params().skip(oq3_v1@.len() as int),
    forall|i: int| 0 <= i < oq3_v1@.len() ==> context.in_current_scope((#[trigger] param_list.sp_typed_params()[i]).sp_name()->Some_0.sp_string()),''')},
        spec='''ensures grows(*old(context), *final(context)), (r is Some) == (inparam_list is Some), r is Some ==> r->Some_0@.len() == inparam_list->Some_0.sp_typed_params().len(),     //@C09:one-symbol-per-parameter
    // every parameter is declared in the scope that is current (the subroutine's own scope): its name is bound THERE afterwards,
    // whatever is visible further out (a parameter shadows, it never reuses an outer symbol)
    inparam_list is Some ==> (forall|i: int| 0 <= i < inparam_list->Some_0.sp_typed_params().len() ==>
        final(context).in_current_scope((#[trigger] inparam_list->Some_0.sp_typed_params()[i]).sp_name()->Some_0.sp_string())),     //@C09,C07:parameters-bound-in-the-subroutine-scope''')
    zov['stmt_to_asg_stmt'].update(ret='r', props=P, loops={1: ITER_NB('oq3_it1', '''
    oq3_v1@.len() + oq3_it1.rest().len() == switch_case_stmt.sp_case_exprs().len(),
    oq3_it1.rest() =~= switch_case_stmt.sp_case_exprs().skip(oq3_v1@.len() as int),
    forall|k: int| 0 <= k < oq3_v1@.len() ==> case_ok(#[trigger] switch_case_stmt.sp_case_exprs()[k], oq3_v1@[k]),''')},
        spec='''requires stmt is Include ==> !old(context).global(),      // the `unreachable!` of the Include arm
ensures grows(*old(context), *final(context)),
    stmt_kind_ok(stmt, r),                                                                  //@C06,C03:statement-kind
    // unsupported statement kinds are reported, not dropped silently
    unsupported_stmt(stmt) ==> final(context).errs() == old(context).errs().push(SemanticErrorKind::NotImplementedError),     //@C03:unsupported-statement-reported
    // a declaration that bound nothing (a redeclaration) is marked as such in the graph, and only then
    (r is Some && declared_symbol(r->Some_0) is Some) ==> ((final(context).scopes() == old(context).scopes()) <==> declared_symbol(r->Some_0)->Some_0 is Err),     //@C07:redeclaration-marked-in-the-graph
    decl_bound(*final(context), stmt),                                                                //@C07:declarations-bind-in-the-scope-of-their-block
    bodies_ok(stmt, r),                                                                               //@C06,C05:bodies-attached-in-their-roles''')
    zov['expr_stmt_to_asg_stmt'].update(ret='r', props=['C03', 'C06', 'C07', 'C13'], loops={1: ITER_NB('oq3_it1', '''
    oq3_v1@.len() + oq3_it1.rest().len() == mod_gate_call.sp_modifiers().len(),
    oq3_it1.rest() =~= mod_gate_call.sp_modifiers().skip(oq3_v1@.len() as int),
    forall|i: int| 0 <= i < oq3_v1@.len() ==> mod_same(#[trigger] mod_gate_call.sp_modifiers()[i], oq3_v1@[i]),''')},
        spec='''ensures grows(*old(context), *final(context)),
    expr_stmt_ok(expr_stmt.sp_expr(), r),                                               //@C06,C13:gate-call-kind-and-modifier-order''')
    zov['stmt_to_asg_stmt']['with_scope'] = open(os.path.join(REPO, CTX)).read()
    A_ = lambda pred, label, tg='C07': 'proof { assert(%s(*old(context), *context)); }     //@%s:%s' % (pred, tg, label)
    zov['stmt_to_asg_stmt']['ghost'] = [
        ('let then_branch = block_or_stmt_to_asg_type(', 'before', A_('fresh_scope', 'then-body-in-own-scope')),
        ('let else_branch =', 'before', A_('fresh_scope', 'else-body-in-own-scope')),
        ('let loop_body = block_or_stmt_to_asg_type(while_stmt', 'before', A_('fresh_scope', 'while-body-in-own-scope')),
        ('let iterable = if let Some(set_expression)', 'before', A_('same_scopes', 'for-iterable-analysed-in-enclosing-scope')),
        ('let loop_var_symbol_id = context.new_binding(', 'before', A_('fresh_scope', 'loop-variable-in-own-scope')),
        ('let loop_body = block_or_stmt_to_asg_type(for_stmt', 'before', A_('one_scope_deeper', 'for-body-in-loop-variable-scope')),
        ('let statements = block_expr_to_asg_stmt_list(case_expr', 'before', A_('fresh_scope', 'case-body-in-own-scope')),
        ('let default_statements =', 'before', A_('fresh_scope', 'default-body-in-own-scope')),
        ('let params = bind_parameter_list(gate.angle_params()', 'before', A_('fresh_scope', 'gate-parameters-in-own-scope')),
        ('let gate_name_symbol_id = context.new_binding(', 'before', A_('same_scopes', 'gate-name-bound-in-enclosing-scope-after-body')),
        ('let params = bind_typed_parameter_list(', 'before', A_('fresh_scope', 'subroutine-parameters-in-own-scope')),
        ('let return_type = match', 'before', A_('same_scopes', 'return-type-analysed-outside-subroutine-scope', 'C09,C07')),
        ('let def_name_symbol_id = context.new_binding(', 'before', A_('same_scopes', 'subroutine-name-bound-in-enclosing-scope-after-body')),
        # ---- C13: declarations outside the global scope and a non-duration delay are reported, and nothing else is
        ('            let name_str = if let Some(name_str) = q_decl.name() {', 'before', 'proof { assert(context.errs() == old(context).errs() + cond1(!old(context).global(), SemanticErrorKind::NotInGlobalScopeError)); }     //@C13:qubit-declaration-outside-global-scope'),
        ('            let name_node = gate.name().unwrap();\n', 'before', 'proof { assert(context.errs() == old(context).errs() + cond1(!old(context).global(), SemanticErrorKind::NotInGlobalScopeError)); }     //@C13:gate-definition-outside-global-scope'),
        ('let params = bind_typed_parameter_list(', 'before', 'proof { assert(context.errs() == old(context).errs() + cond1(!old(context).global(), SemanticErrorKind::NotInGlobalScopeError)); }     //@C13:subroutine-definition-outside-global-scope'),
        ('            let duration =\n                expr_to_asg_texpr(delay_stmt.designator().unwrap().expr(), context).unwrap();', 'after', 'let ghost midd = *context;'),
        ('            Some(asg::Stmt::Delay(asg::DelayStmt::new(', 'before', 'proof { assert(context.errs() == midd.errs() + cond1(!(duration.ty is Duration), SemanticErrorKind::IncompatibleTypesError)); }     //@C13:non-duration-delay-reported'),
        # (C06: branches / loop bodies in their roles, else branch iff written: postcondition bodies_ok)
        # ---- C07: a declaration that bound nothing is marked in the graph
        ('context.new_binding(name_str.as_ref(), &typ, &q_decl);', 'after', RM_('symbol_id', 'name_str@')),
        ('Some(asg::GateDefinition::new(gate_name_symbol_id, params, qubits, block).to_stmt())', 'before', RM_('gate_name_symbol_id', 'gate.sp_name()->Some_0.sp_string()')),
        ('Some(\n                asg::DefStmt::new(def_name_symbol_id, params.unwrap(), block, return_type)', 'before', RM_('def_name_symbol_id', 'def_stmt.sp_name()->Some_0.sp_string()')),
        ('context.new_binding(name_str.as_ref(), rhs.get_type(), &alias_stmt);', 'after', RM_('symbol_id', 'name_str@')),
        # ---- C09: the declared symbol carries exactly the declared type
        ('Some(asg::GateDefinition::new(gate_name_symbol_id, params, qubits, block).to_stmt())', 'before', '''proof {
    let b = context.trace().last();
    assert(last_bind(*context, gate.sp_name()->Some_0.sp_string()) && b->Bind_1 is Gate
           && b->Bind_1->Gate_0 == n_params(gate.sp_angle_params()) && b->Bind_1->Gate_1 == n_params(gate.sp_qubit_params()));     //@C09:gate-arity-as-declared
}'''),
        ('Some(\n                asg::DefStmt::new(def_name_symbol_id, params.unwrap(), block, return_type)', 'before', '''proof {
    let b = context.trace().last();
    let st = match def_stmt.sp_return_signature() { Some(rs) => rs.sp_scalar_type(), None => None };
    assert(last_bind(*context, def_stmt.sp_name()->Some_0.sp_string()) && b->Bind_1 is SubroutineDef
           && b->Bind_1->SubroutineDef_0.num_params == def_stmt.sp_typed_param_list()->Some_0.sp_typed_params().len()
           && (st is None ==> *b->Bind_1->SubroutineDef_0.return_type == Type::Void)
           && (st is Some ==> *b->Bind_1->SubroutineDef_0.return_type == type_of(st->Some_0.sp_kind(), written_width(*b->Bind_1->SubroutineDef_0.return_type), true)));     //@C09:subroutine-signature-as-declared
}'''),
        ('Some(asg::DeclareQuantum::new(symbol_id).to_stmt())', 'before', '''proof {
    let b = context.trace().last();
    let d = q_decl.sp_qubit_type()->Some_0.sp_designator();
    let dd: Option<&synast::Designator> = match d { Some(x) => Some(&x), None => None };
    assert(last_bind(*context, q_decl.sp_name()->Some_0.sp_string())
           && (d is None ==> b->Bind_1 == Type::Qubit)
           && ((des_int_literal(dd) is Some && !co_width_truncation(des_int_literal(dd)->Some_0))
                   ==> b->Bind_1 == Type::QubitArray(ArrayDims::D1(des_int_literal(dd)->Some_0 as u32 as usize))));     //@C09:qubit-register-length-as-declared
}'''),
    ]
    D3_OLD = """
        .arg_list()
        .map(|ex| expression_list_to_asg_texpr(ex.expression_list().unwrap(), context));"""
    zov['gate_call_expr_to_asg_stmt'] = dict(closures=True)
    zov['call_expr_to_asg_texpr'] = dict(closures=True)
    from vlib.rustsrc import RustFile
    rfz = RustFile(os.path.join(REPO, S2S))
    for fn in sorted({g[0] for g in PANIC_GUARDS} | {g[0] for g in GHOST_ASSUMES}):
        it = rfz.find_fn(fn, None, 0)
        body = rfz.src[it['header_start']:it['end']]
        kw = zov.setdefault(fn, {})
        base_rw = list(kw.get('rewrites', []))
        # panic rewrites are computed on the text AFTER the desugaring rewrites of the function
        tmp = body
        for rw in base_rw:
            tmp = tmp.replace(rw[1], rw[2])
        kw['rewrites'] = base_rw + panic_rewrites(fn, tmp)
        kw['ghost'] = list(kw.get('ghost', [])) + [(a, 'before', t) for f_, a, t in GHOST_ASSUMES if f_ == fn]
    U.raw(open(__file__.replace('units/sema.py', 'contracts/sema.specs.rs')).read())
    zov.setdefault('binary_op_to_asg_type', {}).update(dict(ret='r', props=['C06', 'C03'], spec='''
ensures
    // every operator maps to the graph operator of the same meaning
    synast_op is ArithOp ==> r is ArithOp && arith_same(synast_op->ArithOp_0, r->ArithOp_0),                       //@C06:operator-identity
    (synast_op is CmpOp && synast_op->CmpOp_0 is Eq && !synast_op->CmpOp_0->Eq_negated) ==> r is CmpOp && r->CmpOp_0 is Eq,    //@C06:operator-identity
    (synast_op is CmpOp && synast_op->CmpOp_0 is Eq && synast_op->CmpOp_0->Eq_negated) ==> r is CmpOp && r->CmpOp_0 is Neq,    //@C06:operator-identity
    synast_op is ConcatenationOp ==> r is ConcatenationOp,                                                          //@C06:operator-identity
    (synast_op is PowerOp && !co_power_op(synast_op)) ==> r is PowerOp,                                             //@C06:operator-identity
'''))
    zov.setdefault('lookup_identifier', {}).update(dict(ret='r', props=['C07', 'C08', 'C13'], spec='''
ensures
    // an identifier has the id and the type of its symbol; an unresolved one is marked, typed
    // undefined and reported exactly once
    r.0 == lookup_id(*old(context), identifier.sp_string()), r.1 == lookup_type(*old(context), identifier.sp_string()),   //@C07,C08:identifier-has-symbol-type
    final(context).errs() == old(context).errs() + undef_diag(*old(context), identifier.sp_string(), SemanticErrorKind::UndefVarError),   //@C07:undefined-reported-once
    final(context).same_tables_but_trace(old(context)), grows(*old(context), *final(context)),
'''))
    zov.setdefault('gate_operand_to_asg_texpr', {}).update(dict(ret='r', props=['C13', 'C03', 'C07'], spec='''
ensures
    grows(*old(context), *final(context)),
    gate_operand is HardwareQubit ==> r.ty == Type::HardwareQubit && final(context).errs() == old(context).errs(),
    // a non-quantum symbol as gate / measure / reset operand is reported, a quantum one is not
    gate_operand is Identifier ==> ({
        let n = gate_operand->Identifier_0.sp_string();
        let t = lookup_type(*old(context), n);
        r.ty == t && final(context).errs() == old(context).errs() + undef_diag(*old(context), n, SemanticErrorKind::UndefVarError)
                + cond1(!is_quantum_operand_type(t), SemanticErrorKind::IncompatibleTypesError)
    }),                                                                                                              //@C13:operand-must-be-quantum
    // ... and the operand stored in the graph is the symbol the name resolves to (also when it is not a quantum one)
    gate_operand is Identifier ==> r.expression == asg::Expr::GateOperand(asg::GateOperand::Identifier(lookup_id(*old(context), gate_operand->Identifier_0.sp_string()))),     //@C07,C06:operand-refers-to-its-symbol
''', ghost=[('indexed_identifier_to_asg_type(indexed_identifier, context);', 'after', 'let ghost mid_e = context.errs();'),
            # an indexed operand must be an element / slice of a qubit register: anything else is reported, a qubit register is not
            ('            asg::GateOperand::IndexedIdentifier(indexed_identifier).to_texpr(typ)', 'before',
             'proof { assert(context.errs() == mid_e + cond1(!(typ is QubitArray), SemanticErrorKind::IncompatibleTypesError)); }     //@C13:indexed-operand-must-be-a-qubit-register')]))
    zov.setdefault('get_ast_designator_expression', {}).update(dict(ret='r', props=['C09'], closures=True,
        spec='ensures r == des_expr(arg),'))
    zov.setdefault('designator_to_asg', {}).update(dict(ret='r', props=['C09', 'C03'], spec='''
ensures
    grows(*old(context), *final(context)),
    // no designator: no width, no diagnostic
    des_expr(designator) is None ==> r is None && final(context).errs() == old(context).errs(),
    // an integer literal yields exactly its value (carve-out: values that do not fit u32)
    des_int_literal(designator) is Some && !co_width_truncation(des_int_literal(designator)->Some_0)
        ==> r == Some(des_int_literal(designator)->Some_0 as u32) && final(context).errs() == old(context).errs(),    //@C09:literal-width-exact
    // any other literal is diagnosed and yields no width
    (des_expr(designator) is Some && des_expr(designator)->Some_0 is Literal && des_int_literal(designator) is None)
        ==> r is None && final(context).errs() == old(context).errs().push(SemanticErrorKind::ConstIntegerError),      //@C09:non-integer-width-diagnosed
    // a const identifier yields its recorded value, or InvalidDesignatorError if that is not an integer fitting u32
    (des_expr(designator) is Some && des_expr(designator)->Some_0 is Identifier) ==> ({
        let n = des_expr(designator)->Some_0->Identifier_0.sp_string();
        let c = *old(context);
        (c.resolve(n) is Some && types::sp_is_const(c.resolve(n)->Some_0.1) && c.const_value(c.resolve(n)->Some_0.0) is Some) ==> (
            match asg::const_int_of(c.const_value(c.resolve(n)->Some_0.0)->Some_0) {
                Some(v) => if v <= u32::MAX { r == Some(v as u32) && final(context).errs() == c.errs() }
                           else { final(context).errs() == c.errs().push(SemanticErrorKind::InvalidDesignatorError) },
                None => final(context).errs() == c.errs().push(SemanticErrorKind::InvalidDesignatorError),
            })
    }),                                                                                                                //@C09:const-identifier-width
    // KF C09-nonconst-designator-silent: a non-const identifier yields no width and NO diagnostic
    (des_expr(designator) is Some && des_expr(designator)->Some_0 is Identifier && !co_nonconst_designator()) ==> ({
        let n = des_expr(designator)->Some_0->Identifier_0.sp_string();
        let c = *old(context);
        (c.resolve(n) is Some && !types::sp_is_const(c.resolve(n)->Some_0.1)) ==> final(context).errs().len() > c.errs().len()
    }),                                                                                                                //@C09:non-constant-width-diagnosed
'''))
    zov['gate_call_expr_to_asg_stmt'].update(dict(ret='r', props=['C13', 'C03', 'C06'], spec='''
ensures
    r is Some, r->Some_0 is GateCall,
    r->Some_0->GateCall_0.modifiers == modifiers,                                                                     //@C06:modifiers-kept
    // reported iff the number of parameters / qubits differs from the definition; non-gate callee reported
    exists|mid: Context| gate_call_post(*old(context), mid, *final(context), gate_call_expr.sp_identifier()->Some_0.sp_string(),
        r->Some_0->GateCall_0.name, opt_len(r->Some_0->GateCall_0.params), r->Some_0->GateCall_0.qubits@.len()),   //@C13,C07:gate-call-resolves-and-arity-iff
'''))
    zov['gate_call_expr_to_asg_stmt']['ghost'] = [
        ('let gate_id = gate_call_expr.identifier();', 'before', 'let ghost mid = *context;'),
        ('Some(asg::Stmt::GateCall(asg::GateCall::new(', 'before', '''proof {
    let name = gate_call_expr.sp_identifier()->Some_0.sp_string();
    assert(gate_name@ == name);
    assert(num_params == opt_len(param_list));
    assert(gate_call_post(*old(context), mid, *context, name, symbol_result, opt_len(param_list), gate_operands@.len()));     //@C13,C07:gate-call-resolves-and-arity-iff
}'''),
    ]
    zov.setdefault('declare_classical_helper', {}).update(dict(ret='r', props=['C08', 'C03'], spec='''
ensures
    r == asg::Stmt::DeclareClassical(Box::new(asg::DeclareClassical { name: symbol_id, initializer })),
    final(context).errs() == old(context).errs(), final(context).trace() == old(context).trace(), final(context).symbol_table == old(context).symbol_table,
    // the value of a const symbol is recorded -- in whatever scope it is declared -- so that it can serve as a width / register length
    (initializer is Some && types::sp_is_const(initializer->Some_0.ty) && symbol_id is Ok)
        ==> final(context).const_value(symbol_id->Ok_0) == Some(initializer->Some_0),                                //@C09:const-value-recorded
'''))
    zov.setdefault('declare_classical_helper', {})['props'] = ['C08', 'C03', 'C09']
    zov.setdefault('can_cast_literal', {}).update(dict(ret='r', props=['C08'], rewrites=[('D23', 'matches!(lhs_type, &Type::UInt(..))', 'matches!(*lhs_type, Type::UInt(..))')], spec='ensures (r && !(*lhs_type is UInt && literal is Int)) ==> !types::must_diagnose(*lhs_type, *init_type),      //@C08:no-literal-cast-for-kind-lowering'))
    KL_ = 'proof { assert(types::must_diagnose(lhs_type, it0) ==> type_diag_last(context.errs())); assert((types::narrows(lhs_type, it0) && !(initializer.expression is Literal)) ==> type_diag_last(context.errs())); }     //@C08:kind-lowering-always-diagnosed'
    zov.setdefault('classical_declaration_statement_to_asg_stmt', {})['ghost'] = [
        # C08: a conversion that lowers the kind (float -> int, complex -> real, anything to or from bit / bool / duration /
        # angle of another kind) is diagnosed on every path: never stored silently, not even behind a cast
        ('context.new_binding(name_str.as_ref(), &lhs_type, type_decl);', 'after', RM_('symbol_id', 'name_str@')),
        ('        let init_type = initializer.get_type();', 'after', 'let ghost it0 = initializer.ty;'),
        ('            return asg::DeclareClassical::new(symbol_id, Some(initializer)).to_stmt();', 'before', KL_),
        # (uint <- integer literal is decided by the sign alone; that an integer literal expression is typed int is not an invariant of TExpr)
        ('                return declare_classical_helper(symbol_id, Some(new_initializer), context);', 'before', KL_.replace('types::must_diagnose(lhs_type, it0) ==>', '(types::must_diagnose(lhs_type, it0) && !(lhs_type is UInt && initializer.expression->Literal_0 is Int)) ==>')),
        ('                return declare_classical_helper(symbol_id, Some(initializer), context);', 'before', KL_),
        ('        return declare_classical_helper(symbol_id, Some(new_initializer), context);\n    }\n    declare_classical_helper(symbol_id, initializer, context)', 'before', KL_),
    ]
    zov.setdefault('classical_declaration_statement_to_asg_stmt', {}).update(dict(ret='r', props=['C08', 'C07', 'C09', 'C03'], spec='''
ensures
    grows(*old(context), *final(context)),
    // the name is bound after its type and its initializer have been analysed: the binding is the
    // last symbol-table event of the statement (the initializer cannot see the new name)
    final(context).trace().len() > 0 && final(context).trace().last() is Bind,                                  //@C07:initializer-analysed-before-binding
    r is DeclareClassical,
    type_decl.sp_name() is Some ==> final(context).in_current_scope(type_decl.sp_name()->Some_0.sp_string()),      //@C07:declarations-bind-in-the-scope-of-their-block
    // a redeclaration (nothing was bound) is marked as such in the graph: the declared symbol is Err exactly then
    (final(context).scopes() == old(context).scopes()) <==> r->DeclareClassical_0.name is Err,                  //@C07:redeclaration-marked-in-the-graph
    // declaration rule: the stored value has the declared type up to const, or is an explicit cast
    // to exactly the declared type, or a type diagnostic was reported
    r->DeclareClassical_0.initializer is Some ==>
        decl_ok(final(context).trace().last()->Bind_1, r->DeclareClassical_0.initializer->Some_0, final(context).errs()),   //@C08:declaration-rule
    // the symbol is recorded under the name written, with the type written: keyword, width and const-ness (`const` written or not --
    // whether or not there is an initializer)
    (type_decl.sp_array_type() is None && type_decl.sp_scalar_type() is Some && type_decl.sp_name() is Some) ==> ({
        let b = final(context).trace().last();
        &&& b->Bind_0 == type_decl.sp_name()->Some_0.sp_string()
        &&& b->Bind_1 == type_of(type_decl.sp_scalar_type()->Some_0.sp_kind(), written_width(b->Bind_1), type_decl.sp_const_token() is Some)
    }),                                                                                                             //@C09:declared-symbol-has-the-type-written
'''))
    zov.setdefault('assignment_stmt_to_asg_stmt', {}).update(dict(ret='r', props=['C08', 'C13', 'C03'], spec='''
ensures
    grows(*old(context), *final(context)), r is Some, r->Some_0 is Assignment,
    // assignment to a declared variable: value of exactly the variable's type (directly or through an
    // explicit cast to it) or one type diagnostic; MutateConstError iff the target is a const symbol
    assignment_stmt.sp_identifier() is Some ==> r->Some_0 is Assignment && (exists|mid: Context, td: Seq<SemanticErrorKind>|
        assign_post(*old(context), mid, *final(context), assignment_stmt.sp_identifier()->Some_0.sp_string(), td,
                    r->Some_0->Assignment_0.lvalue, r->Some_0->Assignment_0.rvalue)),                                     //@C08,C13:assignment-rule
''', ghost=[
            # C07 (indexed target): the target is resolved -- and reported if undefined -- once, by indexed_identifier_to_asg_type; between
            # it and the analysis of the right-hand side only TooManyIndexes may be reported, after it nothing
            ('indexed_identifier_to_asg_type(&indexed_identifier_ast, context);', 'after', 'let ghost tr_l = context.trace(); let ghost er_l = context.errs();'),
            ('    let expr = expr_to_asg_texpr(assignment_stmt.rhs(), context).unwrap();', 'before', 'proof { assert(context.trace() == tr_l && (context.errs() == er_l || context.errs() == er_l.push(SemanticErrorKind::TooManyIndexes))); }     //@C07,C13:indexed-target-resolved-once'),
            ('    let expr = expr_to_asg_texpr(assignment_stmt.rhs(), context).unwrap();', 'after', 'let ghost tr_r = context.trace(); let ghost er_r = context.errs();'),
            ('    let lvalue = asg::LValue::IndexedIdentifier(indexed_identifier);', 'after', 'proof { assert(context.trace() == tr_r && context.errs() == er_r); }     //@C07,C13:indexed-target-resolved-once'),
            ('indexed_identifier_to_asg_type(&indexed_identifier_ast, context);', 'after', 'let ghost tgt_ok = indexed_identifier.identifier is Ok; let ghost tgt_ty = typ;'),
            # C13 (from the statement: "assigning to a const symbol is reported"): also when the target is an element / slice of a const register
            ('\n    stmt_asg\n', 'before', 'proof { assert(context.trace() == tr_r && context.errs() == er_r + cond1(tgt_ok && tgt_ty is BitArray && types::sp_is_const(tgt_ty), SemanticErrorKind::MutateConstError)); }     //@C13:assignment-to-const-element-reported'),
            ('let (symbol_id, symbol_type) = context.lookup_symbol(name_str.as_str(), name).as_tuple();', 'before', 'let ghost mid = *context;'),
            ('let (symbol_id, symbol_type) = context.lookup_symbol(name_str.as_str(), name).as_tuple();', 'after', 'let ghost e1 = context.errs();'),
            ('        let expr_type = expr.get_type();', 'before', 'let ghost ex0 = expr;'),
            ('let stmt_asg = Some(asg::Assignment::new(lvalue, expr).to_stmt());', 'before', '''proof {
    // C08: a kind-lowering conversion is never stored silently (carve-out: the recorded integer-literal finding)
    // (integer-literal values are the recorded finding / decided by sign; no variable has type void)
    assert((symbol_ok && types::must_diagnose(symbol_type, ex0.ty) && !(ex0.expression is Literal && ex0.expression->Literal_0 is Int) && !(symbol_type is Void))
           ==> context.errs().len() == e1.len() + 1 && is_type_diag(context.errs().last()));     //@C08:kind-lowering-always-diagnosed
    // C08: a width narrowing of a non-constant (non-literal) value is never accepted silently either
    assert((symbol_ok && types::narrows(symbol_type, ex0.ty) && !(ex0.expression is Literal))
           ==> context.errs().len() == e1.len() + 1 && is_type_diag(context.errs().last()));     //@C08:width-narrowing-always-diagnosed
}'''),
            ('let stmt_asg = Some(asg::Assignment::new(lvalue, expr).to_stmt());', 'before', '''let ghost td = context.errs().skip(e1.len() as int);
let ghost lv0 = lvalue; let ghost rv0 = expr;
proof { assert(context.errs() =~= e1 + td); }'''),
            ('        return stmt_asg;', 'before', '''proof {
    assert(assign_post(*old(context), mid, *context, assignment_stmt.sp_identifier()->Some_0.sp_string(), td, lv0, rv0));    //@C08,C13:assignment-rule
}''')]))
    zov.setdefault('scalar_type_to_type', {}).update(dict(ret='r', props=['C09', 'C03'], spec='''
ensures
    grows(*old(context), *final(context)),
    // base type <-> keyword, const flag = argument, bit[n] / qubit[n] -> one-dimensional registers of length n
    r == type_of(scalar_type.sp_kind(), written_width(r), isconst),                                                  //@C09:declared-type-as-written
    width_as_written(*scalar_type, r),                                                                               //@C09:width-as-written
'''))
    zov.setdefault('literal_to_asg_texpr', {}).update(dict(ret='res', props=['C06', 'C08', 'C03'], spec='''ensures res is Some,
    // every literal class maps to the graph literal of the same class, typed as that class (const)
    match literal.sp_kind() {
        synast::LiteralKind::Bool(_) => res->Some_0.expression is Literal && res->Some_0.expression->Literal_0 is Bool && res->Some_0.ty == Type::Bool(IsConst::True),
        synast::LiteralKind::IntNumber(_) => res->Some_0.expression is Literal && res->Some_0.expression->Literal_0 is Int && res->Some_0.ty is Int,
        synast::LiteralKind::FloatNumber(_) => res->Some_0.expression is Literal && res->Some_0.expression->Literal_0 is Float && res->Some_0.ty is Float,
        synast::LiteralKind::BitString(_) => res->Some_0.expression is Literal && res->Some_0.expression->Literal_0 is BitString,
        _ => true,
    },                                                                                      //@C06,C08:literal-class
    typed_ok(res->Some_0),                                                                  //@C08:expression-typed-as-its-construct'''))
    zov.setdefault('paren_expr_to_asg_texpr', {}).update(dict(ret='res', props=['C08', 'C06', 'C03'], spec='ensures res is Some, grows(*old(context), *final(context)), typed_ok(res->Some_0),     //@C08:expression-typed-as-its-construct\n    paren_expr.sp_expr() is Some ==> expr_kind_ok(paren_expr.sp_expr()->Some_0, res->Some_0),     //@C06:parentheses-are-transparent'))
    zov.setdefault('io_declaration_statement_to_asg_stmt', {}).update(dict(ret='r', props=['C06', 'C09', 'C03'], spec='''ensures grows(*old(context), *final(context)),
    if type_decl.sp_input_token() is Some { r is InputDeclaration } else { r is OutputDeclaration },          //@C06:statement-kind
    (final(context).scopes() == old(context).scopes()) <==> declared_symbol(r)->Some_0 is Err,                   //@C07:redeclaration-marked-in-the-graph
    // an input / output variable is recorded under its name with the type written, never const
    (type_decl.sp_scalar_type() is Some && type_decl.sp_name() is Some) ==> ({
        let b = final(context).trace().last();
        &&& final(context).trace().len() > 0 && b is Bind && b->Bind_0 == type_decl.sp_name()->Some_0.sp_string()
        &&& b->Bind_1 == type_of(type_decl.sp_scalar_type()->Some_0.sp_kind(), written_width(b->Bind_1), false)
    }),                                                                                                             //@C09:declared-symbol-has-the-type-written''',
        ghost=[('context.new_binding(name_str.as_ref(), &typ, &type_decl.name().unwrap());', 'after', RM_('symbol_id', 'name_str@'))]))
    zov['syntax_to_semantic'] = dict(ret='r', props=['C03', 'C06', 'C07', 'C11', 'C12', 'C13', 'C08', 'C09'],     # (every top-level statement is analysed: whatever the analysis reports or records depends on it)
         for_iter=['statements'], destruct=True, string_eq=['file_path'],
        spec='''requires
    context.wf(), context.global(),
    source::analyzable(parsed_source.sp_syntax_ast(), parsed_source.sp_included()) /* AP: established by oq3_source_file::parse_included_files */,
ensures
    // only the global scope is open afterwards, and nothing that was bound has been removed or replaced
    r.0.wf(), r.0.global(),                                                              //@C03,C07:only-global-scope-open
    sub_scope(context.scopes().last(), r.0.scopes().last()),                             //@C07:global-bindings-kept
    // the statements of the program so far are kept, in order: this file's statements are appended
    stmts_ext(context.program.stmts@, r.0.program.stmts@),                               //@C06:statements-appended-in-source-order
    r.0.program.version == context.program.version,
    // the caller's list of diagnostics is handed back untouched; this file's list only grows
    r.0.semantic_errors.kinds() == context.semantic_errors.kinds(),
    ext(errors.kinds(), r.1.kinds()),''',
        loops={1: '''invariant
    context.wf(), context.global(),
    sub_scope(ctx0.scopes().last(), context.scopes().last()),
    stmts_ext(ctx0.program.stmts@, context.program.stmts@), context.program.version == ctx0.program.version,
    ext(errors.kinds(), context.semantic_errors.kinds()),
    // the includes not yet evaluated are exactly the entries of `included` not yet consumed
    source::n_real_includes(oq3_itf1.rest()) == included_iter.remaining().len(),
    forall|i: int| 0 <= i < included_iter.remaining().len() && (*#[trigger] included_iter.remaining()[i]).sp_include_error() is None ==> source::analyzable_file(*included_iter.remaining()[i]),
ensures oq3_itf1.rest().len() == 0,
decreases oq3_itf1.rest().len(),'''},
        loop_ghost='broadcast use sema_lemmas; reveal_with_fuel(source::n_real_includes, 2);',
        ghost=[('{', 'after', 'broadcast use sema_lemmas; let ghost ctx0 = context;'),
               ('        if let Some(stmt) = stmt {', 'before', 'let ghost pend = context.annots(); let ghost n0 = context.program.stmts@.len();'),
               ('                context.program.insert_stmt(anstmt);', 'after', '''proof {
    // the pending annotations are attached to this statement, and none stays pending
    assert(context.annots().len() == 0 && context.program.stmts@.len() == n0 + 1 && context.program.stmts@.last() is AnnotatedStmt
           && context.program.stmts@.last()->AnnotatedStmt_0.annotations@ == pend && pend.len() > 0);     //@C06:annotations-attach-to-the-following-statement
}'''),
               ('                context.program.insert_stmt(stmt);', 'after', '''proof {
    assert(pend.len() == 0 && context.program.stmts@.len() == n0 + 1 && !(context.program.stmts@.last() is AnnotatedStmt));     //@C06:no-annotation-no-wrapper
}'''),
               # C07 / C09: `include "stdgates.inc"` makes every gate of the library visible (the library is defined by the include, unconditionally)
               ('                None\n', 'before', 'proof { assert(file_path@ == "stdgates.inc"@ ==> (forall|n: Seq<char>| #[trigger] std_gate(n) ==> context.resolve(n) is Some)); }     //@C07,C09:stdgates-include-defines-the-library'),
               # C12: the diagnostic of an include that could not be read carries a node of the INCLUDING file (the path in its
               # include statement), so it belongs to the including file's list; the unreadable file has no tree, hence no diagnostics
               ('                    match included_parsed_source.include_error() {', 'before', 'let ghost midi = context;'),
               ('                    context.push_errors_from_included_file(errors_in_included);', 'before', '''proof {
    assert(included_parsed_source.sp_include_error() is Some ==> errors_in_included.kinds().len() == 0 && context.errs().len() == midi.errs().len() + 1);     //@C12:failed-include-is-reported-in-the-including-file
}'''),
               ('    let errors = replace(&mut context.semantic_errors, save_errors);', 'before', 'proof { assert(true); }')])
    zov['analyze_source'] = dict(ret='r', props=['C11', 'C03'], spec='''requires
    !parsed_source.sp_have_syntax_errors() ==> source::analyzable(parsed_source.sp_syntax_ast(), parsed_source.sp_included()) /* AP: established by oq3_source_file::parse_included_files */,
ensures
    // semantic analysis yields an empty program with no semantic diagnostics whenever the source or any
    // included file has a syntax diagnostic, and runs otherwise
    r.have_syntax_errors == parsed_source.sp_have_syntax_errors(),                                                            //@C11:analysis-gated-on-syntax-diagnostics
    parsed_source.sp_have_syntax_errors() ==> r.context.program.stmts@.len() == 0 && r.context.errs().len() == 0
        && r.context.semantic_errors.included().len() == 0,                                                                   //@C11:analysis-gated-on-syntax-diagnostics
    r.syntax_result == parsed_source,
    r.context.wf() && r.context.global(),                                                                                     //@C03:only-global-scope-open''')
    # C06: index lists and sets keep their construct and their length; a range keeps the presence of its step
    zov.setdefault('expression_list_to_asg_type', {}).update(dict(ret='r', props=['C06', 'C03'], spec='''ensures grows(*old(context), *final(context)),
    r.expressions@.len() == expression_list.sp_exprs().len(),     //@C06:index-list-keeps-its-length'''))
    zov.setdefault('set_expression_to_asg_type', {}).update(dict(ret='r', props=['C06', 'C03'], spec='''ensures grows(*old(context), *final(context)),
    set_expression.sp_expression_list() is Some ==> r.expressions@.len() == set_expression.sp_expression_list()->Some_0.sp_exprs().len(),     //@C06:set-keeps-its-length'''))
    zov.setdefault('index_operator_to_asg_type', {}).update(dict(ret='r', props=['C06', 'C03'], spec='''ensures grows(*old(context), *final(context)),
    // `[{a, b}]` stays a set, `[a, b]` stays a list -- each with as many entries as written
    match index_op.sp_index_kind() {
        Some(synast::IndexKind::SetExpression(se)) => r is SetExpression
            && (se.sp_expression_list() is Some ==> r->SetExpression_0.expressions@.len() == se.sp_expression_list()->Some_0.sp_exprs().len()),
        Some(synast::IndexKind::ExpressionList(el)) => r is ExpressionList && r->ExpressionList_0.expressions@.len() == el.sp_exprs().len(),
        None => true,
    },     //@C06:index-operator-keeps-its-construct'''))
    zov.setdefault('range_expression_to_asg_type', {}).update(dict(ret='r', props=['C06', 'C03'], spec='''ensures grows(*old(context), *final(context)),
    (r.step is Some) == (range_expr.sp_start_step_stop().1 is Some),     //@C06:range-keeps-its-step'''))
    # C09: a parameter type is the type written -- keyword, width / register length (a register of length 1 is still a register), const flag as given
    zov.setdefault('param_type_to_type', {}).update(dict(ret='r', props=['C09', 'C03'], spec='''ensures grows(*old(context), *final(context)),
    match *param_type {
        synast::ParamType::ScalarType(st) => r == type_of(st.sp_kind(), written_width(r), isconst) && width_as_written(st, r),
        synast::ParamType::ArrayRefType(_) => r == Type::ToDo,
    },                                                                                                               //@C09:parameter-type-as-written'''))
    for fn in ['range_expression_to_asg_type', 'set_expression_to_asg_type', 'index_operator_to_asg_type', 'expression_list_to_asg_type', 'call_expr_to_asg_texpr', 'param_type_to_type', 'io_declaration_statement_to_asg_stmt']:
        zov.setdefault(fn, {}).setdefault('spec', 'ensures grows(*old(context), *final(context)),')
    zov.setdefault('expr_to_asg_texpr', {})['ghost'] = list(zov.get('expr_to_asg_texpr', {}).get('ghost', [])) + [
        # C13: applying a binary operator to a quantum value is reported, once per quantum operand, and nothing else is
        ('            if left.get_type().is_quantum() {', 'before', 'let ghost midb = *context;'),
        ('            Some(asg::BinaryExpr::new_texpr_with_cast(op, left, right))', 'before', '''proof {
    assert(context.errs() == (midb.errs() + cond1(is_quantum_operand_type(left.ty), SemanticErrorKind::IncompatibleTypesError))
                             + cond1(is_quantum_operand_type(right.ty), SemanticErrorKind::IncompatibleTypesError));       //@C13:binary-operator-on-quantum-value
}'''),
        # C13: `return` at global scope is reported, inside a subroutine it is not
        ('            let expr_asg = expr_to_asg_texpr(return_expr.expr(), context);', 'after', 'let ghost midr = *context;'),
        ('            Some(asg::ReturnExpression::new(expr_asg).to_texpr())', 'before', '''proof {
    assert(context.errs() == midr.errs() + cond1(midr.global(), SemanticErrorKind::ReturnInGlobalScopeError));             //@C13:return-at-global-scope
}'''),
    ]
    zov.setdefault('call_expr_to_asg_texpr', {})['ghost'] = list(zov.get('call_expr_to_asg_texpr', {}).get('ghost', [])) + [
        ('    if expected_num_params != num_params {', 'before', 'let ghost midc = *context;'),
        ('    let typ = def_type.return_type;', 'before', '''proof {
    assert(context.errs() == midc.errs() + cond1(def_type.num_params != opt_len(param_list), SemanticErrorKind::NumDefParamsError));   //@C13:subroutine-argument-count
}'''),
    ]
    zov.setdefault('call_expr_to_asg_texpr', {}).update(dict(ret='r', props=['C06', 'C13', 'C03'], spec='ensures r.expression is SubroutineCall,     //@C06:expression-class'))
    zov.setdefault('negative_int_to_asg_type', {}).update(dict(ret='r', props=['C06', 'C03'], spec='ensures !r.sign,     //@C06:expression-class'))
    zov.setdefault('expr_to_asg_texpr', {}).update(dict(ret='res', spec='''
ensures
    // an expression that is present is always translated (never silently dropped)
    expr_maybe is Some ==> res is Some,                                                     //@C03,C06:expr-translated
    expr_maybe is None ==> res is None,                                                     //@C06:expr-translated
    // ... as the graph construct of the same meaning
    expr_maybe is Some ==> expr_kind_ok(expr_maybe->Some_0, res->Some_0),                   //@C06:expression-class
    // ... typed as its construct says, an identifier with the id and the type of its symbol
    expr_maybe is Some ==> typed_ok(res->Some_0),                                           //@C08:expression-typed-as-its-construct
    (expr_maybe is Some && expr_maybe->Some_0 is Identifier) ==> res->Some_0.ty == lookup_type(*old(context), expr_maybe->Some_0->Identifier_0.sp_string())
        && res->Some_0.expression == asg::Expr::Identifier(lookup_id(*old(context), expr_maybe->Some_0->Identifier_0.sp_string())),     //@C07,C08:identifier-expression-has-its-symbol-and-type
    grows(*old(context), *final(context)),
    // a cast expression becomes a Cast node whose type is its target type: the (const) type written in the cast
    (expr_maybe is Some && expr_maybe->Some_0 is CastExpression) ==> res->Some_0.expression is Cast
        && res->Some_0.ty == res->Some_0.expression->Cast_0.typ
        && (expr_maybe->Some_0->CastExpression_0.sp_scalar_type() is Some ==>
            res->Some_0.ty == type_of(expr_maybe->Some_0->CastExpression_0.sp_scalar_type()->Some_0.sp_kind(), written_width(res->Some_0.ty), true)),     //@C08,C06:cast-has-its-target-type
'''))
    SEED = 'broadcast use sema_lemmas; proof { assert(ext(context.errs(), context.errs())); assert(ext_tr(context.trace(), context.trace())); assert(scoped(*context, *context)); }'
    HAS_CTX = re.compile(r'\bcontext\s*:\s*&mut\s+Context')
    SCOPED = '\n    scoped(*old(context), *final(context)),     //@C03,C07:scopes-balanced\n    '

    # functions that analyse expressions / types / operands: they never declare anything
    NOBIND = {'expr_to_asg_texpr', 'lookup_identifier', 'gate_operand_to_asg_texpr', 'designator_to_asg', 'scalar_type_to_type', 'param_type_to_type',
              'paren_expr_to_asg_texpr', 'range_expression_to_asg_type', 'set_expression_to_asg_type', 'index_operator_to_asg_type',
              'expression_list_to_asg_type', 'expression_list_to_asg_texpr', 'qubit_list_to_asg_texpr', 'call_expr_to_asg_texpr',
              'indexed_identifier_to_asg_type', 'gate_call_expr_to_asg_stmt', 'assignment_stmt_to_asg_stmt', 'expr_stmt_to_asg_stmt'}
    NOBIND_CLAUSE = 'same_scopes(*old(context), *final(context)),     //@C07:only-declarations-bind\n    '

    def ctx_frame(spec, fn=None):
        # every analyser function: the symbol table is well formed on entry, and on exit the same scopes
        # are open, outer scopes untouched, the current one only extended
        spec = (spec or '').strip('\n')
        if 'grows(*old(context), *final(context)),' in spec:
            spec = spec.replace('grows(*old(context), *final(context)),', SCOPED, 1)
        elif re.search(r'(^|\n)\s*ensures\b', spec):
            spec = re.sub(r'((?:^|\n)\s*ensures\b)', lambda m_: m_.group(1) + SCOPED, spec, count=1)
        else:
            spec = spec + ('\n' if spec else '') + 'ensures' + SCOPED
        if fn in NOBIND:
            spec = spec.replace(SCOPED, SCOPED + NOBIND_CLAUSE, 1)
        if re.match(r'\s*requires\b', spec):
            spec = re.sub(r'^(\s*requires\b)', r'\1 old(context).wf(),', spec, count=1)
        else:
            spec = 'requires old(context).wf(),\n' + spec
        return spec

    def dflt(q, sig):
        if HAS_CTX.search(sig):
            return dict(props=P, nodecreases=True, ghost=[('{', 'after', SEED)], spec=ctx_frame('', q))
        return dict(props=P, nodecreases=True, ghost=[('{', 'after', 'broadcast use sema_lemmas;')])
    rfz2 = RustFile(os.path.join(REPO, S2S))
    for fn_, kw_ in zov.items():
        if not kw_.get('trusted'):
            it_ = rfz2.find_fn(fn_, None, 0)
            sig_ = rfz2.src[it_['header_start']:it_['sig_end']]
            head = dflt(fn_, sig_)['ghost'][0]
            kw_['ghost'] = [head] + list(kw_.get('ghost', []))
            kw_.setdefault('nodecreases', True)
            if HAS_CTX.search(sig_):
                kw_['spec'] = ctx_frame(kw_.get('spec'), fn_)
    z.ingest(overrides=zov, skip=S2S_SKIP, only_kinds=('fn',), default=dflt)
    # ---- oq3_source_file::parse_included_files: one entry of `included` per include statement that names a real file, in order --
    # the part of `analyzable` (the precondition of syntax_to_semantic) that is about counting.  The nested fn that reads and
    # parses one file (fs, recursion into parse_source_and_includes) is replaced by a trusted stub; its text is pinned.
    SF = 'crates/oq3_source_file/src/source_file.rs'
    rsf = RustFile(os.path.join(REPO, SF))
    pif_rw = []
    try:
        itp = rsf.find_fn('parse_included_files', None, 0)
        ptxt = rsf.src[itp['header_start']:itp['end']]
        rfn = RustFile('<pif>', ptxt)
        itn = rfn.find_fn('parse_one_included', None, 1)
        if itn:
            nested = ptxt[itn['header_start']:itn['end']]
            import hashlib as _hl
            from vlib.unit import normalise_code as _nc, _trusted_hashes as _th
            hv = _hl.sha1(_nc(nested).encode()).hexdigest()[:16]
            U.trusted_seen = getattr(U, 'trusted_seen', {})
            U.trusted_seen['SEMA::stub::parse_included_files::parse_one_included'] = hv
            if _th().get('SEMA::stub::parse_included_files::parse_one_included') not in (None, hv):
                raise Undecided('the text of the nested fn parse_one_included (source_file.rs) changed, but the unit models it by a trusted stub: no verdict')
            pif_rw = [('STUB-nested-fn', nested, '/* nested fn parse_one_included: modelled by the trusted stub of the same name (text pinned) */'),
                      ('D34', 'parse_included_files<P: AsRef<Path>>(', 'parse_included_files<P>(')]
    except (KeyError, ValueError):
        pif_rw = [('STUB-nested-fn', '\n    fn parse_one_included<NOT-FOUND', '')]
    _sfg = U.file(SF)
    # D40: the default method SourceTrait::have_syntax_errors recurses through `impl SourceTrait for SourceFile`, a shape Verus rejects.  Its
    # body is copied from /repo on every run into the free function oq3_have_syntax_errors (`self` -> the parameter `oq3_self: &SourceFile`,
    # the recursive method call -> a call of that function, `.iter().any(|x| B)` -> an index loop that stops at the first hit, D3 for
    # `is_some_and`) and verified against has_errs: "this file or any file it includes, directly or not, has a syntax diagnostic".
    import os as _os4
    from vlib.unit import REPO as _REPO4
    from vlib.closures import desugar_iter_any as _any, desugar_closures as _d3, NoRule as _NoRule
    _sft = open(_os4.path.join(_REPO4, SF)).read()
    _mh = re.search(r"pub trait SourceTrait \{.*?\n    fn have_syntax_errors\(&self\) -> bool \{\n(.*?)\n    \}\n", _sft, re.S)
    U.hse_ok = False
    if _mh:
        try:
            _b = re.sub(r'(?m)^\s*//[^\n]*\n', '', _mh.group(1))
            _b = re.sub(r'\bself\b', 'oq3_self', _b)
            _b = re.sub(r'\b(\w+)\s*\.\s*have_syntax_errors\(\)', r'oq3_have_syntax_errors(\1)', _b)
            _b, _n40 = _any(_b, inv='''        invariant 0 <= oq3_i <= oq3_s@.len(), oq3_s@ == oq3_self.sp_included(),
            oq3_found == (exists|j: int| 0 <= j < oq3_i && source::has_errs(#[trigger] oq3_s@[j])),      //@C11:every-included-file-is-asked
        decreases oq3_s@.len() - oq3_i,''', ghost='broadcast use source::axiom_include_depth;')
            _b, _l3 = _d3(_b)
            U.raw('''/// SourceTrait::have_syntax_errors (default method), for the implementor SourceFile: body copied from /repo on this run (D40)
fn oq3_have_syntax_errors(oq3_self: &source::SourceFile) -> (r: bool)
    ensures r == source::has_errs(*oq3_self),      //@C11:errors-anywhere-in-the-include-tree-gate-analysis
    decreases oq3_self.sp_depth(),
{
    broadcast use source::axiom_include_depth;
    let oq3_r: bool = {
''' + _b.rstrip() + '''
    };
    oq3_r
}
''', note='D40: SourceTrait::have_syntax_errors copied into a free function over &SourceFile')
            U.hse_ok = True
            U.build_log = getattr(U, 'build_log', []) + [('D40', 'SourceTrait::have_syntax_errors: default-method body -> oq3_have_syntax_errors(&SourceFile) (self -> parameter, recursive method call -> function call, .iter().any -> index loop, D3 is_some_and)')]
        except _NoRule:
            pass
    if not U.hse_ok:
      _sfg.guard('have_syntax_errors', None, block=r'pub trait SourceTrait\b', why='SourceTrait::have_syntax_errors (C11 gate of analyze_source) is a trait default method that recurses through its own impl: Verus rejects the shape; the analyser is proved against its specification')
    _sfg.guard('new', None, impl='SourceFile', why='SourceFile::new stores the parsed source and the included list: part of what the assumed precondition `analyzable` rests on')
    # parse_source_and_includes: parse the text (lex-checked), then the files it includes.  Under contract: its call of parse_included_files
    # has to establish that function's precondition
    U.raw('''impl synast::SourceFile {
    /// oq3_syntax SourceFile::parse_check_lex (units LEX / PARSER / SYNX).  Assumed-parser: on a tree WITHOUT syntax diagnostics every
    /// `include` statement names a file (a missing or unterminated path is a syntax error)
    #[verifier::external_body] pub fn parse_check_lex(text: &str) -> (r: source::ParsedSource)
        ensures (r.sp_have_parse() && r.sp_n_errors() == 0) ==> source::includes_named(r.sp_tree().sp_statements())
    { unimplemented!() }
}
''', note='SourceFile::parse_check_lex (stub)')
    _sfg.fn('parse_source_and_includes', ret='r', props=['C11', 'C03'], nodecreases=True,
            rewrites=[('D34', 'parse_source_and_includes<P: AsRef<Path>>(', 'parse_source_and_includes<P>(')],
            spec='ensures r.0 is Some,')
    # the rest of source_file.rs and of syntax_to_semantics.rs (entry points parse_source_*, the accessors of ParseResult): generic
    # plumbing around analyze_source / parse_included_files, read by no contract; pinned
    U.sema_pin_rest = [_sfg, z]
    U.raw('''use source::ParsedSource;
/// source_file.rs (trusted): searches the path list; the model has no std::path, so the `AsRef<Path>` bounds are dropped (D34)
#[verifier::external_body] pub fn resolve_file_path<P>(file_path: &String, search_path_list: Option<&[P]>) -> PathBuf { unimplemented!() }
/// source_file.rs, nested in parse_included_files: reads and parses one included file, or records why it could not be read --
/// always one entry (trusted; its text is pinned in contracts/trusted_hashes.json)
#[verifier::external_body] pub fn parse_one_included<P>(full_path: &PathBuf, include: synast::Include, search_path_list: Option<&[P]>) -> (r: Option<SourceFile>)
    ensures r is Some,
{ unimplemented!() }
''')
    U.file(SF).fn('parse_included_files', ret='r', props=['C03', 'C06'], closures=True, string_eq=['file_path'], nodecreases=True, rewrites=pif_rw,
                  ghost=[('{', 'after', 'broadcast use sema_lemmas;')],
                  loop_ghost='broadcast use sema_lemmas; reveal_with_fuel(source::n_real_includes, 2);',
                  loops={1: '''invariant
    oq3_v1@.len() + source::n_real_includes(oq3_it1.rest()) == source::n_real_includes(syntax_ast.sp_tree().sp_statements()),
    forall|i: int| 0 <= i < oq3_it1.rest().len() && (#[trigger] oq3_it1.rest()[i]) is Include ==> oq3_it1.rest()[i]->Include_0.sp_file() is Some && oq3_it1.rest()[i]->Include_0.sp_file()->Some_0.sp_to_string() is Some,
ensures oq3_it1.rest().len() == 0,
decreases oq3_it1.rest().len(),'''},
                  spec='''requires
    // AP: every include statement of a parsed file names a file (else syntax error)
    forall|i: int| 0 <= i < syntax_ast.sp_tree().sp_statements().len() && (#[trigger] syntax_ast.sp_tree().sp_statements()[i]) is Include
        ==> syntax_ast.sp_tree().sp_statements()[i]->Include_0.sp_file() is Some && syntax_ast.sp_tree().sp_statements()[i]->Include_0.sp_file()->Some_0.sp_to_string() is Some,
ensures
    // one entry, in order, for every include statement that names a real file: the standard library is created, not read --
    // the same predicate the analyser uses to decide whether it takes the next entry (source::is_real_include)
    r@.len() == source::n_real_includes(syntax_ast.sp_tree().sp_statements()),      //@C03,C06:one-included-entry-per-real-include''')
    U.assumed_parser = (['%s::%s() returns Some — %s' % (k[0], k[1], v[1]) for k, v in sorted(ACC_SOME.items()) if v[0] == AP]
                        + ['%s::%s(): %s — %s' % (k[0], k[1], v[1], v[2]) for k, v in sorted(ACC_CUSTOM.items())]
                        + ['%s: arm `%s…` unreachable — %s' % (g[0], g[1][:40], g[3]) for g in PANIC_GUARDS if g[2] == AP])
    U.assumed_dep = ['source::axiom_include_depth: the include tree of a SourceFile is finite (`included: Vec<SourceFile>` is owned data): every file has a depth above the files it includes -- the termination measure of oq3_have_syntax_errors / has_errs',
                     'AST accessors (%d on %d node types) are external_body; they are functions of the (immutable) node (uninterpreted sp_<name>) and otherwise unconstrained' % (n_acc, n_nodes),
                     'Context (symbol table, diagnostics, const values) is opaque with a ghost view; lookup_symbol / lookup_gate_symbol / new_binding carry the contracts proved in unit SYM',
                     'the unverified analyser functions (closures capturing &mut Context) are assumed to only append diagnostics',
                     'Context::standard_library_gates (flat_map / filter closures with side effects: not verified) is assumed to leave every name listed in SymbolTable::standard_library_gates bound (by it, or already before it)',
                     'source_file.rs: parse_one_included (nested fn: fs, recursion) always yields an entry, resolve_file_path returns a path: trusted stubs, text pinned; the `AsRef<Path>` bounds of parse_included_files are dropped (D34: the model has no std::path)',
                     'std: String::as_ref keeps the characters; Result::clone clones the payload of the same variant; derive(Clone/PartialEq/Debug) structural']
    U.not_verified = ['syntax_to_semantics.rs: ' + ', '.join(sorted(S2S_UNVERIFIED)) + ', syntax_to_semantic, analyze_source, parse_* (generic SourceTrait plumbing)']
    for _fc in U.sema_pin_rest:
        _fc.guard_rest('generic plumbing around analyze_source / parse_included_files, read by no contract of unit SEMA: text pinned', skip=((('SourceTrait', 'have_syntax_errors'),) if U.hse_ok else ()))
    return U
