"""PARSER — oq3_parser: token_set.rs, input.rs, event.rs, parser.rs (PCORE) and the whole grammar
(grammar.rs, grammar/{items,expressions,params}.rs, grammar/expressions/atom.rs)   (C01, C02, C05, C12)"""
import re
from vlib.unit import Unit, REPO
from vlib.rustsrc import RustFile
import os

SK = 'crates/oq3_parser/src/syntax_kind/syntax_kind_enum.rs'
TS = 'crates/oq3_parser/src/token_set.rs'
IN = 'crates/oq3_parser/src/input.rs'
EV = 'crates/oq3_parser/src/event.rs'
PL = 'crates/oq3_parser/src/lib.rs'
PA = 'crates/oq3_parser/src/parser.rs'
G = 'crates/oq3_parser/src/grammar.rs'
GI = 'crates/oq3_parser/src/grammar/items.rs'
GE = 'crates/oq3_parser/src/grammar/expressions.rs'
GA = 'crates/oq3_parser/src/grammar/expressions/atom.rs'
GP = 'crates/oq3_parser/src/grammar/params.rs'

P = ['C01', 'C02', 'C12']
P5 = ['C01', 'C02', 'C05', 'C12']
PW = 'crate::parser::'


def at(k, who='p'):
    return PW + 'at(old(%s).st(), %s)' % (who, k)


def gspec(req='', ens=''):
    return 'requires old(p).wf(),%s\nensures %smono(*old(p), *final(p)),%s' % (req, PW, ens)


# functions whose body starts with assert!(p.at(K)) / p.bump(K): the precondition their callers owe
STARTS_AT = {
    GI: dict(switch_case_stmt='T![switch]', if_stmt='T![if]', while_stmt='T![while]', for_stmt='T![for]',
             qubit_declaration_stmt='T![qubit]', reset_stmt='T![reset]', break_='T![break]', continue_='T![continue]',
             end_='T![end]', gate_definition='T![gate]', defcal_='T![defcal]', def_stmt='T![def]', extern_stmt='T![extern]',
             defcalgrammar_='T![defcalgrammar]', include='T![include]', cal_='T![cal]', version_string='T![OPENQASM]',
             barrier_='T![barrier]', delay_stmt='T![delay]', alias_stmt='T![let]'),
    GE: dict(range_expr="T!['[']", call_expr="T!['(']", complex_type_spec='T![complex]', qubit_type_spec='T![qubit]',
             designator="T!['[']", index_expr="T!['[']", indexed_identifier="T!['[']", set_expression="T!['{']",
             index_operator="T!['[']", call_arg_list="T!['(']"),
    GA: dict(gphase_call_expr='T![gphase]', measure_expression='T![measure]', hardware_qubit='HARDWAREIDENT',
             tuple_expr="T!['(']", array_expr="T!['[']", block_expr="T!['{']", return_expr='T![return]', box_expr='T![box]'),
    GP: dict(),
    G: dict(),
}

TS_CONSTS = {
    GI: ['ITEM_RECOVERY_SET'],
    GE: ['EXPR_FIRST', 'LHS_FIRST'],
    GA: ['PATH_FIRST', 'LITERAL_FIRST', 'TIMING_LITERAL_FIRST', 'ATOM_EXPR_FIRST', 'EXPR_RECOVERY_SET'],
    GP: ['PATTERN_FIRST', 'TYPE_FIRST', 'PARAM_FIRST'],
}


def const_membership(rel, name):
    """D10 ensures, generated mechanically from the initialiser of a TokenSet constant: it only makes
    the constant transparent to callers (`TokenSet::new(&[..])` -> member list, `a.union(b)` -> union,
    `= OTHER` -> same members); the initialiser itself is verified against it."""
    import os
    from vlib.rustsrc import RustFile
    from vlib.unit import REPO, normalise_code
    rf = RustFile(os.path.join(REPO, rel))
    it = rf.find_simple_item('const', name)
    text = normalise_code(rf.src[it['header_start']:it['end']])
    m = re.match(r'(?:pub(?:\([^)]*\))?\s+)?const\s+\w+\s*:\s*TokenSet\s*=\s*(.*);$', text)
    if not m:
        return 'ensures true,'
    init = m.group(1).strip()
    # protect char literals like '(' so that bracket matching works
    lits = []

    def prot(mm):
        lits.append(mm.group(0))
        return '\x00%d\x00' % (len(lits) - 1)
    src = re.sub(r"'(?:\\.|[^'\\])'", prot, init)

    def unprot(t):
        return re.sub(r'\x00(\d+)\x00', lambda mm: lits[int(mm.group(1))], t)
    H = 'crate::token_set::has'
    pos = [0]

    def skip():
        while pos[0] < len(src) and src[pos[0]].isspace():
            pos[0] += 1

    def balanced(open_ch, close_ch):
        assert src[pos[0]] == open_ch
        d, i = 0, pos[0]
        while i < len(src):
            if src[i] in '([':
                d += 1
            elif src[i] in ')]':
                d -= 1
                if d == 0:
                    break
            i += 1
        inner = src[pos[0] + 1:i]
        pos[0] = i + 1
        return inner

    def split_top(t):
        out, d, cur = [], 0, ''
        for ch in t:
            if ch in '([':
                d += 1
            elif ch in ')]':
                d -= 1
            if ch == ',' and d == 0:
                out.append(cur)
                cur = ''
            else:
                cur += ch
        if cur.strip():
            out.append(cur)
        return [x.strip() for x in out if x.strip()]

    def primary():
        skip()
        if src.startswith('TokenSet::new(', pos[0]):
            pos[0] += len('TokenSet::new')
            inner = balanced('(', ')').strip()
            mm = re.match(r'&\[(.*)\]$', inner, re.S)
            if not mm:
                raise ValueError
            members = split_top(mm.group(1))
            return ['(' + ' || '.join('k == %s' % unprot(x) for x in members) + ')'] if members else ['false']
        mm = re.compile(r'[A-Za-z_][\w:]*').match(src, pos[0])
        if not mm:
            raise ValueError
        pos[0] = mm.end()
        other = mm.group(0).split('::')[-1]
        for rel2, names in TS_CONSTS.items():
            if other in names:
                sub_ens = const_membership(rel2, other)
                m2 = re.search(r'<==> \((.*)\),$', sub_ens, re.S)
                if not m2:
                    raise ValueError
                return [m2.group(1)]
        raise ValueError

    def expr():
        terms = primary()
        while True:
            skip()
            if src.startswith('.union', pos[0]):
                pos[0] += len('.union')
                skip()
                inner = balanced('(', ')')
                save_src, save_pos = src, pos[0]
                terms += sub(inner)
            else:
                break
        return terms

    def sub(text):
        nonlocal src
        saved = (src, pos[0])
        src, pos[0] = text, 0
        try:
            t = expr()
            skip()
            if pos[0] != len(src):
                raise ValueError
            return t
        finally:
            src, pos[0] = saved
    try:
        terms = expr()
        skip()
        if pos[0] != len(src):
            raise ValueError
    except (ValueError, AssertionError, IndexError):
        return 'ensures true,'
    return 'ensures forall|k: SyntaxKind| #[trigger] %s(%s, k) <==> (%s),' % (H, name, ' || '.join(terms))


def build():
    U = Unit('PARSER', props=P5)
    U.tag_loops = True     # loop invariants state property-relevant facts about abstractions: a failing one is reported
    k = U.file(SK)
    k.item('enum', 'SyntaxKind')
    k.item('macro_rules', 'T')
    U.raw('use SyntaxKind::*;\n')
    k.impl('SyntaxKind', [('is_scalar_type', dict(ret='r', props=P, spec='''
ensures r == (self == SyntaxKind::ANGLE_TY || self == SyntaxKind::BIT_TY || self == SyntaxKind::BOOL_TY || self == SyntaxKind::COMPLEX_TY
              || self == SyntaxKind::DURATION_TY || self == SyntaxKind::FLOAT_TY || self == SyntaxKind::INT_TY || self == SyntaxKind::STRETCH_TY
              || self == SyntaxKind::UINT_TY),'''))])

    # ------------------------------------------------------------------ token_set
    U.raw('pub mod token_set {\nuse vstd::prelude::*;\nuse crate::SyntaxKind;\n')
    t = U.file(TS)
    t.item('struct', 'TokenSet', derive='keep')
    U.raw(open(__file__.replace('units/parser.py', 'contracts/parser.tokenset.rs')).read())
    t.impl('TokenSet', [
        ('EMPTY', dict(kind='const', exec_const='ensures forall|k: SyntaxKind| has(TokenSet::EMPTY, k) == false,',
                       const_proof='assert forall|k: SyntaxKind| #[trigger] hasbit(0u128, k) == false by { lemma_hasbit_zero(k); }')),
        ('new', dict(ret='r', props=P,
                     ghost=[('let mut i = 0;', 'after', 'proof { assert forall|k: SyntaxKind| #[trigger] hasbit(0u128, k) == false by { lemma_hasbit_zero(k); } assert(kinds@.take(0) =~= Seq::<SyntaxKind>::empty()); }'),
                            ('TokenSet(res)', 'before', 'proof { assert(kinds@.take(kinds@.len() as int) =~= kinds@); }')], spec="""
requires forall|i: int| 0 <= i < kinds@.len() ==> (#[trigger] kinds@[i] as usize) < 128,
ensures forall|k: SyntaxKind| has(r, k) <==> ((k as usize) < 128 && kinds@.contains(k)),""",
                    loops={1: """invariant
    i <= kinds.len(),
    forall|j: int| 0 <= j < kinds@.len() ==> (#[trigger] kinds@[j] as usize) < 128,
    forall|k: SyntaxKind| #[trigger] hasbit(res, k) <==> ((k as usize) < 128 && kinds@.take(i as int).contains(k)),
decreases kinds.len() - i,"""},
                    loop_ghost="""let ghost res0 = res; let ghost i0 = i;
let ghost bit: u128 = 1u128 << (kinds@[i0 as int] as usize);
proof {
    assert((kinds@[i0 as int] as usize) < 128);
    assert forall|k: SyntaxKind| #[trigger] hasbit(res0 | bit, k) <==> ((k as usize) < 128 && kinds@.take(i0 + 1).contains(k)) by {
        lemma_hasbit_or_bit(res0, kinds@[i0 as int], k);
        lemma_take_step_contains(kinds@, i0 as int, k);
    }
}""")),
        ('union', dict(ret='r', props=P, ghost=[('{', 'after', 'proof { assert forall|k: SyntaxKind| #[trigger] hasbit(self.0 | other.0, k) <==> (hasbit(self.0, k) || hasbit(other.0, k)) by { lemma_hasbit_or(self.0, other.0, k); } }')],
                       spec='ensures forall|k: SyntaxKind| has(r, k) <==> (has(self, k) || has(other, k)),')),
        ('contains', dict(ret='r', props=P, spec="""
ensures r == has(*self, kind),                                                        //@C01:token-set-total""")),
    ])
    t.fn('mask', ret='r', props=P, spec='''
requires (kind as usize) < 128,
ensures r == 1u128 << (kind as usize),''')
    U.raw('}\npub use token_set::TokenSet;\n')

    # ------------------------------------------------------------------ input
    U.raw('''// assumed-dep (std): Option::<&T>::copied returns the pointee
pub assume_specification<'a, T: Copy> [Option::<&'a T>::copied] (o: Option<&'a T>) -> (r: Option<T>)
    ensures r == (match o { Some(x) => Some(*x), None => None });
pub mod input {
use vstd::prelude::*;
use crate::SyntaxKind;
''')
    i = U.file(IN)
    i.item('type', 'bits')
    i.item('struct', 'Input')
    i.impl('Input', [
        ('kind', dict(ret='r', props=P, spec='ensures r == (if idx < self.kind@.len() { self.kind@[idx as int] } else { SyntaxKind::EOF }),')),
        ('is_joint', dict(ret='r', props=P, spec='''
requires n / 64 < self.joint@.len(),                                                  // `self.joint[idx]`
ensures r == self.jbit(n as int),''',
                          ghost=[('let (idx, b_idx) = self.bit_index(n);', 'after', 'proof { lemma_shift_usize_u64(b_idx); }')])),
        ('bit_index', dict(ret='r', props=P, spec='ensures r.0 == n / 64, r.1 == n % 64,')),
        ('len', dict(ret='r', props=P, spec='ensures r == self.kind@.len(),')),
    ])
    U.raw('''pub proof fn lemma_shift_usize_u64(b: usize) requires b < 64 ensures (1u64 << b) == (1u64 << (b as u64)) { assert((1u64 << b) == (1u64 << (b as u64))) by (bit_vector) requires b < 64; }
}
''')
    # ------------------------------------------------------------------ event
    U.raw('pub mod event {\nuse vstd::prelude::*;\nuse crate::SyntaxKind::{self, *};\n')
    e = U.file(EV)
    e.item('enum', 'Event')
    e.impl('Event', [('tombstone', dict(ret='r', props=P, spec='ensures r == (Event::Start { kind: SyntaxKind::TOMBSTONE, forward_parent: None }),'))])
    U.prelude('contracts/parser.process.rs')
    # event::process: events -> Output.  C01: every forward_parent chain it follows stays inside the list and on Start events
    # (the invariant `fp_ok` that every parser operation maintains, part of Parser::wf); C02: every Token event is passed on,
    # in order, with its raw-token count, and every Finish event becomes one Exit step.
    INV = 'tok_steps(output.steps()) == tok_events(ev0.take(i as int)), n_exit(output.steps()) == n_finish(ev0.take(i as int)), steps_ok(output.steps()), tok_sum_b(output.steps()) == ev_sum(ev0.take(i as int)), sbal(output.steps()) + kinds_real(forward_parents@) + bal(events@) == 0,'
    e.fn('process', ret='r', props=P,
         rewrites=[('D26', 'for i in 0..events.len() {', 'for i in oq3_r: 0..events.len() {'),
                   ('D27', 'for kind in forward_parents.drain(..).rev() {', 'while let Some(kind) = forward_parents.pop() {'),
                   ('D25', 'pub(super) fn process(mut events: Vec<Event>)', 'pub(super) fn process(events: Vec<Event>)'),
                   ('D25', 'let mut output = Output::default();', 'let mut events = events; let mut output = Output::default();')],
         spec='''
requires fp_ok(events@), toks_ok(events@), bal(events@) == 0,     // established by the parser: Parser::wf() of the final state
ensures tok_steps(r.steps()) == tok_events(events@),             //@C02,C01:every-token-event-is-passed-on
    n_exit(r.steps()) == n_finish(events@),                      //@C02,C01:every-finish-becomes-one-exit
    steps_ok(r.steps()), tok_sum_b(r.steps()) == ev_sum(events@),                    //@C02,C01:token-steps-account-for-the-consumed-tokens
    sbal(r.steps()) == 0,                                                            //@C02,C01:as-many-enter-as-exit-steps
    root_first(events@) ==> r.steps().len() >= 1 && r.steps()[0] is Enter,           //@C02,C01:output-starts-with-enter
    (events@.len() > 0 && events@.last() is Finish) ==> r.steps().len() >= 1 && r.steps().last() is Exit,       //@C02,C01:output-ends-with-exit''',
         ghost=[('let mut forward_parents = Vec::new();', 'after', 'let ghost ev0 = events@; broadcast use lemma_steps_push, lemma_kinds_push;'),
                ('match mem::replace(&mut events[i], Event::tombstone()) {', 'before', 'let ghost ev_i = events@; proof { assert(is_token(ev0[i as int]) ==> tok_n(ev0[i as int]) >= 1); lemma_bal_update(ev_i, i as int, tomb()); }'),
                ('idx += fwd as usize;', 'after', 'proof { lemma_bal_update(events@, idx as int, tomb()); }'),
                ('let mut idx = i;', 'before', 'let ghost k0 = kind;'),
                ('let mut fp = forward_parent;', 'after', 'proof { assert(has_fp(ev_i[i as int]) == (fp is Some)); if fp is Some { assert(fp_of(ev_i[i as int]) == fp->Some_0); assert(start_at(ev_i, i + fp_of(ev_i[i as int]))); } }'),
                ('idx += fwd as usize;', 'before', 'let ghost ev_j = events@; assert(fp == Some(fwd)); assert(idx + fwd < events.len());'),
                ('_ => unreachable!(),\n                    };', 'after', 'proof { assert(has_fp(ev_j[idx as int]) == (fp is Some)); if fp is Some { assert(fp_of(ev_j[idx as int]) == fp->Some_0); assert(start_at(ev_j, idx + fp_of(ev_j[idx as int]))); } }'),
                ('\n    output\n', 'before', 'proof { assert(ev0.take(ev0.len() as int) =~= ev0); lemma_bal_all_tomb(events@); }')],
         loops={1: '''invariant oq3_r.iter.end == ev0.len(), rest_kept(ev0, events@, i as int), fp_ok(events@), toks_ok(ev0), forward_parents@.len() == 0,
    forall|j: int| 0 <= j < i ==> events@[j] == tomb(),
    i == 0 ==> events@ == ev0 && output.steps().len() == 0,
    (i >= 1 && root_first(ev0)) ==> output.steps().len() >= 1 && output.steps()[0] is Enter,
    (i >= 1 && ev0[i - 1] is Finish) ==> output.steps().len() >= 1 && output.steps().last() is Exit,
    ''' + INV,
                2: '''invariant idx < events@.len(), i <= idx, rest_kept(ev0, events@, i as int + 1), fp_ok(events@),
    fp is Some ==> fp->Some_0 >= 1 && start_at(events@, idx + fp->Some_0),
    forall|j: int| 0 <= j <= i ==> events@[j] == tomb(),
    forward_parents@.len() >= 1, forward_parents@[0] == k0, i == 0 ==> output.steps().len() == 0, (i == 0 && root_first(ev0)) ==> k0 != SyntaxKind::TOMBSTONE,
    (i >= 1 && root_first(ev0)) ==> output.steps().len() >= 1 && output.steps()[0] is Enter,
    ''' + INV + '''
decreases events@.len() - idx,''',
                3: '''invariant
    forall|j: int| 0 <= j <= i ==> events@[j] == tomb(), events@.len() == ev0.len(), i < ev0.len(), rest_kept(ev0, events@, i as int + 1), fp_ok(events@),
    (i == 0 && root_first(ev0)) ==> k0 != SyntaxKind::TOMBSTONE,
    (i == 0 && root_first(ev0)) ==> ((output.steps().len() == 0 && forward_parents@.len() >= 1 && forward_parents@[0] == k0) || (output.steps().len() >= 1 && output.steps()[0] is Enter)),
    (i >= 1 && root_first(ev0)) ==> output.steps().len() >= 1 && output.steps()[0] is Enter,
    ''' + INV + '''
ensures forward_parents@.len() == 0,
decreases forward_parents@.len(),'''},
         loop_ghost='broadcast use lemma_steps_push, lemma_kinds_push; proof { if (i as int) < ev0.len() { lemma_take_step(ev0, i as int); } }')
    U.raw('}\n')
    # ------------------------------------------------------------------ output (write side; trusted, backed by the Kani round-trip harnesses)
    U.raw('''pub mod output {
use vstd::prelude::*;
use crate::SyntaxKind;
''')
    _of = U.file('crates/oq3_parser/src/output.rs')
    _of.item('enum', 'Step')
    for _fn in ('token', 'enter_node', 'leave_node', 'error', 'iter'):
        _of.guard(_fn, None, impl='Output', why='Output::%s is modelled by the trusted stub over `steps()`; encode / decode identity: Kani, thorough tier' % _fn)
    U.prelude('contracts/shared.steps.rs')
    U.raw('''/// stand-in for output.rs::Output (32-bit encoded events; encode/decode identity: Kani harnesses, thorough tier)
#[verifier::external_body] pub struct Output { _p: u8 }
impl Default for Output {
    #[verifier::external_body] fn default() -> (r: Self) ensures r.steps().len() == 0 { unimplemented!() }
}
impl Output {
    /// the traversal steps, in order (what `Output::iter` yields)
    pub uninterp spec fn steps(&self) -> Seq<Step<'_>>;
    #[verifier::external_body] pub fn token(&mut self, kind: SyntaxKind, n_tokens: u8)
        ensures final(self).steps() == old(self).steps().push(Step::Token { kind, n_input_tokens: n_tokens }) { unimplemented!() }
    #[verifier::external_body] pub fn enter_node(&mut self, kind: SyntaxKind)
        ensures final(self).steps() == old(self).steps().push(Step::Enter { kind }) { unimplemented!() }
    #[verifier::external_body] pub fn leave_node(&mut self)
        ensures final(self).steps() == old(self).steps().push(Step::Exit) { unimplemented!() }
    #[verifier::external_body] pub fn error(&mut self, error: String)
        ensures final(self).steps() == old(self).steps().push(final(self).steps().last()), final(self).steps().last() is Error { unimplemented!() }
}
}
''', note='Output::{default,token,enter_node,leave_node,error} (trusted write side of the 32-bit event encoding)')

    # ------------------------------------------------------------------ parser
    U.raw('''pub mod parser {
use vstd::prelude::*;
use crate::{event::Event, input::Input, SyntaxKind::{self, EOF, ERROR, TOMBSTONE}, TokenSet};
/// stand-in for `drop_bomb::DropBomb` (external crate; the Drop discipline is not modelled)
#[verifier::external_body] pub struct DropBomb { _p: u8 }
impl DropBomb {
    #[verifier::external_body] pub fn new(msg: &'static str) -> DropBomb { unimplemented!() }
    #[verifier::external_body] pub fn defuse(&mut self) { unimplemented!() }
}
''')
    p = U.file(PA)
    p.item('struct', 'Parser')
    p.item('struct', 'Marker')
    p.item('struct', 'CompletedMarker')
    U.prelude('contracts/parser.model.rs')
    SAME = 'final(self).inp == old(self).inp,'
    p.impl(r"Parser<'t>", [
        ('new', dict(ret='r', props=P, spec='requires inp.wf(), forall|i: int| 0 <= i < inp.kind@.len() ==> #[trigger] inp.kind@[i] != SyntaxKind::EOF,\nensures r.wf(), r.inp == inp, r.pos == 0, !r.has_err(), r.events@.len() == 0,')),
        ('finish', dict(ret='r', props=P, spec='ensures r@ == self.events@,')),
        ('position', dict(ret='r', props=P, spec='ensures r == self.pos,')),
        ('current', dict(ret='k', props=P, spec='requires self.wf(), ensures k == cur(self.st()),')),
        ('nth', dict(ret='k', props=P, trusted=True, note='std::cell::Cell step counter and the 15M-step `assert!` ("the parser seems stuck") are not modelled',
                     spec='requires self.wf(), n <= 3,                                   // `assert!(n <= 3)`\nensures k == kind_at(self.st(), self.st().pos + n as nat),')),
        ('at', dict(ret='b', props=P5, spec='requires self.wf(), ensures b == at(self.st(), kind),')),
        ('nth_at', dict(ret='b', props=P5, spec='requires self.wf(), n <= 3, ensures b == at_n(self.st(), n as nat, kind),                     //@C02,C05:composite-token-test')),
        ('eat', dict(ret='b', props=P5, spec='''
requires old(self).wf(), kind != SyntaxKind::EOF,
    kind != SyntaxKind::ERROR,       // the grammar never asks for an ERROR token                  //@C12:error-token-needs-error-event
ensures
    b == at(old(self).st(), kind),
    !b ==> *final(self) == *old(self),
    // consumes exactly the raw tokens the (composite) kind stands for, and records that count
    b ==> final(self).inp == old(self).inp && final(self).pos == old(self).pos + raw_len(kind) && final(self).wf()
          && final(self).events@ == old(self).events@.push(Event::Token { kind, n_raw_tokens: raw_len(kind) as u8 }),      //@C02:eat-consumes-raw-len
    old(self).has_err() ==> final(self).has_err(), evf(old(self).events@, final(self).events@, old(self).events@.len() as int),''')),
        ('at_composite2', dict(ret='b', props=P5, spec='requires self.wf(), n <= 3, k1 != SyntaxKind::EOF, ensures b == comp2(self.st(), n as nat, k1, k2),')),
        ('at_composite3', dict(ret='b', props=P5, spec='requires self.wf(), n <= 3, k1 != SyntaxKind::EOF, k2 != SyntaxKind::EOF, ensures b == comp3(self.st(), n as nat, k1, k2, k3),')),
        ('at_ts', dict(ret='b', props=P, spec='requires self.wf(), ensures b == crate::token_set::has(kinds, cur(self.st())),')),
        ('start', dict(ret='m', props=P, ghost=[('let pos = self.events.len() as u32;', 'before', 'assume(self.events@.len() < u32::MAX); /* AP:global bound (DESIGN section 7): the parser records fewer than 2^32 events */')], spec='requires old(self).wf(),\nensures unmoved(*old(self), *final(self)), m.pos == old(self).events@.len(), final(self).events@ == old(self).events@.push(Event::Start { kind: SyntaxKind::TOMBSTONE, forward_parent: None }), fresh_at(final(self).events@, m.pos as int), evf(old(self).events@, final(self).events@, old(self).events@.len() as int),')),
        ('bump', dict(props=P, spec='''
requires old(self).wf(), kind != SyntaxKind::EOF, at(old(self).st(), kind),           // `assert!(self.eat(kind))`
    kind != SyntaxKind::ERROR,                                                               //@C12:error-token-needs-error-event
ensures mono(*old(self), *final(self)), final(self).pos == old(self).pos + raw_len(kind),''')),
        ('bump_any', dict(props=P, spec='''
requires old(self).wf(),
    // an ERROR token (a character the lexer does not know) only enters the tree after a diagnostic was recorded (C12)
    cur(old(self).st()) == SyntaxKind::ERROR ==> old(self).has_err(),                        //@C12:error-token-needs-error-event
ensures mono(*old(self), *final(self)),
    cur(old(self).st()) != SyntaxKind::EOF ==> final(self).pos == old(self).pos + 1
        && final(self).events@ == old(self).events@.push(Event::Token { kind: cur(old(self).st()), n_raw_tokens: 1 }),
    cur(old(self).st()) == SyntaxKind::EOF ==> final(self).pos == old(self).pos,''')),
        ('error', dict(props=P, trusted=True, note='generic `message.into()` (Into<String>)',
                       spec='requires old(self).wf(),\nensures unmoved(*old(self), *final(self)), final(self).has_err(), evf(old(self).events@, final(self).events@, old(self).events@.len() as int),   // (pushes one Error event)')),
        ('expect', dict(ret='b', props=P, spec='''
requires old(self).wf(), kind != SyntaxKind::EOF,
    kind != SyntaxKind::ERROR,                                                               //@C12:error-token-needs-error-event
ensures b == at(old(self).st(), kind), mono(*old(self), *final(self)),
    b ==> final(self).pos == old(self).pos + raw_len(kind), !b ==> final(self).pos == old(self).pos && final(self).has_err(),''')),
        ('err_and_bump', dict(props=P, spec='''requires old(self).wf(),
ensures mono(*old(self), *final(self)), final(self).has_err(), final(self).pos <= old(self).pos + 1,
    (cur(old(self).st()) != SyntaxKind::L_CURLY && cur(old(self).st()) != SyntaxKind::R_CURLY && cur(old(self).st()) != SyntaxKind::EOF) ==> final(self).pos == old(self).pos + 1,''')),
        ('err_recover', dict(props=P, spec='''
requires old(self).wf(),
ensures mono(*old(self), *final(self)), final(self).has_err(), final(self).pos <= old(self).pos + 1,
    // consumes one token unless at a brace, at a recovery token or at the end of input
    (cur(old(self).st()) != SyntaxKind::L_CURLY && cur(old(self).st()) != SyntaxKind::R_CURLY && cur(old(self).st()) != SyntaxKind::EOF
        && !crate::token_set::has(recovery, cur(old(self).st()))) ==> final(self).pos == old(self).pos + 1,''')),
        ('do_bump', dict(props=P, spec='''
requires old(self).wf(), old(self).pos + n_raw_tokens <= old(self).inp.kind@.len(), n_raw_tokens >= 1,      // (call sites: 1, or the 2 / 3 pieces of a composite token)
    kind == SyntaxKind::ERROR ==> old(self).has_err(),                                       //@C12:error-token-needs-error-event
ensures final(self).wf(), final(self).inp == old(self).inp, final(self).pos == old(self).pos + n_raw_tokens,
    final(self).events@ == old(self).events@.push(Event::Token { kind, n_raw_tokens }), old(self).has_err() ==> final(self).has_err(),''')),
        ('push_event', dict(props=P, ghost=[('self.events.push(event);', 'before', 'proof { lemma_has_err_push(self.events@, event); }')],
                            spec='ensures final(self).events@ == old(self).events@.push(event), final(self).inp == old(self).inp, final(self).pos == old(self).pos,\n    final(self).has_err() == (old(self).has_err() || event is Error),\n    ev_sum(final(self).events@) == ev_sum(old(self).events@) + tok_n(event), toks_ok(final(self).events@) == (toks_ok(old(self).events@) && (event is Token ==> tok_n(event) >= 1)),\n    bal(final(self).events@) == bal(old(self).events@) + real_n(event) - fin_n(event),')),
    ])
    MK = 'requires old(p).wf(),'
    p.impl('Marker', [
        ('new', dict(ret='r', props=P, spec='ensures r.pos == pos,')),
        ('complete', dict(ret='r', props=P, mut_self=True, spec=MK + ''' pending_at(old(p).events@, self.pos as int),          // the `unreachable!()` of the body
    kind != SyntaxKind::TOMBSTONE,
    // an ERROR node may only be completed after an error event was recorded (C12)
    kind == SyntaxKind::ERROR ==> old(p).has_err(),                                  //@C12:error-node-needs-error-event
ensures unmoved(*old(p), *final(p)), r.kind == kind, r.pos == self.pos,
    // the slot gets its kind and a Finish event is appended; every other slot is untouched
    final(p).events@ == old(p).events@.update(self.pos as int, Event::Start { kind, forward_parent: None }).push(Event::Finish),
    evf(old(p).events@, final(p).events@, self.pos as int), done_at(final(p).events@, self.pos as int),''',
                          ghost=[('p.push_event(Event::Finish);', 'before', 'proof { lemma_has_err_update(old(p).events@, self.pos as int, p.events@[self.pos as int]); }')])),
        ('abandon', dict(props=P, mut_self=True, spec=MK + ''' fresh_at(old(p).events@, self.pos as int),      // pending, and no forward_parent link points at it (C01: event::process follows those links)
ensures unmoved(*old(p), *final(p)),
    // the reserved slot is removed again if nothing came after it, otherwise it stays (as a tombstone)
    final(p).events@ == (if self.pos == old(p).events@.len() - 1 { old(p).events@.drop_last() } else { old(p).events@ }),
    evf(old(p).events@, final(p).events@, self.pos as int),''',
                         ghost=[('match p.events.pop() {', 'before', 'proof { lemma_has_err_drop_last(old(p).events@); }')])),
    ])
    p.impl('CompletedMarker', [
        ('new', dict(ret='r', props=P, spec='ensures r.pos == pos, r.kind == kind,')),
        ('precede', dict(ret='r', props=P, spec=MK + ''' done_at(old(p).events@, self.pos as int),
ensures unmoved(*old(p), *final(p)), r.pos == old(p).events@.len(),
    // a new pending slot is appended and the completed node points forward to it; nothing else changes
    final(p).events@.len() == old(p).events@.len() + 1, pending_at(final(p).events@, r.pos as int), done_at(final(p).events@, self.pos as int),
    evf(old(p).events@, final(p).events@, old(p).events@.len() as int),''',
                         ghost=[('        new_pos\n', 'before', 'proof { let e1 = old(p).events@.push(Event::Start { kind: SyntaxKind::TOMBSTONE, forward_parent: None }); lemma_has_err_push(old(p).events@, e1.last()); lemma_has_err_update(e1, self.pos as int, p.events@[self.pos as int]); assert(p.events@ =~= e1.update(self.pos as int, p.events@[self.pos as int])); }')])),
        ('extend_to', dict(ret='r', props=P, spec=MK + ''' done_at(old(p).events@, self.pos as int), pending_at(old(p).events@, m.pos as int), m.pos < self.pos,
ensures unmoved(*old(p), *final(p)), r.kind == self.kind, r.pos == self.pos,
    final(p).events@.len() == old(p).events@.len(), done_at(final(p).events@, self.pos as int), done_at(final(p).events@, m.pos as int),
    forall|i: int| 0 <= i < old(p).events@.len() && i != m.pos ==> final(p).events@[i] == old(p).events@[i],''',
                           ghost=[('        self\n', 'before', 'proof { lemma_has_err_update(old(p).events@, m.pos as int, p.events@[m.pos as int]); assert(p.events@ =~= old(p).events@.update(m.pos as int, p.events@[m.pos as int])); }')])),
        ('kind', dict(ret='r', props=P, spec='ensures r == self.kind,')),
    ])
    U.raw('}\n')
    # ------------------------------------------------------------------ grammar
    D8 = ('D8', '.map(|(m, _)| m)', '.map(|t: (CompletedMarker, BlockLike)| t.0)')
    D2 = ('D2', 'let m = m.unwrap_or_else(|| p.start());', 'let m = match m { Some(v) => v, None => p.start() };')

    ADV = ' ' + PW + 'adv(*old(p), *final(p)),'
    CUR = PW + 'cur(old(p).st())'
    LIVE = PW + 'live(old(p).st())'
    SOME = ' res is Some ==> ' + PW + 'adv(*old(p), *final(p)),'
    DEC = 'invariant crate::parser::mono(*old(p), *p),\ndecreases crate::parser::rem(p.st()),'
    # progress contracts (stage 2): "consumes at least one token" under the stated condition on the cursor
    ENS = {
        'source_file_contents': (' (%scur(final(p).st()) == SyntaxKind::EOF || (stop_on_r_curly && %scur(final(p).st()) == SyntaxKind::R_CURLY)),      //@C02,C01:stops-only-at-end-of-input' % (PW, PW), None),
        'literal': (SOME + ' res is None ==> final(p).pos == old(p).pos,', 'res'),
        # C05 (index expressions nest one operator per node): where ONE index operator ends is named by the uninterpreted
        # `io_end` (index_operator is a deterministic function of the token state: assumed, AP); an INDEX_EXPR node ends there
        'index_operator': (' final(p).pos == %sio_end(old(p).st()),' % PW, None),
        'index_expr': ('\n    final(p).pos == %sio_end(old(p).st()),        //@C05:one-index-operator-per-index-node' % PW, 'res'),
        'atom_expr': (SOME + ' %s ==> %sadv(*old(p), *final(p)),' % (LIVE, PW), 'res'),
        'cast_expr': (' is_classical_k(%s) ==> %sadv(*old(p), *final(p)),' % (CUR, PW), 'res'),
        'gate_call_expr': (' %s == SyntaxKind::IDENT ==> %sadv(*old(p), *final(p)),' % (CUR, PW), 'res'),
        'identifier': (' %s == SyntaxKind::IDENT ==> %sadv(*old(p), *final(p)),' % (CUR, PW), 'res'),
        'modified_gate_call_expr': (' (%s == SyntaxKind::INV_KW || %s == SyntaxKind::POW_KW || %s == SyntaxKind::CTRL_KW || %s == SyntaxKind::NEGCTRL_KW) ==> %sadv(*old(p), *final(p)),' % (CUR, CUR, CUR, CUR, PW), 'res'),
        'try_block_expr': (' %s ==> %sadv(*old(p), *final(p)),' % (at("T!['{']"), PW), None),
        'expr': (SOME + ' (%s && expr_start(old(p).st())) ==> %sadv(*old(p), *final(p)),' % (LIVE, PW), 'res'),
        'expr_bp': (SOME + ' (%s && expr_start(old(p).st())) ==> %sadv(*old(p), *final(p)),' % (LIVE, PW), 'res'),
        'expr_stmt': (SOME + ' (%s && expr_start(old(p).st())) ==> %sadv(*old(p), *final(p)),' % (LIVE, PW), 'res'),
        'lhs': (SOME + ' %s ==> %sadv(*old(p), *final(p)),' % (LIVE, PW), 'res'),
        'stmt': (' %s ==> %sadv(*old(p), *final(p)),' % (LIVE, PW), None),
        'expr_block_statements': (' %s ==> %sadv(*old(p), *final(p)),' % (LIVE, PW), None),
        'q_or_c_reg_param': (' %s != SyntaxKind::EOF ==> %sadv(*old(p), *final(p)),' % (CUR, PW), None),
        'q_or_c_reg_declaration': (' %s != SyntaxKind::EOF ==> %sadv(*old(p), *final(p)),' % (CUR, PW), None),
        'type_name': (' is_type_k(%s) ==> %sadv(*old(p), *final(p)),' % (CUR, PW), None),
        'type_spec': (' is_type_k(%s) ==> %sadv(*old(p), *final(p)),' % (CUR, PW), 'res'),
        'non_array_type_spec': (' is_type_k(%s) ==> %sadv(*old(p), *final(p)),' % (CUR, PW), 'res'),
        'array_type_spec': (' %s != SyntaxKind::EOF ==> %sadv(*old(p), *final(p)),' % (CUR, PW), 'res'),
        'opt_item': (' res is Ok ==> %sadv(*old(p), *final(p)), res is Err ==> final(p).pos == old(p).pos,' % PW, 'res'),
        'classical_declaration_stmt': (' (is_classical_k(%s) || %s == SyntaxKind::CONST_KW) ==> %sadv(*old(p), *final(p)),' % (CUR, CUR, PW), None),
        '_returns_bool_classical_declaration_stmt': (' (is_classical_k(%s) || %s == SyntaxKind::CONST_KW) ==> %sadv(*old(p), *final(p)),' % (CUR, CUR, PW), 'res'),
        'io_declaration_stmt': (' %s != SyntaxKind::EOF ==> %sadv(*old(p), *final(p)),' % (CUR, PW), None),
        'item': (' (%s != SyntaxKind::EOF && !(%s == SyntaxKind::R_CURLY && stop_on_r_curly)) ==> %sadv(*old(p), *final(p)),' % (CUR, CUR, PW), None),
        'opt_return_signature': (' res ==> %sadv(*old(p), *final(p)),' % PW, 'res'),
        'at_list_end_token': (' final(p).pos == old(p).pos,', 'res'),
    }
    # guards that every caller establishes, stated as preconditions: with them the function provably consumes a
    # token before it calls back into the grammar (C01 stage 3: needed by the recursion measure)
    MODK = '(%s == SyntaxKind::INV_KW || %s == SyntaxKind::POW_KW || %s == SyntaxKind::CTRL_KW || %s == SyntaxKind::NEGCTRL_KW)' % (CUR, CUR, CUR, CUR)
    REQ = {
        # dispatched on their keyword (params.rs / expressions.rs, items.rs opt_item); they begin by consuming it
        'q_or_c_reg_param': ' (%s || %s),' % (at('T![creg]'), at('T![qreg]')),
        'q_or_c_reg_declaration': ' (%s || %s),' % (at('T![creg]'), at('T![qreg]')),
        'io_declaration_stmt': ' (%s || %s),' % (at('T![input]'), at('T![output]')),
        'cast_expr': ' is_classical_k(%s),' % CUR,
        'modified_gate_call_expr': ' %s,' % MODK,
    }
    # C05 (roles of an `if`): the IF_STMT node begins with its `if` keyword -- the marker handed in was started immediately before
    # (so an `else if` opens a node of its own: it cannot continue the enclosing one)
    NODE_START = '\n    old(p).events@.len() == m.pos + 1,        //@C05,C06:node-begins-with-its-keyword\n   '
    REQ_NODE_START = {'if_stmt': NODE_START, 'opt_item': NODE_START}
    # ... and so does every statement node that opt_item dispatches to with the marker it was given (callee names read from its arms)
    try:
        _oi = RustFile(os.path.join(REPO, GI))
        _it = _oi.find_fn('opt_item', None, 0)
        for _nm in set(re.findall(r'(?:=>|\{)\s*(\w+)\(p, m\)', _oi.src[_it['header_start']:_it['end']])):
            REQ_NODE_START.setdefault(_nm, NODE_START)
    except KeyError:
        pass
    # C05 (index expressions nest per the table): an INDEXED_IDENTIFIER node wraps an identifier -- what its `identifier()` accessor
    # hands out -- and an INDEX_EXPR wraps anything else (a call, a parenthesised expression, ...)
    REQ_NODE_START['indexed_identifier'] = '\n    lhs.kind == SyntaxKind::IDENTIFIER,        //@C05,C06:indexed-identifier-wraps-an-identifier\n   '
    REQ_NODE_START['index_expr'] = '\n    lhs.kind != SyntaxKind::IDENTIFIER,        //@C05,C06:index-expression-wraps-a-non-identifier\n   '
    # C05 (the tree mirrors the derivation): each expression function completes the node of its own construct
    NODE_KIND = {'cast_expr': ['CAST_EXPRESSION'], 'gphase_call_expr': ['G_PHASE_CALL_EXPR'], 'modified_gate_call_expr': ['MODIFIED_GATE_CALL_EXPR'],
                 'gate_call_expr': ['GATE_CALL_EXPR'], 'measure_expression': ['MEASURE_EXPRESSION'], 'identifier': ['IDENTIFIER'],
                 'hardware_qubit': ['HARDWARE_QUBIT'], 'tuple_expr': ['PAREN_EXPR', 'TUPLE_EXPR'], 'array_expr': ['ARRAY_EXPR'], 'block_expr': ['BLOCK_EXPR'],
                 'return_expr': ['RETURN_EXPR'], 'box_expr': ['BOX_EXPR'], 'call_expr': ['CALL_EXPR', 'GATE_CALL_EXPR'], 'index_expr': ['INDEX_EXPR'],
                 'indexed_identifier': ['INDEXED_IDENTIFIER']}
    for _fn, _ks in NODE_KIND.items():
        _e0, _r0 = ENS.get(_fn, ('', 'res'))
        ENS[_fn] = (_e0 + '\n    (%s),        //@C05,C06:node-kind-of-its-construct' % ' || '.join('res.kind == SyntaxKind::%s' % k for k in _ks), 'res')
    ENS['literal'] = (ENS['literal'][0] + '\n    res is Some ==> (res->Some_0.kind == SyntaxKind::LITERAL || res->Some_0.kind == SyntaxKind::TIMING_LITERAL),        //@C05,C06:node-kind-of-its-construct', 'res')
    LOOPS = {
        'source_file_contents': {1: 'invariant crate::parser::mono(*old(p), *p),\nensures crate::parser::mono(*old(p), *p), crate::parser::cur(p.st()) == SyntaxKind::EOF || (stop_on_r_curly && crate::parser::cur(p.st()) == SyntaxKind::R_CURLY),\ndecreases crate::parser::rem(p.st()),'}, 'switch_case_stmt': {1: 'invariant crate::parser::mono(*old(p), *p), p.pos > old(p).pos,\ndecreases crate::parser::rem(p.st()),'}, 'expr_block_statements': {1: DEC},
        'expr_bp': {1: 'invariant crate::parser::done_at(p.events@, lhs.pos as int), lhs.pos >= old(p).events@.len(), crate::parser::mono(*old(p), *p), bp >= 1, p.pos > old(p).pos,\ndecreases crate::parser::rem(p.st()),'},
        'postfix_expr': {1: 'invariant crate::parser::mono(*old(p), *p), (lhs.pos >= old(p).events@.len() || lhs.pos == lhs0.pos),\ndecreases crate::parser::rem(p.st()),'}, 'array_type_spec': {1: 'invariant crate::parser::mono(*old(p), *p), p.pos > old(p).pos,\ndecreases crate::parser::rem(p.st()),'},
        'indexed_identifier': {1: DEC},
        'modified_gate_call_expr': {1: 'invariant crate::parser::mono(*old(p), *p),\nensures crate::parser::mono(*old(p), *p), (crate::parser::cur(old(p).st()) == SyntaxKind::INV_KW || crate::parser::cur(old(p).st()) == SyntaxKind::POW_KW || crate::parser::cur(old(p).st()) == SyntaxKind::CTRL_KW || crate::parser::cur(old(p).st()) == SyntaxKind::NEGCTRL_KW) ==> p.pos > old(p).pos,\ndecreases crate::parser::rem(p.st()),'}, 'tuple_expr': {1: 'invariant crate::parser::mono(*old(p), *p), p.pos > old(p).pos,\ndecreases crate::parser::rem(p.st()),'},
        'array_expr': {1: 'invariant_except_break n_exprs < p.pos - old(p).pos,\ninvariant crate::parser::mono(*old(p), *p), p.pos > old(p).pos,\ndecreases crate::parser::rem(p.st()),'},
        '_param_list_openqasm': {1: 'invariant_except_break num_params <= p.pos - old(p).pos,\ninvariant crate::parser::mono(*old(p), *p),\n    // an array literal opens with `{`, which was consumed: a nested array literal starts strictly later\n    (flavor is ArrayLiteral && crate::parser::at(old(p).st(), SyntaxKind::L_CURLY)) ==> p.pos > old(p).pos,\ndecreases crate::parser::rem(p.st()),'},
    }

    def dflt(fileprops):
        def f(name, sig):
            if re.search(r'\bp\s*:\s*&mut\s+Parser', sig):
                kw = dict(spec=gspec(), props=P, nodecreases=True, all_loops=DEC)     # a loop without its own entry in LOOPS (a new one) gets the standard frame and measure
                req = REQ.get(name, '')
                for rel_ in STARTS_AT:
                    if name in STARTS_AT[rel_]:
                        req = ' ' + at(STARTS_AT[rel_][name]) + ','
                ens = ''
                if req:
                    ens = ADV                       # begins by consuming the token it requires
                req += REQ_NODE_START.get(name, '')
                if name in ENS:
                    ens += ENS[name][0]
                    if ENS[name][1]:
                        kw['ret'] = ENS[name][1]
                kw['spec'] = gspec(req, ens)
                if name in LOOPS:
                    kw['loops'] = LOOPS[name]
                return kw
            if re.search(r'\bp\s*:\s*&\s*Parser', sig):
                return dict(spec='requires p.wf(),', props=P, nodecreases=True)
            return dict(props=P)
        return f

    def with_starts(rel, extra=None):
        ov = {}
        for fn in STARTS_AT[rel]:
            ov[fn] = {}
        for fn, kw in (extra or {}).items():
            ov.setdefault(fn, {}).update(kw)
        return ov

    def consts(f, rel):
        for c in TS_CONSTS[rel]:
            ens = const_membership(rel, c)
            m2 = re.search(r'<==> \((.*)\),$', ens, re.S)
            if m2:
                U.raw('/// members of %s (generated mechanically from its initialiser)\npub open spec fn in_%s(k: SyntaxKind) -> bool { %s }\n' % (c, c, m2.group(1)))
                ens = 'ensures forall|k: SyntaxKind| #[trigger] crate::token_set::has(%s, k) <==> in_%s(k),' % (c, c)
            f.item('const', c, exec_const=ens)

    U.raw("""pub mod grammar {
use vstd::prelude::*;
use crate::{parser::{CompletedMarker, Marker, Parser}, SyntaxKind::{self, *}, TokenSet};
pub mod entry {
    use vstd::prelude::*;
    use super::*;
    pub mod top {
        use vstd::prelude::*;
        use super::*;
""")
    g = U.file(G)
    g.fn('source_file', depth=2, spec=gspec('', ' ' + PW + 'cur(final(p).st()) == SyntaxKind::EOF,                  //@C02,C01:whole-input-consumed\n    // called on a fresh parser, the event list is one SOURCE_FILE node: its Start comes first and its Finish last\n    old(p).events@.len() == 0 ==> crate::event::root_first(final(p).events@) && final(p).events@.last() is Finish,       //@C02,C01:one-root-node'), props=P, nodecreases=True, all_loops=DEC, qualname='entry::top::source_file')
    g.fn('expr', depth=2, spec=gspec(), props=P, nodecreases=True, qualname='entry::top::expr', ghost=[('            while !p.at(EOF)', 'before', 'assume(p.has_err()); // KF:C12-expr-entry-error-node\n')], loops={1: 'invariant crate::parser::mono(*old(p), *p), p.has_err(),\ndecreases crate::parser::rem(p.st()),'})
    U.raw('    }\n}\n')
    g.item('enum', 'BlockLike')
    g.impl('BlockLike', [('is_block', dict(ret='r', props=P, spec='ensures r == (self == BlockLike::Block),')),
                         ('is_blocklike', dict(ret='r', props=P, spec='ensures r == (kind == SyntaxKind::BLOCK_EXPR),'))])
    g.all_fns(dflt(G), with_starts(G, {
        'name_r': {}, 'name': {},
        'delimited': dict(trusted=True, nodecreases=False, note='higher-order: takes a closure over `&mut Parser` (no spec-level quantification over &mut); its loop is not verified',
                          spec='requires old(p).wf(), consume_braket ==> ' + at('bra') + ',\nensures ' + PW + 'mono(*old(p), *final(p)),'),
    }))
    g.impl('SyntaxKind', [
        ('is_classical_type', dict(ret='r', props=P, spec='ensures r == (self.is_scalar_type_spec() || *self == SyntaxKind::ARRAY_KW),')),
        ('is_quantum_type', dict(ret='r', props=P, spec='ensures r == (*self == SyntaxKind::QUBIT_KW || *self == SyntaxKind::HARDWARE_QUBIT),')),
        ('is_type', dict(ret='r', props=P, spec='ensures r == (self.is_scalar_type_spec() || *self == SyntaxKind::ARRAY_KW || *self == SyntaxKind::QUBIT_KW || *self == SyntaxKind::HARDWARE_QUBIT),')),
        ('is_creg_or_qreg', dict(ret='r', props=P, spec='ensures r == (*self == SyntaxKind::QREG_KW || *self == SyntaxKind::CREG_KW),')),
    ])
    U.raw("""pub open spec fn is_classical_k(k: SyntaxKind) -> bool { k.is_scalar_type_spec() || k == SyntaxKind::ARRAY_KW }
pub open spec fn is_type_k(k: SyntaxKind) -> bool { is_classical_k(k) || k == SyntaxKind::QUBIT_KW || k == SyntaxKind::HARDWARE_QUBIT }
/// the states in which `expr_bp` does not bail out at once: an expression (or a cast) can start here
pub open spec fn expr_start(st: crate::parser::PState) -> bool {
    expressions::in_EXPR_FIRST(crate::parser::cur(st))
    || (is_classical_k(crate::parser::cur(st)) && (crate::parser::kind_at(st, st.pos + 1) == SyntaxKind::L_PAREN || crate::parser::kind_at(st, st.pos + 1) == SyntaxKind::L_BRACK))
}
impl SyntaxKind {
    pub open spec fn is_scalar_type_spec(&self) -> bool {
        *self == SyntaxKind::ANGLE_TY || *self == SyntaxKind::BIT_TY || *self == SyntaxKind::BOOL_TY || *self == SyntaxKind::COMPLEX_TY
        || *self == SyntaxKind::DURATION_TY || *self == SyntaxKind::FLOAT_TY || *self == SyntaxKind::INT_TY || *self == SyntaxKind::STRETCH_TY
        || *self == SyntaxKind::UINT_TY
    }
}
pub mod expressions {
use vstd::prelude::*;
use super::*;
pub use atom::block_expr;
pub use atom::try_block_expr;
pub use atom::LITERAL_FIRST;
pub mod atom {
use vstd::prelude::*;
use super::*;
""")
    a = U.file(GA)
    consts(a, GA)
    a.all_fns(dflt(GA), with_starts(GA, {'box_expr': dict(rewrites=[D2])}))
    U.raw('}\n')
    x = U.file(GE)
    consts(x, GE)
    x.item('struct', 'Restrictions', derive='keep')
    x.item('enum', 'Associativity')
    U.raw(open(__file__.replace('units/parser.py', 'contracts/parser.ops.rs')).read())
    x.all_fns(dflt(GE), with_starts(GE, {
        'call_arg_list': dict(rewrites=[('GHOST-closure-contract', "|p: &mut Parser<'_>| expr(p).is_some(),",
                                         "|p: &mut Parser<'_>| -> (b: bool) requires old(p).wf(), crate::parser::rem(old(p).st()) < rem0, ensures crate::parser::mono(*old(p), *final(p)), { expr(p).is_some() },")],
                              ghost=[('    delimited(', 'before', 'let ghost rem0 = crate::parser::rem(old(p).st());')]),
        'stmt': dict(rewrites=[('GHOST-nested-fn-contract', "    fn let_stmt(p: &mut Parser<'_>, m: Marker) {",
                                "    fn let_stmt(p: &mut Parser<'_>, m: Marker)\n        requires old(p).wf(), crate::parser::at(old(p).st(), T![let]), crate::parser::pending_at(old(p).events@, m.pos as int),\n        ensures crate::parser::mono_from(*old(p), *final(p), m.pos as int), crate::parser::adv(*old(p), *final(p)),\n        decreases crate::parser::rem(old(p).st()), %dnat,\n    {" % __import__('units.parser_ranks', fromlist=['RANK']).RANK.get('let_stmt', 0))]),
        'expr': dict(rewrites=[D8], closures=True),
        # C05 (unary expressions nest one operator per node): when the operand of a PREFIX_EXPR is parsed, the node holds exactly its one
        # operator token -- `- -a` is a prefix expression whose operand is the prefix expression `-a`
        'lhs': dict(ghost=[('    expr_bp(p, None, r, 255);', 'before', 'proof { assert(p.events@.len() == m.pos + 2 && p.pos == old(p).pos + 1); }      //@C05,C06:prefix-node-has-one-operator\n')]),
        'postfix_expr': dict(ghost=[('{', 'after', 'let ghost lhs0 = lhs;')]),
        'index_operator': dict(ghost=[('m.complete(p, INDEX_OPERATOR);', 'after', 'assume(p.pos == crate::parser::io_end(old(p).st())); /* AP:determinism: where index_operator stops is a function of the token state (tokens, jointness, cursor) alone; the grammar never branches on anything else */')]),
        'range_expr': dict(rewrites=[D8 + (3,)]),
        'expr_or_range_expr': dict(rewrites=[D8 + (3,)], closures=True),
        'expr_bp': dict(rewrites=[D2], props=P5, spec=gspec(' bp >= 1,', ENS['expr_bp'][0]),
                        # C05 associativity: the right operand of a left-associative operator of binding power b is parsed
                        # with minimum b + 1 (an operator of the same level does not nest to the right), of a right-associative one with b
                        ghost=[('expr_bp(p, None, Restrictions { prefer_stmt: false }, op_bp);', 'before',
                                'proof { assert(op_bp == bp_of(op).0 + (if bp_of(op).1 { 0int } else { 1int })); }     //@C05:right-operand-binding-power')]),
        'array_type_spec': dict(spec=gspec(' !want_array_ref_type ==> ' + at('T![array]') + ', (' + at('T![array]') + ' || ' + at('T![mutable]') + ' || ' + at('T![readonly]') + '),', ENS['array_type_spec'][0])),
        'current_op': dict(ret='r', nodecreases=False, props=P5, spec="""
requires p.wf(),
ensures
    r.0 <= 12,
    // a non-zero binding power names the (composite) operator that is actually at the cursor
    r.0 > 0 ==> """ + PW + """at(p.st(), r.1) && r.1 != SyntaxKind::EOF,                     //@C05,C01:op-is-at-cursor
    // binding power and associativity are those of the table (checked against the OpenQASM 3
    // table by c05_binding_powers_follow_the_table / c05_associativity)
    r.0 > 0 ==> (r.0, r.2 is Right) == bp_of(r.1),                                            //@C05:binding-power-table
    r.0 == 0 ==> r.1 == SyntaxKind::DOT3,
"""),
    }))
    U.raw('}\n')
    U.raw('pub mod items {\nuse vstd::prelude::*;\nuse super::*;\nuse crate::grammar::expressions::expr_block_statements;\n')
    it = U.file(GI)
    consts(it, GI)
    it.all_fns(dflt(GI), with_starts(GI))
    U.raw('}\n')
    U.raw('pub mod params {\nuse vstd::prelude::*;\nuse super::*;\n')
    pr = U.file(GP)
    consts(pr, GP)
    pr.item('enum', 'DefFlavor')
    pr.all_fns(dflt(GP), with_starts(GP))
    U.raw('}\n}\n')
    U.trusted_decl = ['Cell<u32> step counter and drop_bomb::DropBomb are opaque stand-ins',
                      'event::process, Output, TopEntryPoint::parse (debug balance assertions) are outside this unit']
    U.assumed_dep = ['derive(Clone/Copy/PartialEq/Eq/Debug) on SyntaxKind and the small grammar enums: structural',
                     'Option::<&T>::copied returns the pointee (assume_specification)']
    U.assumed_dep += ['std::mem::replace stores the new value and returns the old one (assume_specification)',
                      'Output::{default,token,enter_node,leave_node,error}: trusted write-side contracts over the abstract step list `steps()` (the 32-bit encode/decode identity is the Kani obligation of the thorough tier)']
    U.assumed_parser = ['Parser::start: fewer than 2^32 events are recorded (global bound, DESIGN section 7)',
                        'index_operator: the position at which it stops is a function of the token state alone (determinism; it gives the uninterpreted io_end a meaning, used by the C05 clause of index_expr)']
    U.not_verified = ['Parser::nth: Cell step counter and the "parser seems stuck" assertion', 'Parser::error (generic Into<String>)',
                      'Input::{push,was_joint} (SHORT unit)', 'DropBomb: the Drop discipline of markers is not modelled',
                      'TopEntryPoint::parse: the `if cfg!(debug_assertions) { .. }` tree-balance assertions exist in the debug profile only and are dropped (D29): the verified text is the release profile']
    # ---- TopEntryPoint::parse (crate root): Parser::new -> entry point -> finish -> event::process
    import re as _re
    from vlib.unit import REPO as _REPO0
    _lib = open(__import__('os').path.join(_REPO0, PL)).read()
    _m = _re.search(r"let entry_point: fn\(&'_ mut parser::Parser<'_>\) = match self \{(.*?)\n        \};\n", _lib, _re.S)
    _rw = []
    if _m:
        # D28: a `match` that selects a function item, followed by one call through the pointer -> the same `match` performing the call
        arms = _re.findall(r'^\s*(TopEntryPoint::\w+) => ([\w:]+),\s*$', _m.group(1), _re.M)
        _rw = [('D28', _m.group(0), ''), ('D28', 'entry_point(&mut p);', 'match self { %s }' % ' '.join('%s => %s(&mut p),' % a for a in arms))]
        # D29: `if cfg!(debug_assertions) { .. }` is `if false { .. }` in the release profile: the block is dropped (profile stated in the evidence)
        b0 = _lib.index('if cfg!(debug_assertions) {', _m.end())
        d_, k_ = 0, _lib.index('{', b0)
        for j_ in range(k_, len(_lib)):
            d_ += (_lib[j_] == '{') - (_lib[j_] == '}')
            if d_ == 0:
                break
        _rw.append(('D29', _lib[b0:j_ + 1], '/* release profile: cfg!(debug_assertions) == false */'))
    U.raw('use crate::{input::Input, output::{Output, Step, tok_sum, output_shape}};\n')
    l = U.file(PL)
    l.item('enum', 'TopEntryPoint')
    l.impl('TopEntryPoint', [('parse', dict(ret='r', props=P, rewrites=_rw, spec='''
requires input.wf(), forall|i: int| 0 <= i < input.kind@.len() ==> #[trigger] input.kind@[i] != SyntaxKind::EOF,     // what LexedStr::to_input establishes (SHORT unit)
ensures
    // the Token steps never account for more raw tokens than the input holds, none is empty, and there is no FloatSplit step
    tok_sum(r.steps()) <= input.kind@.len(), crate::event::steps_ok(r.steps()),                         //@C02,C01:token-steps-within-the-input
    crate::event::sbal(r.steps()) == 0,                                                                 //@C02,C01:as-many-enter-as-exit-steps
    // for a source file: one root node around everything, and the Token steps account for EVERY token of the input
    *self is SourceFile ==> output_shape(r.steps()) && tok_sum(r.steps()) == input.kind@.len(),         //@C02,C01:source-file-output-covers-the-input''',
        ghost=[('        res\n', 'before', 'proof { crate::event::lemma_tok_sum_b(res.steps()); }')]))])
    # ---- marker discipline: contracts generated from the SIGNATURES (which markers come in, which go out)
    from vlib.rustsrc import RustFile as _RF, split_signature as _split, find_loops as _find_loops
    import os as _os
    from vlib.unit import REPO as _REPO
    _cache = {}
    loops_exist = lambda b_: bool(_find_loops(b_))
    for e in U.all_fn_entries():
        if e.trusted or not e.file.startswith('crates/oq3_parser/src/grammar') or not e.spec or 'old(p).wf()' not in e.spec:
            continue
        rf = _cache.setdefault(e.file, _RF(_os.path.join(_REPO, e.file)))
        try:
            it = rf.find_fn(e.name, None, e.depth)
        except KeyError:
            continue
        text = rf.src[it['header_start']:it['end']]
        sig, body = _split(text)
        pend = re.findall(r'\b(\w+)\s*:\s*Marker\b', sig)
        optm = re.findall(r'\b(\w+)\s*:\s*Option<Marker>', sig)
        comp = re.findall(r'\b(\w+)\s*:\s*CompletedMarker\b', sig)
        rm = re.search(r'->\s*(.+?)\s*$', sig.strip(), re.S)
        rty = ' '.join(rm.group(1).split()) if rm else ''
        req, ens = '', ''
        lo = None
        for m_ in pend:
            req += ' crate::parser::fresh_at(old(p).events@, %s.pos as int),' % m_
            lo = '%s.pos as int' % m_
        for m_ in optm:
            req += ' (%s is Some ==> crate::parser::fresh_at(old(p).events@, %s->Some_0.pos as int)),' % (m_, m_)
            lo = '(if %s is Some { %s->Some_0.pos as int } else { old(p).events@.len() as int })' % (m_, m_)
        for c_ in comp:
            req += ' crate::parser::done_at(old(p).events@, %s.pos as int),' % c_
        if 'CompletedMarker' in rty or rty.startswith('Result<(), Marker>'):
            if not e.ret:
                e.ret = 'res'
            r_ = e.ret
            def fresh(x):
                # a returned completed node is a new one, or one of those that came in
                return ' (%s.pos >= old(p).events@.len()%s%s%s),' % (x, ''.join(' || %s.pos == %s.pos' % (x, c_) for c_ in comp), ''.join(' || %s.pos == %s.pos' % (x, m_) for m_ in pend), ''.join(' || (%s is Some && %s.pos == %s->Some_0.pos)' % (m_, x, m_) for m_ in optm))
            if rty == 'CompletedMarker':
                ens += ' crate::parser::done_at(final(p).events@, %s.pos as int),' % r_ + fresh(r_)
            elif rty.startswith('(CompletedMarker'):
                ens += ' crate::parser::done_at(final(p).events@, %s.0.pos as int),' % r_ + fresh(r_ + '.0')
            elif rty == 'Option<CompletedMarker>':
                ens += ' (%s is Some ==> crate::parser::done_at(final(p).events@, %s->Some_0.pos as int) && %s->Some_0.pos >= old(p).events@.len()),' % (r_, r_, r_)
            elif rty.startswith('Option<(CompletedMarker'):
                ens += ' (%s is Some ==> crate::parser::done_at(final(p).events@, %s->Some_0.0.pos as int) && %s->Some_0.0.pos >= old(p).events@.len()),' % (r_, r_, r_)
            elif rty.startswith('Result<(), Marker>'):
                ens += ' (%s is Err ==> %s->Err_0.pos == %s.pos && crate::parser::fresh_at(final(p).events@, %s.pos as int)),' % (r_, r_, pend[0], pend[0])
        spec = e.spec
        if req:
            spec = spec.replace('requires old(p).wf(),', 'requires old(p).wf(),' + req, 1)
        if lo:
            spec = spec.replace('crate::parser::mono(*old(p), *final(p)),', 'crate::parser::mono_from(*old(p), *final(p), %s),' % lo, 1)
        if ens:
            spec = re.sub(r'(mono(?:_from)?\(\*old\(p\), \*final\(p\)[^\n]*?\),)', lambda m__: m__.group(1) + ens, spec, count=1)
        e.spec = spec
        if lo and loops_exist(body):
            e.ghost = [('{', 'after', 'let ghost oq3_lo: int = %s;' % lo)] + list(e.ghost)
        # loops: the frame of the function, plus the validity of the markers that are still used afterwards
        names = [(n_, 'fresh_at') for n_ in pend] + [(n_, 'done_at') for n_ in comp]
        for mm in re.finditer(r'\blet\s+(?:mut\s+)?(\w+)\s*=\s*(p\.start\(\)|\w+\.precede\(p\))', body):
            # a slot from `p.start()` is fresh (may be abandoned); one from `precede` has a link aimed at it (must be completed)
            names.append((mm.group(1), 'fresh_at' if mm.group(2).startswith('p.start') else 'pending_at', mm.start()))
        loops = _find_loops(body)

        def inv_for(kwoff):
            extra = []
            for t in names:
                nm, pred = t[0], t[1]
                decl = t[2] if len(t) > 2 else -1
                used_after = re.search(r'\b%s\s*\.(complete|abandon|precede)\(|[(,]\s*%s\s*[),]' % (nm, nm), body[kwoff:])
                if decl < kwoff and used_after:
                    extra.append('crate::parser::%s(p.events@, %s.pos as int)' % (pred, nm))
            return extra
        if loops:
            newl = dict(e.loops)
            for k_, (kwoff, broff, kw_) in enumerate(loops, 1):
                sp = newl.get(k_) or e.all_loops
                if not sp:
                    continue
                itn = None
                if isinstance(sp, tuple):
                    itn, sp = sp
                if lo:
                    sp = sp.replace('crate::parser::mono(*old(p), *p)', 'crate::parser::mono_from(*old(p), *p, oq3_lo)')
                ex = inv_for(kwoff)
                if ex:
                    sp = sp.replace('invariant ', 'invariant ' + ', '.join(ex) + ', ', 1) if sp.lstrip().startswith('invariant ') else sp.replace('\ninvariant ', '\ninvariant ' + ', '.join(ex) + ', ', 1)
                newl[k_] = (itn, sp) if itn else sp
            e.loops = newl
    # ---- C01 stage 3: termination of the mutual recursion of the grammar
    from units.parser_ranks import RANK
    for e in U.all_fn_entries():
        if not e.trusted and e.file.startswith('crates/oq3_parser/src/grammar') and e.spec and 'old(p).wf()' in e.spec:
            e.nodecreases = False
            rk = RANK.get(e.name, 0)
            e.spec = e.spec.rstrip('\n') + '\ndecreases crate::parser::rem(old(p).st()), %s,     // recursion measure: (remaining tokens, rank)' % (rk if isinstance(rk, str) else '%dnat' % rk)
    U.rlimit = 60
    return U
