"""Mutation self-test (thorough tier): one-line mutants of the EXTRACTED text (never of /repo).
Each is applied inside the named function (qualified name as in the unit) and must turn an
obligation of the expected function red; a survivor means the contracts are too weak for that
behaviour (machinery failure, exit 2 -- not a property verdict)."""

def M(name, unit, props, fn, old, new, expect=None):
    return dict(name=name, unit=unit, props=props, fn=fn, old=old, new=new, expect=expect or fn)

MUTANTS = [
    # ---- TYPES
    M('types:promote_width:none-is-smallest', 'types', ['C20'], 'promote_width', '(Some(_), None) | (None, Some(_)) | (None, None) => None,', '(Some(w), None) | (None, Some(w)) => Some(w), (None, None) => None,'),
    M('types:promote_constness:and->or', 'types', ['C20'], 'promote_constness', 'ty1.is_const() && ty2.is_const()', 'ty1.is_const() || ty2.is_const()'),
    M('types:promote_types:drop-base-promotion', 'types', ['C20'], 'promote_types', '    promote_base_type(ty1, ty2)\n}', '    Type::Void\n}'),
    M('types:can_cast_literal:int<-float', 'types', ['C20'], 'can_cast_literal', '(Int(..), Float(..)) => false,', '(Int(..), Float(..)) => true,'),
    M('types:implicit_cast:div-promotes', 'types', ['C20', 'C08'], 'implicit_cast_type', 'Type::Float(None, IsConst::False)', 'Type::Float(Some(32), IsConst::False)'),
    # ---- SYM
    M('sym:new_binding:skip-check', 'sym', ['C19', 'C07'], 'SymbolTable::new_binding', 'if self.current_scope_contains_name(name) {', 'if false && self.current_scope_contains_name(name) {'),
    M('sym:lookup:forward-walk', 'sym', ['C19', 'C07'], 'SymbolTable::lookup', '.iter().rev()', '.iter()'),
    M('sym:exit_scope:pop-twice', 'sym', ['C19'], 'SymbolTable::exit_scope', '        self.scope_symbol_table_stack.pop();', '        self.scope_symbol_table_stack.pop(); self.scope_symbol_table_stack.pop();'),
    M('sym:context:wrong-error-kind', 'sym', ['C07'], 'Context::lookup_symbol', 'insert(UndefVarError, node)', 'insert(UndefGateError, node)'),
    M('sym:post_increment:returns-new', 'sym', ['C19'], 'SymbolId::post_increment', '        old_val\n', '        self.clone()\n'),
    # ---- LEX
    M('lex:eat_decimal_digits:drop-bump', 'lex', ['C14', 'C01'], "Cursor<'_>::eat_decimal_digits", "'_' => {\n                    self.bump();", "'_' => {"),
    M('lex:converter:offset-not-advanced', 'lex', ['C14', 'C02'], "Converter<'a>::push", 'self.offset += len;', 'self.offset += 0;'),
    M('lex:inner_extend_token:semi->comma', 'lex', ['C15'], 'inner_extend_token', 'oq3_lexer::TokenKind::Semi => T![;],', 'oq3_lexer::TokenKind::Semi => T![,],'),
    M('lex:extend_literal:unterminated-str-silent', 'lex', ['C11'], 'extend_literal_func', 'oq3_lexer::LiteralKind::Str { terminated } => {\n            if !terminated {', 'oq3_lexer::LiteralKind::Str { terminated } => {\n            if false {'),
    M('lex:block_comment:depth-underflow', 'lex', ['C01', 'C14'], "Cursor<'_>::block_comment", 'let mut depth = 1usize;', 'let mut depth = 0usize;'),
    M('lex:advance_token:no-reset', 'lex', ['C14'], "Cursor<'_>::advance_token", '        self.reset_pos_within_token();\n', ''),
    M('lex:number:upper-E-dropped', 'lex', ['C15', 'C11'], "Cursor<'_>::number", "                        'e' | 'E' => {\n                            self.bump();\n                            empty_exponent", "                        'e' => {\n                            self.bump();\n                            empty_exponent"),
    M('lex:exponent:sign-counts-as-digits', 'lex', ['C11'], "Cursor<'_>::eat_float_exponent", '        self.eat_decimal_digits()\n', '        let before = self.pos_within_token(); self.eat_decimal_digits(); self.pos_within_token() > before\n'),
    M('lex:digits:underscore-counts', 'lex', ['C11', 'C15'], "Cursor<'_>::eat_decimal_digits", "'_' => {\n                    self.bump();", "'_' => {\n                    has_digits = true;\n                    self.bump();"),
    # ---- PARSER
    M('parser:expr_bp:bp-overflow', 'parser', ['C01'], 'expr_bp', 'Associativity::Left => op_bp + 1,', 'Associativity::Left => op_bp + 250,'),
    M('parser:current_op:plus-bp', 'parser', ['C05'], 'current_op', '(10, T![+],   Left)', '(11, T![+],   Left)'),
    M('parser:current_op:wrong-op', 'parser', ['C05', 'C01'], 'current_op', '(9,  T![>>],  Left)', '(9,  T![<<],  Left)'),
    M('parser:eat:composite-len', 'parser', ['C02', 'C01'], "Parser<'t>::eat", 'T![...] | T![..=] | T![<<=] | T![>>=] => 3,', 'T![...] | T![..=] | T![<<=] | T![>>=] => 2,'),
    M('parser:err_recover:no-error-event', 'parser', ['C12'], "Parser<'t>::err_recover", '        let m = self.start();\n        self.error(message);', '        let m = self.start();'),
    M('parser:switch:no-case-bump', 'parser', ['C01'], 'switch_case_stmt', '        p.bump(T![case]);\n', ''),
    M('parser:tuple_expr:loop-no-break', 'parser', ['C01'], 'tuple_expr', '        if expr(p).is_none() {\n            break;\n        }', '        let _ = expr(p);'),
    M('parser:is_joint:no-guard', 'parser', ['C01'], "Parser<'t>::at_composite2", 'self.inp.kind(self.pos + n) == k1\n            && self.inp.kind(self.pos + n + 1) == k2\n            && self.inp.is_joint(self.pos + n)', 'self.inp.is_joint(self.pos + n) && self.inp.kind(self.pos + n) == k1\n            && self.inp.kind(self.pos + n + 1) == k2'),
    # ---- SHORT
    M('short:to_input:trivia-keeps-joint', 'short', ['C02'], "LexedStr<'_>::to_input", 'was_joint = false\n', 'was_joint = was_joint\n'),
    M('short:do_token:wrong-range', 'short', ['C02'], "Builder::do_token", 'self.lexed.range_text(self.pos..self.pos + n_tokens)', 'self.lexed.range_text(self.pos..self.pos + 1)'),
    M('short:input-push:wrong-word', 'short', ['C02', 'C01'], 'Input::push', 'if idx % (bits::BITS as usize) == 0 {', 'if idx % (bits::BITS as usize) == 1 {'),
    # ---- SEMA
    M('sema:gate_call:swap-errors', 'sema', ['C13'], 'gate_call_expr_to_asg_stmt', 'context.insert_error(NumGateQubitsError, &gate_call_expr);', 'context.insert_error(NumGateParamsError, &gate_call_expr);'),
    M('sema:gate_operand:accept-bit', 'sema', ['C13'], 'gate_operand_to_asg_texpr', 'Type::Qubit | Type::HardwareQubit | Type::QubitArray(_)) {\n                context.insert_error(IncompatibleTypesError, &gate_operand);\n            }\n            asg::GateOperand::Identifier', 'Type::Qubit | Type::HardwareQubit | Type::QubitArray(_) | Type::Bit(_)) {\n                context.insert_error(IncompatibleTypesError, &gate_operand);\n            }\n            asg::GateOperand::Identifier'),
    M('sema:binary_op:mul->div', 'sema', ['C06'], 'binary_op_to_asg_type', '                Mul => ArithOp(asg::ArithOp::Mul),\n                Div', '                Mul => ArithOp(asg::ArithOp::Div),\n                Div'),
    M('sema:scalar_type:uint->int', 'sema', ['C09'], 'scalar_type_to_type', 'synast::ScalarTypeKind::UInt => Type::UInt(width, isconst.into()),', 'synast::ScalarTypeKind::UInt => Type::Int(width, isconst.into()),'),
    M('sema:cast:type-of-operand', 'sema', ['C08'], 'Cast::to_texpr', 'let typ = self.get_type().clone();', 'let typ = self.operand.get_type().clone();'),
    M('sema:if-new:drop-then', 'sema', ['C06'], 'If::new', 'then_branch,\n', 'then_branch: Block::new(Vec::new()),\n'),
    M('sema:lookup_identifier:new-unwrap-site', 'sema', ['C03'], 'lookup_identifier', 'let name_str = identifier.string();', 'let name_str = identifier.string(); let _x: u32 = None::<u32>.unwrap();'),
    M('sema:designator:drop-error', 'sema', ['C09'], 'designator_to_asg', 'context.insert_error(ConstIntegerError, literal);', ''),
    M('sema:decl:literal-error-dropped', 'sema', ['C08'], 'classical_declaration_statement_to_asg_stmt', '                context.insert_error(IncompatibleTypesError, type_decl);\n                return declare_classical_helper(symbol_id, Some(initializer), context);', '                return declare_classical_helper(symbol_id, Some(initializer), context);'),
    M('sema:decl:bind-before-initializer', 'sema', ['C07'], 'classical_declaration_statement_to_asg_stmt', '    let initializer = expr_to_asg_texpr(type_decl.expr(), context);\n    let symbol_id = context.new_binding(name_str.as_ref(), &lhs_type, type_decl);', '    let symbol_id = context.new_binding(name_str.as_ref(), &lhs_type, type_decl);\n    let initializer = expr_to_asg_texpr(type_decl.expr(), context);'),
    M('sema:assign:no-mutate-const-error', 'sema', ['C13', 'C08'], 'assignment_stmt_to_asg_stmt', '            context.insert_error(MutateConstError, assignment_stmt);\n        }\n        return stmt_asg;', '        }\n        return stmt_asg;'),
    M('sema:assign:cast-dropped', 'sema', ['C08'], 'assignment_stmt_to_asg_stmt', 'expr = asg::Cast::new(expr, promoted_type).to_texpr()', 'expr = expr'),
    M('sema:binexpr:quantum-left-unreported', 'sema', ['C13'], 'expr_to_asg_texpr', 'context.insert_error(IncompatibleTypesError, &bin_expr.lhs().unwrap());', ''),
    M('sema:return:always-reported', 'sema', ['C13'], 'expr_to_asg_texpr', 'if context.symbol_table().current_scope_type() == ScopeType::Global {', 'if true {'),
    M('sema:new_texpr_with_cast:no-cast-left', 'sema', ['C08'], 'BinaryExpr::new_texpr_with_cast', 'Cast::new(left, promoted_type.clone()).to_texpr()', 'left'),
    # ---- SEMA stage 2 (statement analyser)
    M('sema:gate:arity-swapped', 'sema', ['C09'], 'stmt_to_asg_stmt', '&Type::Gate(num_params, qubits.len()),', '&Type::Gate(qubits.len(), num_params),'),
    M('sema:def:num-params-zero', 'sema', ['C09'], 'stmt_to_asg_stmt', '                    num_params,\n                    return_type: Box::new(return_type.clone()),', '                    num_params: 0,\n                    return_type: Box::new(return_type.clone()),'),
    M('sema:qdecl:register-is-scalar', 'sema', ['C09'], 'stmt_to_asg_stmt', 'Some(width) => Type::QubitArray(ArrayDims::D1(width as usize)),', 'Some(width) => Type::Qubit,'),
    M('sema:for:loop-var-in-enclosing-scope', 'sema', ['C07'], 'stmt_to_asg_stmt', '            with_scope!(context,  ScopeType::Local,\n                        let loop_var_symbol_id = context.new_binding(loop_var.string().as_ref(), &ty, &loop_var);\n                        let loop_body', '            let loop_var_symbol_id = context.new_binding(loop_var.string().as_ref(), &ty, &loop_var);\n            with_scope!(context,  ScopeType::Local,\n                        let loop_body'),
    M('sema:if:else-in-then-scope', 'sema', ['C07', 'C03'], 'stmt_to_asg_stmt', '            );\n            with_scope!(context,  ScopeType::Local,\n                        let else_branch', '                        let else_branch'),
    M('sema:while:scope-not-left', 'sema', ['C03', 'C07'], 'stmt_to_asg_stmt', '            with_scope!(context,  ScopeType::Local,\n                        let loop_body = block_or_stmt_to_asg_type(while_stmt.block_or_stmt(), context);\n            );', '            context.symbol_table.enter_scope(ScopeType::Local);\n            let loop_body = block_or_stmt_to_asg_type(while_stmt.block_or_stmt(), context);'),
    M('sema:gate:name-bound-before-body', 'sema', ['C07'], 'stmt_to_asg_stmt', '            let name_node = gate.name().unwrap();\n', '            let name_node = gate.name().unwrap();\n            let _early = context.new_binding(name_node.string().as_ref(), &Type::Gate(0, 0), &name_node);\n'),
    M('sema:bind_params:wrong-type', 'sema', ['C09'], 'bind_parameter_list', 'context.new_binding(param.text().as_ref(), typ, &param)', 'context.new_binding(param.text().as_ref(), &Type::Qubit, &param)'),
    M('sema:expr_list:all-dropped', 'sema', ['C06'], 'expression_list_to_asg_texpr', '.filter_map(|x| expr_to_asg_texpr(Some(x), context))', '.filter_map(|x| { let _y = expr_to_asg_texpr(Some(x), context); None })'),
    M('sema:include:nested-evaluated', 'sema', ['C03'], 'block_expr_to_asg_stmt_list', 'fn block_expr_to_asg_stmt_list(block: synast::BlockExpr, context: &mut Context) -> Vec<asg::Stmt> {', 'fn block_expr_to_asg_stmt_list(block: synast::BlockExpr, context: &mut Context) -> Vec<asg::Stmt> {\n    context.symbol_table.exit_scope();'),
    M('sema:block_or_stmt:unwrap-back', 'sema', ['C03'], 'block_or_stmt_to_asg_type', 'match stmt_to_asg_stmt(stmt, context) {\n                Some(stmt) => asg::Block::new(vec![stmt]),\n                None => asg::Block::new(Vec::new()),\n            }', 'asg::Block::new(vec![stmt_to_asg_stmt(stmt, context).unwrap()])'),
    M('sema:break->continue', 'sema', ['C06'], 'stmt_to_asg_stmt', 'synast::Stmt::BreakStmt(_) => Some(asg::Stmt::Break),', 'synast::Stmt::BreakStmt(_) => Some(asg::Stmt::Continue),'),
    M('sema:modifier:inv->ctrl', 'sema', ['C06'], 'expr_stmt_to_asg_stmt', 'synast::Modifier::InvModifier(_) => asg::GateModifier::Inv,', 'synast::Modifier::InvModifier(_) => asg::GateModifier::Ctrl(None),'),
    M('sema:cal:silently-dropped', 'sema', ['C03'], 'stmt_to_asg_stmt', 'synast::Stmt::Cal(n) => not_impl!(context, n),', 'synast::Stmt::Cal(n) => Some(asg::Stmt::NullStmt),'),
    M('sema:to_stmt:while-as-if', 'sema', ['C06'], 'Pragma::to_stmt', 'Stmt::Pragma(self)', 'Stmt::NullStmt'),
    # ---- SYNX
    M('synx:gate-inverted', 'synx', ['C11'], 'parse_text_check_lex', 'if !lexed.errors_is_empty() {', 'if lexed.errors_is_empty() {'),
    M('synx:gate-dropped', 'synx', ['C11'], 'parse_text_check_lex', 'if !lexed.errors_is_empty() {', 'if false {'),
    M('synx:range-swapped', 'synx', ['C12', 'C01'], 'lexer_errors_to_syntax_errors', 'text_range.start.try_into().unwrap(),\n            text_range.end.try_into().unwrap(),', 'text_range.end.try_into().unwrap(),\n            text_range.start.try_into().unwrap(),'),
    M('synx:lex-other-text', 'synx', ['C02'], 'parse_text', 'oq3_parser::LexedStr::new(openqasm_code_text)', 'oq3_parser::LexedStr::new("")'),
    # ---- ASTX
    M('astx:range:two-children-step', 'astx', ['C05', 'C06'], 'ast::RangeExpr::start_step_stop', '(first, third, second)', '(first, second, third)'),
    M('astx:bin:rhs-is-lhs', 'astx', ['C05', 'C06'], 'ast::BinExpr::rhs', '.nth(1)', '.nth(0)'),
    M('astx:while:body-second-expr', 'astx', ['C05', 'C06'], 'ast::WhileStmt::condition', 'first => first,', 'first => exprs.next(),'),
    M('astx:assign:rhs-first', 'astx', ['C05', 'C06'], 'ast::AssignmentStmt::rhs', '        if expr2.is_some() {\n            expr2\n        } else {\n            expr1\n        }', '        expr1'),
    # ---- SEMA top level
    M('sema:top:gate-dropped', 'sema', ['C11'], 'analyze_source', 'if parsed_source.have_syntax_errors() {', 'if false {'),
    M('sema:top:gate-flag-wrong', 'sema', ['C11'], 'analyze_source', '            have_syntax_errors: true,', '            have_syntax_errors: false,'),
    M('sema:top:annotations-dropped', 'sema', ['C06'], 'syntax_to_semantic', 'let anstmt = asg::AnnotatedStmt::new(stmt, context.take_annotations()).to_stmt();', 'let anstmt = asg::AnnotatedStmt::new(stmt, Vec::new()).to_stmt();'),
    M('sema:top:include-desync', 'sema', ['C03'], 'syntax_to_semantic', 'if file_path == "stdgates.inc" {', 'if file_path == "stdgates.inc" || file_path == "qelib1.inc" {'),
    M('sema:top:stmt-prepended', 'sema', ['C06'], 'Program::insert_stmt', 'self.stmts.push(stmt);', 'self.stmts.insert(0, stmt);'),
    # ---- SHORT intersperse_trivia
    M('short:intersperse:error-inside-token', 'short', ['C12'], "LexedStr<'_>::intersperse_trivia", 'let text_pos = builder.lexed.text_start(builder.pos);', 'let text_pos = builder.lexed.text_start(builder.pos) / 2;'),
    M('short:intersperse:token-count-ignored', 'short', ['C02'], "LexedStr<'_>::intersperse_trivia", '} => builder.token(kind, n_raw_tokens),', '} => builder.token(kind, 1),'),
    M('short:intersperse:no-final-exit-state', 'short', ['C01', 'C02'], "LexedStr<'_>::intersperse_trivia", 'Step::Exit => builder.exit(),', 'Step::Exit => (),'),
    # ---- PARSER recursion measure
    M('parser:block_expr:brace-not-consumed', 'parser', ['C01'], 'block_expr', "    p.bump(T!['{']);\n", ''),
    M('parser:paren:open-not-consumed', 'parser', ['C01'], 'tuple_expr', "    p.expect(T!['(']);\n", ''),
    # ---- LEX stage C
    M('lex:string:escape-not-skipped', 'lex', ['C11', 'C15'], "Cursor<'_>::double_quoted_string", "                    only_ones_and_zeros = false;\n                    self.bump();", "                    only_ones_and_zeros = false;"),
    M('lex:string:eof-is-terminated', 'lex', ['C11'], "Cursor<'_>::double_quoted_string", "        // End of file reached.\n        (terminated, only_ones_and_zeros, consecutive_underscores)", "        // End of file reached.\n        (true, only_ones_and_zeros, consecutive_underscores)"),
    M('lex:block_comment:no-nesting', 'lex', ['C11', 'C15'], "Cursor<'_>::block_comment", "                    self.bump();\n                    depth += 1;", "                    self.bump();"),
    M('lex:block_comment:unterminated-flag', 'lex', ['C11'], "Cursor<'_>::block_comment", "terminated: depth == 0,", "terminated: true,"),
    # ---- C08 kind lowering
    M('sema:decl:float-to-int-only-void-reported', 'sema', ['C08'], 'classical_declaration_statement_to_asg_stmt', 'if promoted_type == Type::Void || &promoted_type == init_type {', 'if promoted_type == Type::Void {'),
    M('types:can_cast_literal:bool<-int', 'types', ['C08'], 'can_cast_literal', '(Float(..), Int(..)) => true,', '(Float(..), Int(..)) => true,\n        (Bool(..), Int(..)) => true,'),
    M('types:promote_base:cross-kind-const-and', 'types', ['C08', 'C20'], 'promote_base_type', '(Int(..), Float(..)) => ty2.clone(),', '(Int(..), Float(w, _)) => Float(*w, promote_constness(ty1, ty2)),'),
    # ---- ASTX (gate parameters, type keywords)
    M('astx:gate:angles-are-qubits', 'astx', ['C05', 'C06'], 'ast::Gate::angle_params', '        if qubits_or_none.is_none() {\n            qubits_or_none\n        } else {\n            qubits_or_angles\n        }', '        qubits_or_angles'),
    M('astx:scalar_type:uint-is-int', 'astx', ['C09'], 'ast::ScalarType::kind', 'T![uint] => UInt,', 'T![uint] => Int,'),
    # ---- C13 scope / delay diagnostics
    M('sema:qdecl:global-check-dropped', 'sema', ['C13'], 'stmt_to_asg_stmt', '            if !context.symbol_table().in_global_scope() {\n                context.insert_error(NotInGlobalScopeError, &q_decl);\n            }', ''),
    M('sema:def:global-check-inverted', 'sema', ['C13'], 'stmt_to_asg_stmt', '            if !context.symbol_table().in_global_scope() {\n                context.insert_error(NotInGlobalScopeError, &name_node);\n            }', '            if context.symbol_table().in_global_scope() {\n                context.insert_error(NotInGlobalScopeError, &name_node);\n            }'),
    M('sema:delay:duration-check-dropped', 'sema', ['C13'], 'stmt_to_asg_stmt', 'if !matches!(duration.get_type(), Type::Duration(_)) {', 'if false {'),
    # ---- C07 redeclarations are marked in the graph
    M('sema:alias:redeclaration-hidden', 'sema', ['C07'], 'stmt_to_asg_stmt', 'Some(asg::Alias::new(symbol_id, rhs).to_stmt())', 'Some(asg::Alias::new(context.symbol_table().lookup(name_str.as_ref()).to_symbol_id(), rhs).to_stmt())'),
    M('sema:output-decl:redeclaration-hidden', 'sema', ['C07'], 'io_declaration_statement_to_asg_stmt', 'asg::OutputDeclaration::new(symbol_id).to_stmt()', 'asg::OutputDeclaration::new(context.symbol_table().lookup(name_str.as_ref()).to_symbol_id()).to_stmt()'),
    M('sema:include:stdgates-guarded', 'sema', ['C07'], 'syntax_to_semantic', 'context.standard_library_gates(&include);', 'if context.symbol_table().lookup("h").is_err() { context.standard_library_gates(&include); }'),
    M('sema:cast:node-dropped', 'sema', ['C08'], 'expr_to_asg_texpr', 'Some(asg::Cast::new(expr.unwrap(), typ).to_texpr())', 'Some(expr.unwrap())'),
    M('sema:operand:indexed-bit-accepted', 'sema', ['C13'], 'gate_operand_to_asg_texpr', 'if !matches!(typ, Type::QubitArray(_)) {', 'if !matches!(typ, Type::QubitArray(_) | Type::BitArray(..)) {'),
    M('sema:assign:const-element-not-reported', 'sema', ['C13'], 'assignment_stmt_to_asg_stmt', 'matches!(typ, Type::BitArray(_, IsConst::True))', 'false'),
    M('sema:block:break-statements-dropped', 'sema', ['C06'], 'block_expr_to_asg_stmt_list', '.filter_map(|syn_stmt| stmt_to_asg_stmt(syn_stmt, context))', '.filter_map(|syn_stmt| { let r_ = stmt_to_asg_stmt(syn_stmt, context); if let Some(asg::Stmt::Break) = r_ { None } else { r_ } })'),
    M('sema:while:body-dropped', 'sema', ['C06'], 'stmt_to_asg_stmt', 'Some(asg::While::new(condition.unwrap(), loop_body).to_stmt())', 'Some(asg::While::new(condition.unwrap(), asg::Block::new(Vec::new())).to_stmt())'),
    M('sema:if:else-is-then', 'sema', ['C06'], 'stmt_to_asg_stmt', 'Some(asg::If::new(condition.unwrap(), then_branch, else_branch).to_stmt())', 'Some(asg::If::new(condition.unwrap(), then_branch.clone(), else_branch.map(|_b| then_branch)).to_stmt())'),
    M('sema:switch:case-body-dropped', 'sema', ['C06'], 'stmt_to_asg_stmt', 'asg::CaseExpr::new(int_exprs, statements)', 'asg::CaseExpr::new(int_exprs, Vec::new())'),
    M('sema:literal:int-as-bool', 'sema', ['C06', 'C08'], 'literal_to_asg_texpr', 'asg::IntLiteral::new(num, true).to_texpr() // `true` means positive literal.', 'asg::BoolLiteral::new(num > 0).to_texpr()'),
    M('sema:literal:positive-imaginary-int-as-int', 'sema', ['C06'], 'expr_to_asg_texpr', 'Some(asg::IntLiteral::new(num, true).to_imaginary_texpr())', 'Some(asg::IntLiteral::new(num, true).to_texpr())'),
    M('sema:literal:negated-int-keeps-plus-sign', 'sema', ['C06'], 'negative_int_to_asg_type', 'asg::IntLiteral::new(num, false)', 'asg::IntLiteral::new(num, true)'),
    M('sema:expr:negated-paren-loses-minus', 'sema', ['C06'], 'expr_to_asg_texpr', '''                Some(synexpr) => Some(
                    asg::UnaryExpr::new(
                        asg::UnaryOp::Minus,
                        expr_to_asg_texpr(Some(synexpr), context).unwrap(),
                    )
                    .to_texpr(),
                ),''', '''                Some(synexpr) => Some(expr_to_asg_texpr(Some(synexpr), context).unwrap()),'''),
    M('synx:new_at_offset:range-not-empty', 'synx', ['C12'], 'SyntaxError::new_at_offset', 'TextRange::empty(offset)', 'TextRange::at(offset, offset)'),
    M('sema:include:read-failure-not-reported', 'sema', ['C12'], 'syntax_to_semantic', '''context.insert_error(
                                // Convert the io::ErrorKind to a SemanticErrorKind
                                SemanticErrorKind::from_io_error(include_error.error),
                                &filename_included,
                            );''', 'let _k = SemanticErrorKind::from_io_error(include_error.error);'),
    M('sema:identifier:typed-undefined', 'sema', ['C08', 'C07'], 'expr_to_asg_texpr', 'Some(asg::TExpr::new(asg::Expr::Identifier(sym), typ))', 'Some(asg::TExpr::new(asg::Expr::Identifier(sym), Type::Undefined))'),
    M('sema:paren:inner-replaced-by-null', 'sema', ['C08', 'C06'], 'paren_expr_to_asg_texpr', 'expr_to_asg_texpr(paren_expr.expr(), context)', '{ let r_ = expr_to_asg_texpr(paren_expr.expr(), context); Some(asg::TExpr::new(r_.unwrap().expression, Type::Bool(IsConst::True))) }'),
    M('sema:decl:const-dropped', 'sema', ['C09'], 'classical_declaration_statement_to_asg_stmt', 'scalar_type_to_type(&scalar_type, type_decl.const_token().is_some(), context)', 'scalar_type_to_type(&scalar_type, false, context)'),
    M('sema:io-decl:const', 'sema', ['C09'], 'io_declaration_statement_to_asg_stmt', 'let typ = scalar_type_to_type(&scalar_type, false, context);', 'let typ = scalar_type_to_type(&scalar_type, true, context);'),
    M('sema:accessor:else-branch-is-none', 'sema', ['C06'], 'If::else_branch', 'self.else_branch.as_ref()', 'None'),
    M('sema:accessor:gatecall-params-none', 'sema', ['C06'], 'GateCall::params', 'self.params.as_deref()', 'None'),
    M('sema:accessor:num-params-default-one', 'sema', ['C06'], 'GateDefinition::num_params', 'map_or(0, Vec::len)', 'map_or(1, Vec::len)'),
    M('sema:accessor:stmts-truncated', 'sema', ['C06'], 'Program::stmts', '&self.stmts', '&self.stmts[0..0]'),
    M('sema:index:set-becomes-list', 'sema', ['C06'], 'index_operator_to_asg_type', 'asg::IndexOperator::SetExpression(set_expression_to_asg_type(set_expression, context))', 'asg::IndexOperator::ExpressionList(asg::ExpressionList::new(set_expression_to_asg_type(set_expression, context).expressions))'),
    M('sema:range:step-dropped', 'sema', ['C06'], 'range_expression_to_asg_type', 'asg::RangeExpression::new(start, step, stop)', 'asg::RangeExpression::new(start, None, stop)'),
    M('sema:scalar_type:width-dropped-for-float', 'sema', ['C09'], 'scalar_type_to_type', 'synast::ScalarTypeKind::Float => Type::Float(width, isconst.into()),', 'synast::ScalarTypeKind::Float => Type::Float(None, isconst.into()),'),
    M('sema:param_type:array-ref-as-scalar', 'sema', ['C09'], 'param_type_to_type', 'synast::ParamType::ArrayRefType(_) => return Type::ToDo,', 'synast::ParamType::ArrayRefType(_) => return Type::Void,'),
    M('sema:typed-param:bound-const', 'sema', ['C09'], 'bind_typed_parameter_list', 'param_type_to_type(&pt, false, context)', 'param_type_to_type(&pt, true, context)'),
    M('sema:includes:parsed-despite-syntax-errors', 'sema', ['C11'], 'parse_source_and_includes', 'let parse_ok = parsed_source.have_parse() && parsed_source.errors().is_empty();', 'let parse_ok = parsed_source.have_parse();'),
    # ---- PARSER marker discipline
    M('parser:marker:complete-wrong-slot', 'parser', ['C01', 'C02'], 'Marker::complete', 'let idx = self.pos as usize;', 'let idx = (self.pos as usize) + 1;'),
    M('parser:marker:abandon-always-pops', 'parser', ['C01', 'C02'], 'Marker::abandon', 'if idx == p.events.len() - 1 {', 'if idx <= p.events.len() - 1 {'),
    M('parser:marker:precede-wrong-distance', 'parser', ['C01'], 'CompletedMarker::precede', '*forward_parent = Some(new_pos.pos - self.pos);', '*forward_parent = Some(self.pos - new_pos.pos);'),
    # ---- forward_parent links (Parser::wf carries fp_ok; event::process follows the links)
    M('parser:marker:precede-absolute-link', 'parser', ['C01'], 'CompletedMarker::precede', '*forward_parent = Some(new_pos.pos - self.pos);', '*forward_parent = Some(new_pos.pos);'),
    M('parser:stmt:preceded-marker-abandoned', 'parser', ['C01'], 'stmt', '            m.complete(p, EXPR_STMT);\n', '            m.abandon(p);\n'),
    M('parser:process:chain-off-by-one', 'parser', ['C01'], 'process', 'idx += fwd as usize;', 'idx += fwd as usize; idx += 1;'),
    M('parser:process:token-count-dropped', 'parser', ['C02'], 'process', 'output.token(kind, n_raw_tokens);', 'output.token(kind, 1);'),
    M('parser:process:finish-skipped-after-token', 'parser', ['C02'], 'process', 'Event::Finish => output.leave_node(),', 'Event::Finish => { if i % 7 != 6 { output.leave_node() } }'),
    M('parser:source_file:root-abandoned', 'parser', ['C02'], 'entry::top::source_file', 'm.complete(p, SOURCE_FILE);', 'm.abandon(p);'),
    M('parser:do_bump:pos-by-one', 'parser', ['C02'], "Parser<'t>::do_bump", 'self.pos += n_raw_tokens as usize;', 'self.pos += 1;'),
    M('parser:bump_any:empty-token-event', 'parser', ['C02'], "Parser<'t>::bump_any", 'self.do_bump(kind, 1);', 'self.do_bump(kind, 0);'),
    M('parser:parse:events-not-processed', 'parser', ['C02'], 'TopEntryPoint::parse', 'let res = event::process(events);', 'let res = event::process(Vec::new());'),
    M('parser:process:tombstone-entered', 'parser', ['C02'], 'process', 'if kind != TOMBSTONE {', 'if true {'),
    M('parser:complete:two-finish-events', 'parser', ['C02', 'C01'], 'Marker::complete', 'p.push_event(Event::Finish);', 'p.push_event(Event::Finish); p.push_event(Event::Finish);'),
    M('parser:index_expr:swallows-all-index-operators', 'parser', ['C05'], 'index_expr', '    index_operator(p);\n', '    while p.at(T![\'[\']) && !p.at(EOF) {\n        index_operator(p);\n    }\n'),
    M('parser:if_stmt:else-if-continues-the-node', 'parser', ['C05'], 'if_stmt', '            let m = p.start();\n            if_stmt(p, m);\n', '            return if_stmt(p, m);\n'),
    M('parser:postfix:call-result-indexed-as-identifier', 'parser', ['C05'], 'postfix_expr', 'IDENTIFIER => indexed_identifier(p, lhs),', 'IDENTIFIER | CALL_EXPR => indexed_identifier(p, lhs),'),
    M('parser:array_type_spec:keyword-bumped-blindly', 'parser', ['C12'], 'array_type_spec', '    p.expect(T![array]);\n', '    p.bump_any();\n'),
    M('parser:var_name:any-token-is-a-name', 'parser', ['C12'], 'var_name', '    if p.at(IDENT) {', '    if !p.at(EOF) {'),
    M('lex:unit:seconds-not-a-unit', 'lex', ['C15'], "Cursor<'_>::has_timing_or_imaginary_suffix", "if self.first() == 's' {", "if self.first() == 'S' {"),
    M('lex:number:unit-swallowed', 'lex', ['C15'], "Cursor<'_>::advance_token", '''                let suffix_start = self.pos_within_token();
                // If this a timing (or duration) literal, we will parse the
                // time unit as another token.  So we don't eat the suffix if it
                // is a time unit.
                if !self.has_timing_or_imaginary_suffix() {
                    self.eat_literal_suffix();
                }''', '''                let suffix_start = self.pos_within_token();
                self.eat_literal_suffix();'''),
    M('parser:lhs:two-operators-one-node', 'parser', ['C05'], 'lhs', '            m = p.start();\n            p.bump_any();\n', '            m = p.start();\n            p.bump_any();\n            if p.at(T![-]) { p.bump_any(); }\n'),
    M('lex:punct:tilde-is-bang', 'lex', ['C15'], "Cursor<'_>::advance_token", "'~' => Tilde,", "'~' => Bang,"),
    M('lex:directive:dim-without-m', 'lex', ['C15'], "Cursor<'_>::have_dim", "                if self.first() == 'm' {\n                    self.bump();\n                    return true;\n                }", "                return true;"),
    M('lex:directive:pragma-needs-no-space', 'lex', ['C15'], "Cursor<'_>::have_pragma", 'if is_whitespace(self.first()) {', 'if !is_id_continue(self.first()) {'),
    M('lex:slash:star-is-line-comment', 'lex', ['C15'], "Cursor<'_>::advance_token", "                '*' => self.block_comment(),\n", ""),
    M('lex:hardware_ident:dollar-alone-is-a-qubit', 'lex', ['C15'], "Cursor<'_>::hardware_ident", 'if !self.eat_decimal_digits() {', 'if self.eat_decimal_digits() {'),
    M('parser:identifier:completed-as-literal', 'parser', ['C05'], 'identifier', 'm.complete(p, IDENTIFIER)', 'm.complete(p, LITERAL)'),
    M('lex:bitstring:underscore-flag-on-any-second-underscore', 'lex', ['C15'], "Cursor<'_>::double_quoted_string", "                    if prev_char == '_' {\n", "                    if prev_char == '_' || !only_ones_and_zeros {\n"),
    # (D39 pieces are sidecar-wrapped copies of /repo text: not addressable by the mutation table; exercised by tools/benign_battery.sh and the seeds)
    M('astx:prefix:tilde-is-logical-not', 'astx', ['C05', 'C06'], 'ast::PrefixExpr::op_kind', 'T![~] => UnaryOp::Not,', 'T![~] => UnaryOp::LogicNot,'),
    M('astx:literal:false-is-true', 'astx', ['C05', 'C06'], 'ast::Literal::kind', 'T![false] => LiteralKind::Bool(false),', 'T![false] => LiteralKind::Bool(true),'),
    M('astx:literal:bitstring-is-string', 'astx', ['C05', 'C06'], 'ast::Literal::kind', 'if let Some(t) = ast::String::cast(token.clone()) {', 'if let Some(t) = ast::String::cast(token.clone()).or(ast::BitString::cast(token.clone()).map(|b| ast::String { syntax: b.syntax })) {'),
    M('astx:indexed-identifier:base-is-none', 'astx', ['C05', 'C06'], 'ast::IndexedIdentifier::identifier', 'support::child(&self.syntax)', 'None'),
    # ---- LEX extents
    M('lex:line_comment:stops-at-space', 'lex', ['C15', 'C14'], "Cursor<'_>::line_comment", "{ c != '\\n' });", "{ c != '\\n' && c != ' ' });"),
    M('lex:eat_identifier:start-test-inverted', 'lex', ['C15'], "Cursor<'_>::eat_identifier", 'if !is_id_start(self.first()) {', 'if is_id_start(self.first()) {'),
    M('parser:source_file:stops-at-semicolon', 'parser', ['C02'], 'source_file_contents', 'while !(p.at(EOF) || (p.at(T![\'}\']) && stop_on_r_curly)) {', 'while !(p.at(EOF) || p.at(T![;]) || (p.at(T![\'}\']) && stop_on_r_curly)) {'),
]
