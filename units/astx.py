"""ASTX — oq3_syntax/src/ast/node_ext.rs + expr_ext.rs: the hand-written typed accessors (roles of
if / while / for bodies, conditions, binary operands, range start/step/stop, assignment target and
value) over an abstract view of the node's children   (C05, C06, C03)"""
import os
import re
from vlib.unit import Unit, REPO

NODES = 'crates/oq3_syntax/src/ast/generated/nodes.rs'
NEXT = 'crates/oq3_syntax/src/ast/node_ext.rs'
EXT = 'crates/oq3_syntax/src/ast/expr_ext.rs'
P = ['C05', 'C06', 'C03', 'C09']
FUEL = ('{', 'after', 'proof { reveal_with_fuel(typed, 6); }')


def build():
    U = Unit('ASTX', props=P)
    U.default_closures = True     # rule-based D3/D16 (vlib/closures.py) applies to every function of this unit
    U.tag_loops = True
    nodes_src = open(os.path.join(REPO, NODES)).read()
    structs = []
    for m in re.finditer(r"pub struct (\w+) \{\s*pub\(crate\) syntax: SyntaxNode,\s*\}", nodes_src):
        if m.group(1) not in structs:
            structs.append(m.group(1))
    U.raw('\n'.join('pub struct %s { pub syntax: SyntaxNode }' % n for n in structs) + '\n',
          note='%d node structs of generated/nodes.rs (`pub struct X { pub(crate) syntax: SyntaxNode }`, visibility widened, derives dropped)' % len(structs))
    g = U.file(NODES)
    g.item('enum', 'Expr')
    g.item('enum', 'Stmt')
    n = U.file(NEXT)
    n.item('enum', 'BlockOrStmt')
    skf = U.file('crates/oq3_parser/src/syntax_kind/syntax_kind_enum.rs')
    skf.item('enum', 'SyntaxKind')
    skf.item('macro_rules', 'T')
    U.file('crates/oq3_syntax/src/ast/type_ext.rs').item('enum', 'ScalarTypeKind')
    U.prelude('contracts/astx.prelude.rs')
    # `impl AstNode for X` of generated/nodes.rs: `fn syntax(&self) -> &SyntaxNode { &self.syntax }` (can_cast / cast are
    # modelled by of_kid; these types are never the N of support::children in this unit)
    for ty in ['IfStmt', 'WhileStmt', 'ForStmt', 'BinExpr', 'RangeExpr', 'AssignmentStmt', 'Gate', 'GateCallExpr', 'CallExpr', 'IndexedIdentifier', 'IndexExpr', 'ScalarType']:
        U.raw('''impl AstNode for %s {
    uninterp spec fn of_kid(k: Kid) -> Option<%s>;
    open spec fn sp_syntax(&self) -> SyntaxNode { self.syntax }
    fn syntax(&self) -> (r: &SyntaxNode) { &self.syntax }
    #[verifier::external_body] fn cast(syntax: SyntaxNode) -> (r: Option<Self>) { unimplemented!() }
}
''' % (ty, ty))
    U.raw('pub mod ast { pub use super::*; }\n')
    H = dict(props=P, ghost=[FUEL])
    KS = 'self.syntax.kids()'
    g.impl('ForStmt', [('body', dict(H, ret='r', spec='ensures r == first::<BlockExpr>(%s),' % KS)), ('stmt', dict(H, ret='r', spec='ensures r == first::<Stmt>(%s),' % KS))])
    n.impl('ast::AssignmentStmt', [
        ('identifier', dict(H, ret='r', spec='''ensures
    // the target of the assignment (when it is a plain identifier), never something from the right-hand side
    assign_shape(%s) ==> r == (if %s[0] is E { Some(%s[0]->E_0->Identifier_0) } else { None::<Identifier> }),      //@C05,C06:assignment-target''' % (KS, KS, KS))),
    ])
    n.impl('ast::WhileStmt', [
        ('condition', dict(H, ret='r', spec='ensures while_shape(%s) ==> r == Some(%s[0]->E_0),      //@C05:while-condition' % (KS, KS))),
        ('body', dict(H, ret='r', spec='ensures r == first::<BlockExpr>(%s),' % KS)), ('stmt', dict(H, ret='r', spec='ensures r == first::<Stmt>(%s),' % KS)),
        ('block_or_stmt', dict(H, ret='r', spec='''requires while_shape(%s),           // the `panic!("Error in oq3_syntax")` of the body
ensures r == bors(%s[1]),      //@C05,C06:while-body''' % (KS, KS))),
    ])
    n.impl('ForStmt', [
        ('block_or_stmt', dict(H, ret='r', spec='''requires for_shape(%s),           // the `panic!("Error in oq3_syntax")` of the body
ensures r == bors(%s[3]),      //@C05,C06:for-body''' % (KS, KS))),
    ])
    n.impl('ast::IfStmt', [
        ('condition', dict(H, ret='r', spec='ensures if_shape(%s) ==> r == Some(%s[0]->E_0),      //@C05:if-condition' % (KS, KS))),
        ('body_at', dict(H, ret='r', closures=True, spec='ensures r == body_at_spec(%s, index as int),' % KS)),
        ('then_branch_block', dict(H, ret='r', spec='ensures if_shape(%s) ==> r == (if is_block(%s[1]) { Some(%s[1]->E_0->BlockExpr_0) } else { None::<BlockExpr> }),' % (KS, KS, KS))), ('then_branch_stmt', dict(H, ret='r', spec='ensures if_shape(%s) ==> r == (if %s[1] is S { Some(%s[1]->S_0) } else { None::<Stmt> }),' % (KS, KS, KS))),
        ('true_body_block_or_stmt', dict(H, ret='r', spec='''requires if_shape(%s),           // the `panic!("Error in oq3_syntax")` of the body
ensures r == bors(%s[1]),      //@C05,C06:then-body''' % (KS, KS))),
        ('else_branch_block', dict(H, ret='r', spec='ensures if_shape(%s) ==> r == (if %s.len() == 3 && is_block(%s[2]) { Some(%s[2]->E_0->BlockExpr_0) } else { None::<BlockExpr> }),' % (KS, KS, KS, KS))), ('else_branch_stmt', dict(H, ret='r', spec='ensures if_shape(%s) ==> r == (if %s.len() == 3 && %s[2] is S { Some(%s[2]->S_0) } else { None::<Stmt> }),' % (KS, KS, KS, KS))),
        ('false_body_block_or_stmt', dict(H, ret='r', closures=True, spec='''requires if_shape(%s),
ensures r == (if %s.len() == 3 { Some(bors(%s[2])) } else { None::<BlockOrStmt> }),      //@C05,C06:else-body''' % (KS, KS, KS))),
    ])
    e = U.file(EXT)
    e.impl('ast::BinExpr', [
        ('lhs', dict(H, ret='r', spec='ensures bin_shape(%s) ==> r == Some(%s[0]->E_0),      //@C05,C06:operand-order' % (KS, KS))),
        ('rhs', dict(H, ret='r', spec='ensures bin_shape(%s) ==> r == Some(%s[1]->E_0),      //@C05,C06:operand-order' % (KS, KS))),
        ('sub_exprs', dict(H, ret='r', spec='ensures bin_shape(%s) ==> r == (Some(%s[0]->E_0), Some(%s[1]->E_0)),      //@C05,C06:operand-order' % (KS, KS, KS))),
    ])
    e.impl('ast::RangeExpr', [
        ('start_step_stop', dict(H, ret='r', spec='''ensures
    (range_shape(%s) && %s.len() == 2) ==> r == (Some(%s[0]->E_0), None::<Expr>, Some(%s[1]->E_0)),      //@C05,C06:range-start-stop
    (range_shape(%s) && %s.len() == 3) ==> r == (Some(%s[0]->E_0), Some(%s[1]->E_0), Some(%s[2]->E_0)),      //@C05,C06:range-start-step-stop''' % ((KS,) * 9))),
    ])
    e.impl('ast::AssignmentStmt', [
        ('rhs', dict(H, ret='r', spec='ensures assign_shape(%s) ==> r == Some(%s[1]->E_0),      //@C05,C06:assignment-value' % (KS, KS))),
    ])
    TP = 'typed::<ParamList>(%s)' % KS
    e.impl('ast::Gate', [
        ('angles_and_or_qubits', dict(H, ret='r', spec='ensures r.0 == (if %s.len() > 0 { Some(%s[0]) } else { None::<ParamList> }), r.1 == (if %s.len() > 1 { Some(%s[1]) } else { None::<ParamList> }),' % (TP, TP, TP, TP))),
        # angles are optional and come before the qubits
        ('angle_params', dict(H, ret='r', spec='ensures gate_shape(%s) ==> r == (if %s.len() == 2 { Some(%s[0]) } else { None::<ParamList> }),      //@C05,C06:gate-angle-parameters' % (KS, TP, TP))),
        ('qubit_params', dict(H, ret='r', spec='ensures gate_shape(%s) ==> r == Some(%s.last()),      //@C05,C06:gate-qubit-parameters' % (KS, TP))),
    ])
    IDF = 'ensures callee_first(%s) ==> r == (if %s[0]->E_0 is Identifier { Some(%s[0]->E_0->Identifier_0) } else { None::<Identifier> }),      //@C05,C06:callee-name' % (KS, KS, KS)
    e.impl('ast::GateCallExpr', [('identifier', dict(H, ret='r', spec=IDF))])
    e.impl('ast::CallExpr', [('identifier', dict(H, ret='r', spec=IDF))])
    e.impl('ast::IndexExpr', [
        ('base', dict(H, ret='r', spec='ensures callee_first(%s) ==> r == Some(%s[0]->E_0),      //@C05,C06:indexed-expression' % (KS, KS))),
    ])
    # the base of an indexed identifier is its (first) identifier child
    e.impl('ast::IndexedIdentifier', [('identifier', dict(H, ret='r', spec='ensures r == first::<Identifier>(%s),      //@C05,C06,C07:indexed-identifier-base' % KS))])
    # ---- type keyword -> ScalarTypeKind (table generated from the variant names: ScalarTypeKind::X <-> SyntaxKind::X_TY, qubit is a keyword)
    tf = U.file('crates/oq3_syntax/src/ast/type_ext.rs')
    import re as _re
    tsrc = open(os.path.join(REPO, 'crates/oq3_syntax/src/ast/type_ext.rs')).read()
    en = tsrc[tsrc.index('pub enum ScalarTypeKind'):]
    en = en[:en.index('}')]
    variants = [v for v in _re.findall(r'(?m)^\s*(\w+),', en)]
    sk = open(os.path.join(REPO, 'crates/oq3_parser/src/syntax_kind/syntax_kind_enum.rs')).read()
    rows = []
    for v in variants:
        for suf in ('_TY', '_KW'):
            if _re.search(r'\b%s%s\b' % (v.upper(), suf), sk):
                rows.append((v.upper() + suf, v))
                break
    U.n_type_keywords = len(rows)
    tab = ' else '.join('if k == SyntaxKind::%s { ScalarTypeKind::%s }' % r_ for r_ in rows) + ' else { ScalarTypeKind::None }'
    U.raw('/// the scalar type a type keyword stands for (generated from the variant names of ScalarTypeKind and SyntaxKind)\npub open spec fn kind_of_type_token(k: SyntaxKind) -> ScalarTypeKind { %s }\n' % tab)
    tf.impl('ast::ScalarType', [
        ('token', dict(H, ret='r', trusted=True, note='children_with_tokens / find / into_token: the first non-trivia token of the node', spec='ensures r.sp_kind() == self.sp_type_token(),')),
        ('kind', dict(H, ret='r', spec='ensures r == kind_of_type_token(self.sp_type_token()),      //@C09,C05:type-keyword-table')),
    ])
    U.raw('impl ScalarType { pub uninterp spec fn sp_type_token(&self) -> SyntaxKind; }\n')
    # ---- time unit of a timing literal: every spelling the lexer / validation accept names its unit (C03: the analyser unwraps the result)
    e.item('enum', 'TimeUnit')
    U.raw('''/// the text of an identifier token (node_ext.rs HasTextNode::text -> text_of_first_token; rowan TokenText derefs to str)
#[verifier::external_body] pub struct TokenText { _p: u8 }
impl TokenText {
    pub uninterp spec fn sp_str(&self) -> Seq<char>;
    #[verifier::external_body] pub fn as_str(&self) -> (r: &str) ensures r@ == self.sp_str() { unimplemented!() }
}
impl Identifier {
    pub uninterp spec fn sp_text(&self) -> Seq<char>;
    #[verifier::external_body] pub fn text(&self) -> (r: TokenText) ensures r.sp_str() == self.sp_text() { unimplemented!() }
}
''', note='Identifier::text / TokenText::as_str (trusted: the text of the identifier token)')
    g.impl('TimingLiteral', [('identifier', dict(H, ret='r', spec='ensures r == first::<Identifier>(%s),' % KS))])
    e.impl('ast::TimingLiteral', [('time_unit', dict(props=P, ghost=[('{', 'after', 'proof { reveal_with_fuel(typed, 6); @@STRLIT_FACTS@@ }')], ret='r', strmatch=True, spec='''ensures
    // each of the seven spellings of a time / imaginary unit names its unit (so the analyser's `time_unit().unwrap()` cannot
    // fail on a timing literal that passed validation), anything else none
    ({ let id = first::<Identifier>(%s);
       id is Some ==> ({ let t = id->Some_0.sp_text();
        &&& (t == "s"@ ==> r == Some(TimeUnit::Second)) &&& (t == "ms"@ ==> r == Some(TimeUnit::MilliSecond))
        &&& ((t == "us"@ || t == "µs"@) ==> r == Some(TimeUnit::MicroSecond)) &&& (t == "ns"@ ==> r == Some(TimeUnit::NanoSecond))
        &&& (t == "dt"@ ==> r == Some(TimeUnit::Cycle)) &&& (t == "im"@ ==> r == Some(TimeUnit::Imaginary)) }) }),      //@C03,C06:time-unit-spellings
    first::<Identifier>(%s) is None ==> r is None,''' % (KS, KS)))])
    # PrefixExpr::op_kind: the operator of a unary expression is the one its operator token spells (`!` logical not, `~` bitwise not, `-` negation)
    U.file('crates/oq3_syntax/src/ast/operators.rs').item('enum', 'UnaryOp')
    U.raw('''/// the unary operators of OpenQASM 3, by token kind (written from the language)
pub open spec fn un_op_of(k: SyntaxKind) -> Option<UnaryOp> {
    match k { SyntaxKind::BANG => Some(UnaryOp::LogicNot), SyntaxKind::TILDE => Some(UnaryOp::Not), SyntaxKind::MINUS => Some(UnaryOp::Neg), _ => None }
}
impl PrefixExpr { pub uninterp spec fn sp_op_token(&self) -> Option<SyntaxToken>; }
''')
    e.impl('ast::PrefixExpr', [
        ('op_token', dict(H, ret='r', trusted=True, note='first_child_or_token / into_token: the first element of the node, if it is a token', spec='ensures r == self.sp_op_token(),')),
        ('op_kind', dict(H, ret='r', spec='ensures r == (match self.sp_op_token() { Some(t) => un_op_of(t.sp_kind()), None => None::<UnaryOp> }),      //@C05,C06:unary-operator-table')),
    ])
    # Literal::kind: the class of a literal is the class of its token (integer, float, string, bit string, char, byte, true / false)
    U.raw('''pub mod ast_tokens {
    use super::*;
    /// generated/tokens.rs (pinned as a whole file): `cast` succeeds exactly on the token's own kind and keeps the token
    pub trait AstToken: Sized {
        spec fn tok_kind() -> SyntaxKind;
        spec fn sp_syntax(&self) -> SyntaxToken;
        fn cast(syntax: SyntaxToken) -> (r: Option<Self>) ensures (r is Some) == (syntax.sp_kind() == Self::tok_kind()), r is Some ==> r->Some_0.sp_syntax() == syntax;
    }
}
pub use ast_tokens::AstToken;
''' + ''.join('''pub struct %s { pub syntax: SyntaxToken }
impl AstToken for %s {
    open spec fn tok_kind() -> SyntaxKind { SyntaxKind::%s }
    open spec fn sp_syntax(&self) -> SyntaxToken { self.syntax }
    #[verifier::external_body] fn cast(syntax: SyntaxToken) -> (r: Option<Self>) { unimplemented!() }
}
''' % (t, t, k) for t, k in [('IntNumber', 'INT_NUMBER'), ('FloatNumber', 'FLOAT_NUMBER'), ('String', 'STRING'), ('BitString', 'BIT_STRING'), ('Char', 'CHAR'), ('Byte', 'BYTE')]) + '''impl Clone for SyntaxToken { #[verifier::external_body] fn clone(&self) -> (r: SyntaxToken) ensures r == *self { unimplemented!() } }
impl Literal { pub uninterp spec fn sp_token(&self) -> SyntaxToken; }
/// the literal token kinds
pub open spec fn is_literal_token(k: SyntaxKind) -> bool {
    k == SyntaxKind::INT_NUMBER || k == SyntaxKind::FLOAT_NUMBER || k == SyntaxKind::STRING || k == SyntaxKind::BIT_STRING || k == SyntaxKind::CHAR
        || k == SyntaxKind::BYTE || k == SyntaxKind::TRUE_KW || k == SyntaxKind::FALSE_KW
}
''', note='AstToken casts of generated/tokens.rs (by kind; trusted, the file is pinned)')
    e.item('enum', 'LiteralKind')
    e.impl('ast::Literal', [
        ('token', dict(H, ret='r', trusted=True, note='children_with_tokens / find / into_token: the first non-trivia element of the node', spec='ensures r == self.sp_token(),')),
        ('kind', dict(H, ret='r', spec='''requires is_literal_token(self.sp_token().sp_kind()),       // AP: a LITERAL node is built around a literal token (the `unreachable!()` of the body)
ensures
    // the class of a literal is the class of its token, and the token is kept
    match self.sp_token().sp_kind() {
        SyntaxKind::INT_NUMBER => r is IntNumber && r->IntNumber_0.syntax == self.sp_token(),
        SyntaxKind::FLOAT_NUMBER => r is FloatNumber && r->FloatNumber_0.syntax == self.sp_token(),
        SyntaxKind::STRING => r is String && r->String_0.syntax == self.sp_token(),
        SyntaxKind::BIT_STRING => r is BitString && r->BitString_0.syntax == self.sp_token(),
        SyntaxKind::CHAR => r is Char && r->Char_0.syntax == self.sp_token(),
        SyntaxKind::BYTE => r is Byte && r->Byte_0.syntax == self.sp_token(),
        SyntaxKind::TRUE_KW => r == LiteralKind::Bool(true),
        SyntaxKind::FALSE_KW => r == LiteralKind::Bool(false),
        _ => true,
    },      //@C05,C06:literal-class-of-its-token''')),
    ])
    # D41 (BinExpr::op_details): `self.syntax().children_with_tokens().filter_map(|it| it.into_token()).find_map(|c| { BODY })` -- the
    # iterator frame (the first child token for which BODY yields an operator) stays pinned; BODY, the table token kind -> operator, is
    # copied from /repo on every run into oq3_op_of_token and verified against the operator table bin_op_of written from OpenQASM 3
    ops = U.file('crates/oq3_syntax/src/ast/operators.rs')
    for _en in ('BinaryOp', 'LogicOp', 'CmpOp', 'Ordering', 'ArithOp'):
        ops.item('enum', _en)
    _ext = open(os.path.join(REPO, EXT)).read()
    _mo = re.search(r"pub fn op_details\(&self\) -> Option<\(SyntaxToken, BinaryOp\)> \{\n\s*self\.syntax\(\)\.children_with_tokens\(\)\.filter_map\(\|it\| it\.into_token\(\)\)\.find_map\(\|c\| \{\n(.*?)\n        \}\)\n    \}\n", _ext, re.S)
    U.op_details_ok = bool(_mo)
    if _mo:
        _body = re.sub(r'(?m)^\s*#\[rustfmt::skip\]\n', '', _mo.group(1))
        U.raw('''/// the operator table of OpenQASM 3, by token kind (written from the language, not from the code)
pub open spec fn bin_op_of(k: SyntaxKind) -> Option<BinaryOp> {
    match k {
        SyntaxKind::PIPE2 => Some(BinaryOp::LogicOp(LogicOp::Or)), SyntaxKind::AMP2 => Some(BinaryOp::LogicOp(LogicOp::And)),
        SyntaxKind::EQ2 => Some(BinaryOp::CmpOp(CmpOp::Eq { negated: false })), SyntaxKind::NEQ => Some(BinaryOp::CmpOp(CmpOp::Eq { negated: true })),
        SyntaxKind::LTEQ => Some(BinaryOp::CmpOp(CmpOp::Ord { ordering: Ordering::Less, strict: false })),
        SyntaxKind::GTEQ => Some(BinaryOp::CmpOp(CmpOp::Ord { ordering: Ordering::Greater, strict: false })),
        SyntaxKind::L_ANGLE => Some(BinaryOp::CmpOp(CmpOp::Ord { ordering: Ordering::Less, strict: true })),
        SyntaxKind::R_ANGLE => Some(BinaryOp::CmpOp(CmpOp::Ord { ordering: Ordering::Greater, strict: true })),
        SyntaxKind::PLUS => Some(BinaryOp::ArithOp(ArithOp::Add)), SyntaxKind::STAR => Some(BinaryOp::ArithOp(ArithOp::Mul)),
        SyntaxKind::MINUS => Some(BinaryOp::ArithOp(ArithOp::Sub)), SyntaxKind::SLASH => Some(BinaryOp::ArithOp(ArithOp::Div)),
        SyntaxKind::PERCENT => Some(BinaryOp::ArithOp(ArithOp::Rem)), SyntaxKind::SHL => Some(BinaryOp::ArithOp(ArithOp::Shl)),
        SyntaxKind::SHR => Some(BinaryOp::ArithOp(ArithOp::Shr)), SyntaxKind::CARET => Some(BinaryOp::ArithOp(ArithOp::BitXor)),
        SyntaxKind::PIPE => Some(BinaryOp::ArithOp(ArithOp::BitOr)), SyntaxKind::AMP => Some(BinaryOp::ArithOp(ArithOp::BitAnd)),
        SyntaxKind::EQ => Some(BinaryOp::Assignment { op: None }),
        SyntaxKind::PLUSEQ => Some(BinaryOp::Assignment { op: Some(ArithOp::Add) }), SyntaxKind::STAREQ => Some(BinaryOp::Assignment { op: Some(ArithOp::Mul) }),
        SyntaxKind::MINUSEQ => Some(BinaryOp::Assignment { op: Some(ArithOp::Sub) }), SyntaxKind::SLASHEQ => Some(BinaryOp::Assignment { op: Some(ArithOp::Div) }),
        SyntaxKind::PERCENTEQ => Some(BinaryOp::Assignment { op: Some(ArithOp::Rem) }), SyntaxKind::SHLEQ => Some(BinaryOp::Assignment { op: Some(ArithOp::Shl) }),
        SyntaxKind::SHREQ => Some(BinaryOp::Assignment { op: Some(ArithOp::Shr) }), SyntaxKind::CARETEQ => Some(BinaryOp::Assignment { op: Some(ArithOp::BitXor) }),
        SyntaxKind::PIPEEQ => Some(BinaryOp::Assignment { op: Some(ArithOp::BitOr) }), SyntaxKind::AMPEQ => Some(BinaryOp::Assignment { op: Some(ArithOp::BitAnd) }),
        SyntaxKind::DOUBLE_PLUS => Some(BinaryOp::ConcatenationOp), SyntaxKind::DOUBLE_STAR => Some(BinaryOp::PowerOp),
        _ => None,
    }
}
/// what BinExpr::op_details makes of ONE child token: the body of its `find_map` closure, copied from /repo on this run (D41)
fn oq3_op_of_token(c: SyntaxToken) -> (r: Option<(SyntaxToken, BinaryOp)>)
    ensures
        // every operator token is the operator of the OpenQASM 3 table, anything else (trivia included) is none
        r == (match bin_op_of(c.sp_kind()) { Some(op) => Some((c, op)), None => None::<(SyntaxToken, BinaryOp)> }),      //@C05,C06:operator-token-table
{
''' + _body + '''
}
''', note='D41: operator table of BinExpr::op_details copied from /repo')
        U.build_log = getattr(U, 'build_log', []) + [('D41', 'BinExpr::op_details: the body of its find_map closure (token kind -> BinaryOp) -> oq3_op_of_token (copied from /repo; the iterator frame stays pinned)')]
    # every other hand-written accessor of node_ext.rs / expr_ext.rs / type_ext.rs: not verified (token-level iterator chains, string
    # slicing); SEMA sees them as opaque accessors.  Their text is pinned, so that a change is "no verdict", never a silent pass.
    U.n_pinned = 0
    # token_ext.rs: the values of integer / float / bit-string literal tokens (IntNumber::value feeds every width and register length: C09)
    tke = U.file('crates/oq3_syntax/src/ast/token_ext.rs')
    if U.op_details_ok:
        e.guard('op_details', None, impl='ast::BinExpr', why='BinExpr::op_details: the iterator frame (first child token that is an operator) is pinned; its operator table is verified (D41)')
        U.entries[-1].hash_strip = [_mo.group(1)]
    for fc in (n, e, tf, tke):
        U.n_pinned += fc.guard_rest('hand-written AST accessor outside the verified set: opaque to the analyser model; text pinned', skip=((('ast::BinExpr', 'op_details'),) if U.op_details_ok else ()))
    # generated/nodes.rs, generated/tokens.rs (sourcegen output: `support::child / children / token` one-liners, casts by kind): the
    # units see these accessors as opaque functions of the node; the files are pinned as a whole
    g.guard_file('generated typed-AST accessors (support::child / children / token one-liners; casts by kind): opaque to the units, pinned as a whole')
    U.file('crates/oq3_syntax/src/ast/generated/tokens.rs').guard_file('generated token types (casts by kind): opaque to the units, pinned as a whole')
    # ast.rs (support::child / children / token, AstChildren, the AstNode trait: what the prelude's stubs stand for), traits.rs
    # (HasName / HasArgList / HasLoopBody one-liners), token_text.rs (TokenText derefs to the token's text): pinned as whole files
    for _rel in ('crates/oq3_syntax/src/ast.rs', 'crates/oq3_syntax/src/ast/traits.rs', 'crates/oq3_syntax/src/token_text.rs'):
        U.file(_rel).guard_file('rowan-level plumbing of the typed AST (support::child / children / token, AstChildren, trait one-liners, TokenText): the stubs of contracts/astx.prelude.rs stand for it; pinned as a whole')
    U.n_pinned += 5
    U.assumed_parser = ['a LITERAL node is built around a literal token (int, float, string, bit string, char, byte, true, false): the `unreachable!()` of Literal::kind',
                        'IF_STMT children: condition expression (not a block), then-body, optional else-body (if_shape)',
                        'WHILE_STMT children: condition expression (not a block), body (while_shape)',
                        'FOR_STMT children: type, loop variable, iterable, body (for_shape)',
                        'BIN_EXPR children: exactly the two operand expressions; RANGE_EXPR children: 2 or 3 expressions',
                        'ASSIGNMENT_STMT children: target (identifier expression or indexed identifier) and value expression']
    U.assumed_dep = ['rowan: SyntaxNode::children() yields the child nodes in source order; AstChildren<N> / support::child keep those N::cast accepts (cast is by kind; Expr and Stmt kinds disjoint)',
                     'std: Option::and / Option::or / Iterator::nth']
    U.not_verified = ['generated/nodes.rs accessors other than ForStmt::body / ForStmt::stmt (support::child / support::token one-liners)',
                      'token-based iterator frames (the `find_map` frame of op_details, Literal::token, PrefixExpr::op_token: pinned), pragma_text (string slicing: bounded Kani stand-in)']
    return U
