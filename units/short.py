"""SHORT — oq3_parser/src/shortcuts.rs (+ input.rs push/was_joint): token table -> parser input,
parser output -> tree-builder steps   (C02, C01 input well-formedness, C12 parts)"""
from vlib.unit import Unit

SK = 'crates/oq3_parser/src/syntax_kind/syntax_kind_enum.rs'
SK2 = 'crates/oq3_parser/src/syntax_kind.rs'
IN = 'crates/oq3_parser/src/input.rs'
X = 'crates/oq3_parser/src/lexed_str.rs'
SH = 'crates/oq3_parser/src/shortcuts.rs'
P = ['C02', 'C01', 'C12']


def build():
    U = Unit('SHORT', props=P)
    U.default_closures = True     # rule-based D3/D16 (vlib/closures.py) applies to every function of this unit
    U.tag_loops = True     # loop invariants state property-relevant facts about abstractions: a failing one is reported
    k = U.file(SK)
    k.item('enum', 'SyntaxKind')
    k.item('macro_rules', 'T')
    U.file(SK2).impl('SyntaxKind', [('is_trivia', dict(ret='r', props=P, spec='ensures r == trivia(self),'))])
    i = U.file(IN)
    i.item('type', 'bits')
    i.item('struct', 'Input')
    x = U.file(X)
    x.item('struct', 'LexedStr')
    x.item('struct', 'LexError')
    U.file('crates/oq3_parser/src/output.rs').item('enum', 'Step')
    s = U.file(SH)
    s.item('enum', 'StrStep')
    s.item('struct', 'Builder', rewrites=[('D9', "sink: &'b mut dyn FnMut(StrStep<'_>),", "sink: &'b mut Sink,")])
    s.item('enum', 'State')
    U.raw(open(__file__.replace('units/short.py', 'contracts/short.prelude.rs')).read().replace('@@SHARED_STEPS@@', open(__file__.replace('units/short.py', 'contracts/shared.steps.rs')).read()))
    U.raw('''pub mod crate_alias { }
impl Input {
    pub open spec fn jbit(&self, n: int) -> bool {
        0 <= n / 64 < self.joint@.len() && (self.joint@[n / 64] & (1u64 << ((n % 64) as u64))) != 0
    }
    /// representation invariant: one 64-bit word per started block of 64 tokens, no bit set beyond the last token
    pub open spec fn wf(&self) -> bool {
        &&& self.joint@.len() == (self.kind@.len() + 63) / 64
        &&& self.kind@.len() <= 0x7fff_ffff
        &&& forall|n: int| self.kind@.len() <= n < 64 * self.joint@.len() ==> !#[trigger] self.jbit(n)
    }
}
impl std::default::Default for Input {
    #[verifier::external_body]
    fn default() -> (r: Input) ensures r.kind@.len() == 0, r.joint@.len() == 0 { unimplemented!() }   // #[derive(Default)]
}
impl<'a> LexedStr<'a> {
    pub open spec fn wf(&self) -> bool {
        &&& self.kind@.len() == self.start@.len() && self.kind@.len() >= 1 && self.kind@.len() <= 0x7fff_ffff
        &&& forall|i: int, j: int| 0 <= i <= j < self.start@.len() ==> self.start@[i] <= self.start@[j]
    }
    pub open spec fn ntok(&self) -> int { self.kind@.len() - 1 }
}
#[verifier::external_body] pub fn str_ends_with_dot(s: &str) -> (r: bool) ensures r == ends_dot(s@) { unimplemented!() }
pub mod crate_root_alias {}
''')
    VER = "verified in unit LEX with this same contract"
    x.impl(r"LexedStr<'a>", [
        ('len', dict(ret='r', props=P, trusted=True, note=VER, spec='requires self.kind@.len() >= 1, ensures r == self.kind@.len() - 1,')),
        ('kind', dict(ret='r', props=P, trusted=True, note=VER, spec='requires self.wf(), i < self.ntok(), ensures r == self.kind@[i as int],')),
        ('text', dict(ret='t', props=P, trusted=True, note=VER + ' (plus the ghost link to the range)', spec='requires self.wf(), i < self.ntok(), ensures is_range_text(self, i as int, i + 1, t@), t@ == tok_text(self, i as int),')),
        ('range_text', dict(ret='t', props=P, trusted=True, note='trusted in unit LEX too (str slicing); here it also names its result',
                            spec='requires self.wf(), r.start < r.end, r.end <= self.ntok(), ensures is_range_text(self, r.start as int, r.end as int, t@),')),
        ('text_start', dict(ret='r', props=P, trusted=True, note=VER, spec='requires self.wf(), i <= self.ntok(), ensures r == self.start@[i as int],')),
    ])
    i.impl('Input', [
        ('len', dict(ret='r', props=P, spec='ensures r == self.kind@.len(),')),
        ('bit_index', dict(ret='r', props=P, spec='ensures r.0 == n / 64, r.1 == n % 64,')),
        ('push', dict(props=P, ghost=[('self.kind.push(kind);', 'after', '''proof {
    let l0 = old(self).kind@.len() as int;
    let j0 = old(self).joint@;
    let j1 = self.joint@;
    assert forall|n: int| 0 <= n < 64 * j1.len() implies (self.jbit(n) == (n < 64 * j0.len() && old(self).jbit(n))) by {
        if n / 64 < j0.len() { assert(j1[n / 64] == j0[n / 64]); } else { bv64_zero((n % 64) as u64); }
    }
}''')], spec='''
requires old(self).wf(), old(self).kind@.len() < 0x7fff_ffff,
ensures
    final(self).wf(), final(self).kind@ == old(self).kind@.push(kind),
    // jointness of the tokens already there is untouched; the new token starts as not joint
    forall|n: int| 0 <= n < old(self).kind@.len() ==> final(self).jbit(n) == old(self).jbit(n),       //@C02:push-keeps-jointness
    !final(self).jbit(old(self).kind@.len() as int),''')),
        ('was_joint', dict(props=P, ghost=[('self.joint[idx] |= 1 << b_idx;', 'after', '''proof {
    let j0 = old(self).joint@;
    let j1 = self.joint@;
    bv64_shift_usize(b_idx);
    assert(j1.len() == j0.len());
    assert(j1[idx as int] == (j0[idx as int] | (1u64 << (b_idx as u64))));
    assert forall|m: int| 0 <= m < 64 * j1.len() implies (self.jbit(m) == (old(self).jbit(m) || m == n)) by {
        if m / 64 == idx { bv64_or_bit(j0[idx as int], b_idx as u64, (m % 64) as u64); } else { assert(j1[m / 64] == j0[m / 64]); }
    }
}''')], spec='''
requires old(self).wf(), old(self).kind@.len() >= 1,
ensures
    final(self).wf(), final(self).kind@ == old(self).kind@,
    final(self).jbit(old(self).kind@.len() - 1),
    forall|n: int| 0 <= n < old(self).kind@.len() - 1 ==> final(self).jbit(n) == old(self).jbit(n),   //@C02:was-joint-marks-last-only
''')),
    ])
    s.impl(r"LexedStr<'_>", [
        ('to_input', dict(ret='r', props=P + ['C15'], rewrites=[('D15', 'crate::Input', 'Input', 2)],      # (`.ends_with('.')` is routed by the generic D32)
                          loops={1: '''invariant
    self.wf(), self.ntok() <= 0x7fff_fff0, i <= self.ntok(),
    forall|j: int| 0 <= j < self.ntok() ==> #[trigger] self.kind@[j] != SyntaxKind::EOF,
    res.wf(), res.kind@ == non_trivia(self.kind@.take(i as int)), res.kind@.len() <= i,
    forall|j: int| 0 <= j < res.kind@.len() ==> #[trigger] res.kind@[j] != SyntaxKind::EOF,
    was_joint == (i > 0 && !trivia(self.kind@[i - 1])),
    // jointness of every token pushed so far (the last one: successor not seen yet)
    forall|a: int| 0 <= a < i && !trivia(self.kind@[a]) ==> #[trigger] res.jbit(idx(self, a)) == joint_spec(self, a, i as int),'''},
                          loop_ghost='''proof {
    assert(self.kind@.take(i + 1) =~= self.kind@.take(i as int).push(self.kind@[i as int]));
    lemma_non_trivia_push(self.kind@.take(i as int), self.kind@[i as int]);
    lemma_idx_step(self, i as int);
    if i > 0 { lemma_idx_step(self, i - 1); }
    assert(i > 0 && !trivia(self.kind@[i - 1]) ==> idx(self, i - 1) == res.kind@.len() - 1);
    assert forall|a: int| 0 <= a < i && !trivia(self.kind@[a]) implies #[trigger] idx(self, a) < res.kind@.len()
            && ((a < i - 1 && !trivia(self.kind@[i - 1])) ==> idx(self, a) < idx(self, i - 1)) by {
        lemma_idx_strict(self, a, i as int);
        if a < i - 1 { lemma_idx_strict(self, a, i - 1); }
    }
}
let ghost res0 = res;''',
                          ghost=[('let mut was_joint = false;', 'after', 'proof { assert(self.kind@.take(0) =~= Seq::<SyntaxKind>::empty()); }')],
                          spec='''
requires self.wf(), self.ntok() <= 0x7fff_fff0,
    forall|i: int| 0 <= i < self.ntok() ==> #[trigger] self.kind@[i] != SyntaxKind::EOF,
ensures
    // exactly the non-trivia kinds reach the parser, in order; the input is well formed and EOF-free
    r.kind@ == non_trivia(self.kind@.take(self.ntok())),                                              //@C02,C01:input-is-non-trivia-kinds
    r.wf(),                                                                                           //@C01:input-well-formed
    forall|i: int| 0 <= i < r.kind@.len() ==> #[trigger] r.kind@[i] != SyntaxKind::EOF,              //@C01:no-eof-inside-input
    // jointness is decided by adjacency in the raw token stream only (trivia in between breaks it)
    forall|a: int| 0 <= a < self.ntok() && !trivia(self.kind@[a]) ==> #[trigger] r.jbit(idx(self, a)) == joint_spec(self, a, self.ntok()),   //@C02:joint-iff-adjacent
''')),
    ])
    D9 = ('D9', '(self.sink)(', 'self.sink.call(')
    U.raw('''impl<'a, 'b> Builder<'a, 'b> {
    /// the steps handed to the sink so far contain, as Token steps, exactly the texts of the raw
    /// tokens [0, pos) of the table, consecutively (trivia included)
    pub open spec fn binv(&self) -> bool {
        self.lexed.wf() && self.pos <= self.lexed.ntok() && covers(self.sink.log@, self.lexed, self.pos as int)
    }
}
/// first raw token at or after `pos` that is not trivia (or the end of the table)
pub open spec fn skip_trivia(l: &LexedStr<'_>, pos: int) -> int
    decreases l.ntok() - pos
{
    if pos >= l.ntok() || pos < 0 { pos } else if trivia(l.kind@[pos]) { skip_trivia(l, pos + 1) } else { pos }
}
''')
    s.impl(r"Builder<'_, '_>", [
        ('do_token', dict(props=P, rewrites=[D9], spec='''
requires old(self).binv(), n_tokens >= 1, old(self).pos + n_tokens <= old(self).lexed.ntok(),
ensures
    final(self).binv(), final(self).pos == old(self).pos + n_tokens, final(self).lexed == old(self).lexed, final(self).state == old(self).state,
    // exactly one Token step, carrying the text of the raw tokens [pos, pos + n)
    final(self).sink.log@.len() == old(self).sink.log@.len() + 1 && final(self).sink.log@.drop_last() =~= old(self).sink.log@
        && final(self).sink.log@.last() is Token && final(self).sink.log@.last()->Token_kind == kind
        && is_range_text(old(self).lexed, old(self).pos as int, old(self).pos + n_tokens, final(self).sink.log@.last()->Token_text),   //@C02:token-step-is-the-next-raw-tokens
    errors_on_token_starts(old(self).sink.log@, old(self).lexed) ==> errors_on_token_starts(final(self).sink.log@, final(self).lexed),
    *final(final(self).sink) == *final(old(self).sink),      // the builder keeps writing to the same sink
''', ghost=[('self.pos += n_tokens;', 'before', 'let ghost log0 = self.sink.log@; let ghost p0 = self.pos as int;'),
            ('self.sink.call(StrStep::Token { kind, text });', 'after', 'proof { lemma_covers_token(log0, self.lexed, p0, p0 + n_tokens, kind, text@); if errors_on_token_starts(log0, self.lexed) { lemma_errs_push(log0, self.lexed, GStep::Token { kind, text: text@ }); } }')])),
        ('eat_trivias', dict(props=P, spec='''
requires old(self).binv(),
ensures final(self).binv(), final(self).lexed == old(self).lexed, final(self).state == old(self).state,
    final(self).pos == skip_trivia(old(self).lexed, old(self).pos as int),                              //@C02:trivia-emitted-in-place
    errors_on_token_starts(old(self).sink.log@, old(self).lexed) ==> errors_on_token_starts(final(self).sink.log@, final(self).lexed),
    *final(final(self).sink) == *final(old(self).sink),      // the builder keeps writing to the same sink
''', loops={1: '''invariant
    errors_on_token_starts(old(self).sink.log@, old(self).lexed) ==> errors_on_token_starts(self.sink.log@, self.lexed),
    *final(self.sink) == *final(old(self).sink),
    self.binv(), self.lexed == old(self).lexed, self.state == old(self).state, self.pos >= old(self).pos,
    skip_trivia(self.lexed, self.pos as int) == skip_trivia(old(self).lexed, old(self).pos as int),
ensures
    self.binv(), self.lexed == old(self).lexed, self.state == old(self).state,
    self.pos == skip_trivia(old(self).lexed, old(self).pos as int),
    errors_on_token_starts(old(self).sink.log@, old(self).lexed) ==> errors_on_token_starts(self.sink.log@, self.lexed),
    *final(self.sink) == *final(old(self).sink),
decreases self.lexed.ntok() - self.pos,'''})),
        ('exit', dict(props=P, rewrites=[D9], spec='''
requires old(self).binv(), !(old(self).state is PendingEnter),                                      // `unreachable!()`
ensures final(self).binv(), final(self).pos == old(self).pos, final(self).lexed == old(self).lexed, final(self).state is PendingExit,
    errors_on_token_starts(old(self).sink.log@, old(self).lexed) ==> errors_on_token_starts(final(self).sink.log@, final(self).lexed),
    *final(final(self).sink) == *final(old(self).sink),      // the builder keeps writing to the same sink''',
                      ghost=[('{', 'after', 'broadcast use lemma_covers_other, lemma_errs_push;')])),
        ('token', dict(props=P, rewrites=[D9], ghost=[('{', 'after', 'broadcast use lemma_covers_other, lemma_errs_push;')], spec='''
requires old(self).binv(), !(old(self).state is PendingEnter), n_tokens >= 1,
    // the parser never consumes more raw tokens than the table has after the pending trivia
    skip_trivia(old(self).lexed, old(self).pos as int) + n_tokens <= old(self).lexed.ntok(),
ensures final(self).binv(), final(self).lexed == old(self).lexed, final(self).state is Normal,
    final(self).pos == skip_trivia(old(self).lexed, old(self).pos as int) + n_tokens,                   //@C02:token-consumes-trivia-then-n
    errors_on_token_starts(old(self).sink.log@, old(self).lexed) ==> errors_on_token_starts(final(self).sink.log@, final(self).lexed),
    *final(final(self).sink) == *final(old(self).sink),      // the builder keeps writing to the same sink
''')),
    ])
    s.impl(r"Builder<'_, '_>", [
        ('enter', dict(props=P, trusted=True, note='take_while / count / rev / map iterator chain and n_attached_trivias (peekable, str patterns): not verified; assumed to emit only pending trivia and the Enter step',
                       spec='''
requires old(self).binv(),
ensures final(self).binv(), final(self).lexed == old(self).lexed, final(self).state is Normal,
    old(self).pos <= final(self).pos <= skip_trivia(old(self).lexed, old(self).pos as int),
    nnt(final(self).lexed, final(self).pos as int) == nnt(old(self).lexed, old(self).pos as int),     // (implied by the line above: lemma_nnt_skip)
    errors_on_token_starts(old(self).sink.log@, old(self).lexed) ==> errors_on_token_starts(final(self).sink.log@, final(self).lexed),
    *final(final(self).sink) == *final(old(self).sink),      // the builder keeps writing to the same sink''')),
        ('float_split', dict(props=P, trusted=True, note='dead code: the parser never produces a FloatSplit step (the arm of intersperse_trivia is proved unreachable)',
                             spec='requires false,')),
    ])
    s.impl(r"LexedStr<'_>", [
        ('intersperse_trivia', dict(ret='r', props=['C02', 'C12', 'C01'], for_iter=['output.iter()'],
            rewrites=[('D9', '(builder.sink)(', 'builder.sink.call(', 2), ('D9', 'sink: &mut dyn FnMut(StrStep<\'_>),', 'sink: &mut Sink,'), ('D15', 'crate::Output', 'Output')],
            spec='''
requires
    self.wf(), old(sink).log@.len() == 0,
    // shape of the parser's output -- proved in the PARSER unit as the postcondition of TopEntryPoint::parse (same predicates, contracts/shared.steps.rs):
    // it starts with Enter, ends with Exit, has no FloatSplit step, and consumes at most the non-trivia tokens of the table
    output_shape(output.steps()),
    tok_sum(output.steps()) <= nnt(self, 0),
ensures
    // the Token steps handed to the sink are exactly the raw tokens [0, q) of the table, consecutively, trivia included ...
    exists|q: int| 0 <= q <= self.ntok() && covers(final(sink).log@, self, q) && (r ==> q == self.ntok())
        // ... up to the position the parser's Token steps lead to (each consumes the pending trivia and exactly its n_input_tokens raw tokens)
        && q == skip_trivia(self, adv_pos(self, output.steps(), 0)),          //@C02:steps-cover-the-token-table
    // ... and every parser diagnostic is placed at the start of a raw token (or at the end of the text)
    errors_on_token_starts(final(sink).log@, self),                                                              //@C12:parser-diagnostics-on-token-starts''',
            loops={1: '''invariant
    builder.binv(), builder.lexed == self, self.wf(), *final(builder.sink) == fin_sink,
    oq3_itf1.rest().len() <= output.steps().len(),
    oq3_itf1.rest() =~= output.steps().skip(output.steps().len() - oq3_itf1.rest().len()),
    oq3_itf1.rest().len() < output.steps().len() ==> !(builder.state is PendingEnter),
    (oq3_itf1.rest().len() < output.steps().len() && output.steps()[output.steps().len() - oq3_itf1.rest().len() - 1] is Exit) ==> builder.state is PendingExit,
    forall|i: int| 0 <= i < output.steps().len() ==> !((#[trigger] output.steps()[i]) is FloatSplit),
    forall|i: int| 0 <= i < output.steps().len() && (#[trigger] output.steps()[i]) is Token ==> output.steps()[i]->n_input_tokens >= 1,
    output.steps().len() >= 1, output.steps()[0] is Enter,
    tok_sum(oq3_itf1.rest()) <= nnt(self, builder.pos as int),
    skip_trivia(self, adv_pos(self, oq3_itf1.rest(), builder.pos as int)) == skip_trivia(self, adv_pos(self, output.steps(), 0)),
    errors_on_token_starts(builder.sink.log@, self),
ensures oq3_itf1.rest().len() == 0,
decreases oq3_itf1.rest().len(),'''},
            loop_ghost='''broadcast use lemma_covers_other, lemma_errs_push;
proof {
    let rest0 = oq3_itf1.rest();
    if rest0.len() > 0 {
        reveal_with_fuel(tok_sum, 2); reveal_with_fuel(adv_pos, 2);
        lemma_skip_idem(self, builder.pos as int);
        lemma_adv_pos_skip_eq(self, rest0.skip(1), builder.pos as int, skip_trivia(self, builder.pos as int));
        // (Enter may emit some of the pending trivia: any position up to skip_trivia(pos) is equivalent)
        assert forall|p2: int| builder.pos <= p2 <= skip_trivia(self, builder.pos as int) implies skip_trivia(self, #[trigger] adv_pos(self, rest0.skip(1), p2)) == skip_trivia(self, adv_pos(self, rest0.skip(1), builder.pos as int)) by {
            lemma_nnt_skip(self, builder.pos as int, p2); lemma_adv_pos_skip_eq(self, rest0.skip(1), p2, builder.pos as int);
        }
        lemma_tok_sum_nonneg(rest0.skip(1));
        assert(rest0[0] == output.steps()[output.steps().len() - rest0.len()]);
        lemma_skip_le(self, builder.pos as int);
        lemma_nnt_skip(self, builder.pos as int, skip_trivia(self, builder.pos as int));
        lemma_nnt_bounds(self, skip_trivia(self, builder.pos as int));
        if rest0[0] is Token && skip_trivia(self, builder.pos as int) + rest0[0]->n_input_tokens <= self.ntok() {
            lemma_nnt_adv(self, skip_trivia(self, builder.pos as int), rest0[0]->n_input_tokens as int);
        }
    }
}
let ghost log_in = builder.sink.log@; let ghost pos_in = builder.pos as int;''',
            ghost=[('{', 'after', 'broadcast use lemma_covers_other, lemma_errs_push; let ghost fin_sink = *final(sink);'),
                   ('        builder.pos == builder.lexed.len()', 'before', 'proof { reveal_with_fuel(adv_pos, 1); lemma_skip_idem(self, builder.pos as int); assert(covers(builder.sink.log@, self, builder.pos as int) && builder.pos <= self.ntok()); }'),
                   ('builder.sink.call(StrStep::Error { msg, pos: text_pos });', 'after', '''proof {
    let lg = builder.sink.log@;
    assert(lg.drop_last() =~= log_in);
    assert forall|i: int| 0 <= i < lg.len() && (#[trigger] lg[i]) is Error implies exists|k: int| 0 <= k <= self.ntok() && lg[i]->pos == self.start@[k] by {
        if i < lg.len() - 1 { assert(lg[i] == log_in[i]); } else {
            assert(lg[i]->pos == self.start@[pos_in]);     //@C12:parser-diagnostic-at-the-next-token-start
        }
    }
}''')])),
    ])
    U.trusted_decl = []
    U.file(SH).guard_rest('not under contract in this unit; text pinned (contracts/trusted_hashes.json)')
    U.file(IN).guard_rest('not under contract in this unit; text pinned (contracts/trusted_hashes.json)')
    U.assumed_dep = ['derive(Default) for Input: empty vectors', 'str::ends_with(char): the D32 stand-in']
    U.not_verified = ['Builder::enter (take_while/count, iterator argument), n_attached_trivias, is_outer/is_inner (str patterns), do_float_split (dead: no FloatSplit step is ever produced)']
    return U
