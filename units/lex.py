"""LEX — crates/oq3_lexer/src/{cursor.rs,lib.rs}  (C14, C01-lexer, C11 flags, C15 classification)"""
import re
from vlib.unit import Unit
from units import lex_stageb

L = 'crates/oq3_lexer/src/lib.rs'
K = 'crates/oq3_lexer/src/cursor.rs'
X = 'crates/oq3_parser/src/lexed_str.rs'
SK = 'crates/oq3_parser/src/syntax_kind/syntax_kind_enum.rs'
SK2 = 'crates/oq3_parser/src/syntax_kind.rs'

PRE = 'requires fits(*old(self)),'
ADV = 'advanced(*old(self), *final(self)),'
HEAD = ('{', 'after', 'broadcast use lex_lemmas;')

def _d7():
    """D7: `for (f, s) in [('a', 'b'), ..] { BODY }` over a literal array of char pairs -> one `{ let (f, s) = ('a', 'b'); BODY }` per
    pair AS WRITTEN in /repo (Verus has no iteration over array literals).  Read from the source on every run."""
    import os
    from vlib.unit import REPO
    src = open(os.path.join(REPO, 'crates/oq3_lexer/src/lib.rs')).read()
    m = re.search(r"(?m)^([ \t]*)for \(f, s\) in \[\n((?:[ \t]*\('(?:[^'\\]|\\.)', '(?:[^'\\]|\\.)'\),\n)+)[ \t]*\] \{\n", src)
    if not m:
        return ('D7', 'for (f, s) in [', 'for (f, s) in [')          # shape gone: nothing to unroll (Verus will say so)
    start = m.start()
    depth, i = 1, m.end()
    while depth and i < len(src):
        depth += {'{': 1, '}': -1}.get(src[i], 0)
        i += 1
    old = src[start:i]
    body = src[m.end():i - 1].rstrip()
    ind = m.group(1)
    pairs = re.findall(r"\(('(?:[^'\\]|\\.)'), ('(?:[^'\\]|\\.)')\)", m.group(2))
    new = '\n'.join('%s{ let (f, s) = (%s, %s);\n%s\n%s}' % (ind, a_, b_, body, ind) for a_, b_ in pairs)
    return ('D7', old, new)


D7 = _d7()
D7_OLD, D7_NEW = D7[1], D7[2]


def scanner(name, extra_req='', extra_ens='', **kw):
    spec = 'requires fits(*old(self)),' + extra_req + '\nensures ' + ADV + extra_ens
    kw.setdefault('props', ['C14', 'C01', 'C11', 'C15', 'C02', 'C12'])
    kw.setdefault('ghost', [HEAD])
    kw.setdefault('loop_ghost', 'broadcast use lex_lemmas;')
    # a loop without its own entry (a new one) gets the standard frame and measure of the lexer's loops
    kw.setdefault('all_loops', 'invariant advanced(*old(self), *self),\ndecreases self.rest().len(),')
    return (name, dict(spec=spec, **kw))


def build():
    SB = lex_stageb.entries()
    U = Unit('LEX', props=['C14', 'C01', 'C11', 'C15', 'C02', 'C12'])
    U.default_closures = True     # rule-based D3/D16 (vlib/closures.py) applies to every function of this unit
    U.tag_loops = True     # loop invariants state property-relevant facts about abstractions: a failing one is reported
    f = U.file(L)
    f.item('struct', 'Token')
    f.item('enum', 'TokenKind', derive='keep')
    f.item('enum', 'LiteralKind', derive='keep')
    f.item('enum', 'Base', derive='keep')
    U.file(K).item('struct', 'Cursor', attrs=['#[verifier::external_body]'])
    U.prelude('contracts/lex.prelude.rs')

    ALLP = ['C14', 'C01', 'C11', 'C15', 'C02', 'C12']
    U.file(K).impl(r"Cursor<'a>", [
        ('prev', dict(ret='c', trusted=True, props=ALLP, note='reads the debug-only field', spec='ensures c == self.prevc(),')),
        ('first', dict(ret='c', trusted=True, props=ALLP, note='std::str::Chars clone/next', spec='ensures c == peek(*self),')),
        ('second', dict(ret='c', trusted=True, props=ALLP, note='std::str::Chars',
                        spec="ensures c == (if self.rest().len() > 1 { self.rest()[1] } else { '\\0' }),")),
        ('is_eof', dict(ret='b', trusted=True, props=ALLP, note='std::str::Chars::as_str', spec='ensures b == (self.rest().len() == 0),')),
        ('pos_within_token', dict(ret='n', trusted=True, props=ALLP, note='len_remaining - chars.as_str().len() as u32',
                                  spec='requires utf8_len(self.tok()) <= u32::MAX, ensures n == utf8_len(self.tok()),')),
        ('reset_pos_within_token', dict(trusted=True, props=ALLP, note='std::str::Chars::as_str',
                                        spec='ensures final(self).rest() == old(self).rest(), final(self).tok() == Seq::<char>::empty(), final(self).prevc() == old(self).prevc(),')),
        ('bump', dict(ret='r', trusted=True, props=ALLP, note='std::str::Chars::next; justified form: lemma_bump_advanced', spec='''
ensures
    old(self).rest().len() == 0 ==> r is None && *final(self) == *old(self),
    old(self).rest().len() > 0 ==> r == Some(old(self).rest()[0]) && advanced(*old(self), *final(self)) && eaten(*old(self), *final(self)) == 1,''')),
        ('eat_while', dict(props=ALLP, spec='''
requires forall|c: char| #[trigger] predicate.requires((c,)),
ensures
    advanced(*old(self), *final(self)),
    // every consumed character satisfies the predicate; the scan stops at the first that does not
    forall|i: int| 0 <= i < eaten(*old(self), *final(self)) ==> predicate.ensures((#[trigger] old(self).rest()[i],), true),
    final(self).rest().len() > 0 ==> predicate.ensures((final(self).rest()[0],), false),''',
                           ghost=[HEAD, ('while predicate(', 'before', 'let ghost p0 = predicate;')], loop_ghost='broadcast use lex_lemmas;',
                           loops={1: '''invariant
    advanced(*old(self), *self),
    predicate == p0,
    forall|c: char| #[trigger] p0.requires((c,)),
    forall|i: int| 0 <= i < eaten(*old(self), *self) ==> p0.ensures((#[trigger] old(self).rest()[i],), true),
decreases self.rest().len(),'''})),
    ])
    f.impl('Token', [('new', dict(ret='r', props=ALLP, spec='ensures r.kind == kind, r.len == len,'))])
    f.fn('is_whitespace', ret='r', props=ALLP, spec='ensures r == is_ws(c),')
    f.fn('is_id_start', ret='r', props=ALLP, spec="ensures r == (c == '_' || xid_start(c)),")
    f.fn('is_id_continue', ret='r', props=ALLP, spec='ensures r == xid_continue(c),')

    f.impl(r"Cursor<'_>", [
        ('advance_token', dict(ret='r', props=ALLP, all_loops='invariant advanced(*old(self), *self),\ndecreases self.rest().len(),', loop_ghost='broadcast use lex_lemmas;', ghost=[HEAD,
    # C15: a numeric literal directly followed by a time / imaginary unit ends before the unit (both numeric arms)
    ('let literal_kind = self.number(c);\n                let suffix_start = self.pos_within_token();', 'after', 'let ghost cs1 = *self;'),
    ('                TokenKind::Literal {\n                    kind: literal_kind,', 'before', 'proof { assert(unit_ahead(cs1.rest()) ==> *self == cs1); }      //@C15:unit-is-a-token-of-its-own\n'),
    ('let literal_kind = self.float_with_no_leading_digit();\n                    let suffix_start = self.pos_within_token();', 'after', 'let ghost cs2 = *self;'),
    ('                    TokenKind::Literal {\n                        kind: literal_kind,', 'before', 'proof { assert(unit_ahead(cs2.rest()) ==> *self == cs2); }      //@C15:unit-is-a-token-of-its-own\n'),
    ('let res = Token::new(token_kind, self.pos_within_token());', 'before', '''proof {
    let n = eaten(*old(self), *self);
    assert(advanced(*old(self), *self));
    assert(old(self).tok() =~= Seq::<char>::empty());
    assert(self.tok() =~= old(self).rest().take(n));
    lemma_advanced_total(*old(self), *self);
}''')], attrs=['#[verifier::rlimit(80)]'], spec='''
requires fits(*old(self)), old(self).tok().len() == 0,
ensures
    // the cursor is ready for the next token, and only moved forward
    final(self).tok().len() == 0,
    eaten(*old(self), *final(self)) >= 0,
    final(self).rest() == old(self).rest().skip(eaten(*old(self), *final(self))),
    fits(*final(self)),
    // end of input <=> Eof, which has length 0
    old(self).rest().len() == 0 ==> r.kind is Eof && r.len == 0 && eaten(*old(self), *final(self)) == 0,                 //@C14,C01:eof
    // otherwise at least one character is consumed (progress => finitely many tokens), the token is
    // not Eof, and its length is the UTF-8 size of the consumed characters (=> ends on a char boundary)
    old(self).rest().len() > 0 ==> !(r.kind is Eof) && eaten(*old(self), *final(self)) >= 1
        && r.len == utf8_len(old(self).rest().take(eaten(*old(self), *final(self)))) && r.len >= 1,                       //@C14,C01,C02:progress-and-length
    // a literal's suffix offset never exceeds its length
    r.kind is Literal ==> r.kind->Literal_suffix_start <= r.len,                                                            //@C14:suffix-start
    // every one-character punctuation / operator is a token of its own, with its own kind (multi-character operators are glued later)
    old(self).rest().len() > 0 ==> match old(self).rest()[0] {
        ';' => r.kind == TokenKind::Semi && eaten(*old(self), *final(self)) == 1,
        ',' => r.kind == TokenKind::Comma && eaten(*old(self), *final(self)) == 1,
        '(' => r.kind == TokenKind::OpenParen && eaten(*old(self), *final(self)) == 1,
        ')' => r.kind == TokenKind::CloseParen && eaten(*old(self), *final(self)) == 1,
        '{' => r.kind == TokenKind::OpenBrace && eaten(*old(self), *final(self)) == 1,
        '}' => r.kind == TokenKind::CloseBrace && eaten(*old(self), *final(self)) == 1,
        '[' => r.kind == TokenKind::OpenBracket && eaten(*old(self), *final(self)) == 1,
        ']' => r.kind == TokenKind::CloseBracket && eaten(*old(self), *final(self)) == 1,
        '~' => r.kind == TokenKind::Tilde && eaten(*old(self), *final(self)) == 1,
        '?' => r.kind == TokenKind::Question && eaten(*old(self), *final(self)) == 1,
        ':' => r.kind == TokenKind::Colon && eaten(*old(self), *final(self)) == 1,
        '=' => r.kind == TokenKind::Eq && eaten(*old(self), *final(self)) == 1,
        '!' => r.kind == TokenKind::Bang && eaten(*old(self), *final(self)) == 1,
        '<' => r.kind == TokenKind::Lt && eaten(*old(self), *final(self)) == 1,
        '>' => r.kind == TokenKind::Gt && eaten(*old(self), *final(self)) == 1,
        '-' => r.kind == TokenKind::Minus && eaten(*old(self), *final(self)) == 1,
        '&' => r.kind == TokenKind::And && eaten(*old(self), *final(self)) == 1,
        '|' => r.kind == TokenKind::Or && eaten(*old(self), *final(self)) == 1,
        '+' => r.kind == TokenKind::Plus && eaten(*old(self), *final(self)) == 1,
        '*' => r.kind == TokenKind::Star && eaten(*old(self), *final(self)) == 1,
        '^' => r.kind == TokenKind::Caret && eaten(*old(self), *final(self)) == 1,
        '%' => r.kind == TokenKind::Percent && eaten(*old(self), *final(self)) == 1,
        _ => true,
    },                                                                                                                  //@C15:punctuation-table
    // `/` alone is the division operator, `//` opens a line comment, `/*` a block comment; `.` not followed by a digit is a dot;
    // a quote opens a string or bit-string literal; `@` not followed by an identifier start is the at sign, otherwise an annotation line
    (old(self).rest().len() > 0 && old(self).rest()[0] == '/') ==> ({
        let nx = if old(self).rest().len() > 1 { old(self).rest()[1] } else { '\0' };
        &&& (nx == '/' ==> r.kind == TokenKind::LineComment)
        &&& (nx == '*' ==> r.kind is BlockComment)
        &&& ((nx != '/' && nx != '*') ==> r.kind == TokenKind::Slash && eaten(*old(self), *final(self)) == 1)
    }),                                                                                                                 //@C15:slash-and-comments
    (old(self).rest().len() > 0 && old(self).rest()[0] == '.' && !(old(self).rest().len() > 1 && is_dec(old(self).rest()[1])))
        ==> r.kind == TokenKind::Dot && eaten(*old(self), *final(self)) == 1,                                               //@C15:punctuation-table
    (old(self).rest().len() > 0 && (old(self).rest()[0] == '"' || old(self).rest()[0] == '\\''))
        ==> r.kind is Literal && (r.kind->Literal_kind is Str || r.kind->Literal_kind is BitStr),                           //@C15:quoted-literals
    // a token that starts with a digit is the numeric literal of the OpenQASM 3 syntax: class, base,
    // flags, and the literal proper (before any suffix) extends exactly as far as the syntax says
    (old(self).rest().len() > 0 && is_dec(old(self).rest()[0])) ==> r.kind is Literal
        && r.kind->Literal_kind == num_spec(old(self).rest()[0], old(self).rest().skip(1)).0
        && r.kind->Literal_suffix_start == utf8_len(old(self).rest().take(1 + num_spec(old(self).rest()[0], old(self).rest().skip(1)).1)),   //@C15,C11:numeric-literal-by-the-syntax
''')),
        scanner('line_comment', " old(self).prevc() == '/', peek(*old(self)) == '/',", ''' k == TokenKind::LineComment,
    // maximal munch: up to, not including, the next line break (or the end of the input)
    forall|i: int| 1 <= i < eaten(*old(self), *final(self)) ==> #[trigger] old(self).rest()[i] != '\\n',             //@C15,C14:line-comment-extent
    final(self).rest().len() > 0 ==> final(self).rest()[0] == '\\n',                                          //@C15,C14:line-comment-extent''', ret='k',
                rewrites=[('GHOST-closure-contract', "self.eat_while(|c| c != '\\n');", "self.eat_while(|c: char| -> (r: bool) ensures r == (c != '\\n') { c != '\\n' });")],
                ghost=[HEAD, ("self.eat_while(|c: char|", 'before', 'let ghost c1 = *self;'), ('        LineComment\n', 'before', '''proof {
    lemma_step(*old(self), c1, *self);
    assert forall|i: int| 1 <= i < eaten(*old(self), *self) implies #[trigger] old(self).rest()[i] != '\\n' by {
        assert(c1.rest()[i - 1] == old(self).rest()[i]);
    }
}''')]),
        scanner('block_comment', " old(self).prevc() == '/', peek(*old(self)) == '*',", ''' k is BlockComment,
    // the flag is exact: terminated iff the (nested) comment is closed, and then the token ends right after its `*/`;
    // an unterminated comment runs to the end of the input
    k->BlockComment_terminated == (bc_end(old(self).rest().skip(1), 1) is Some),                        //@C11,C15:terminated-flag-exact
    k->BlockComment_terminated ==> eaten(*old(self), *final(self)) == 1 + bc_end(old(self).rest().skip(1), 1)->Some_0,   //@C15,C14:comment-extent
    !k->BlockComment_terminated ==> final(self).rest().len() == 0,                                      //@C15,C14:comment-extent
''', ret='k', loops={1: '''invariant_except_break depth >= 1,
    bc_end(old(self).rest().skip(1), 1) == lift(bc_end(self.rest(), depth as int), eaten(*old(self), *self) - 1),
invariant
    advanced(*old(self), *self), fits(*old(self)), depth <= 1 + eaten(*old(self), *self), eaten(*old(self), *self) >= 1,
ensures advanced(*old(self), *self),
    depth == 0 ==> bc_end(old(self).rest().skip(1), 1) == Some(eaten(*old(self), *self) - 1),
    depth != 0 ==> self.rest().len() == 0 && bc_end(old(self).rest().skip(1), 1) is None,
decreases self.rest().len(),'''},
                loop_ghost='''broadcast use lex_lemmas;
let ghost k0 = eaten(*old(self), *self); let ghost s0 = old(self).rest();
proof { assert(self.rest() == s0.skip(k0)); if self.rest().len() > 1 { assert(self.rest().skip(1) =~= s0.skip(k0 + 1)); assert(self.rest().skip(2) =~= s0.skip(k0 + 2)); } }''',
                ghost=[('{', 'after', 'broadcast use lex_lemmas;'), ('while let Some(c) = self.bump()', 'before', 'proof { lemma_advanced_rest(*old(self), *self); assert(self.rest() == old(self).rest().skip(1)); }')]),
        scanner('whitespace', ' is_ws(old(self).prevc()),', ''' k == TokenKind::Whitespace,
    // maximal munch: exactly the longest run of whitespace characters
    forall|i: int| 0 <= i < eaten(*old(self), *final(self)) ==> is_ws(#[trigger] old(self).rest()[i]),          //@C15,C14:whitespace-maximal-munch
    final(self).rest().len() > 0 ==> !is_ws(final(self).rest()[0]),                                        //@C15,C14:whitespace-maximal-munch''', ret='k'),
        scanner('have_dim', '', " r == (old(self).rest().len() >= 3 && old(self).rest()[0] == 'd' && old(self).rest()[1] == 'i' && old(self).rest()[2] == 'm'),      //@C15:directive-recognised", ret='r'),
        scanner('have_pragma', '', " !r ==> (final(self).prevc() == old(self).prevc() || ascii_letter(final(self).prevc())),\n    // (the `p` is consumed) `ragma` and a white-space character: a pragma line\n    r == (old(self).rest().len() >= 6 && old(self).rest()[0] == 'r' && old(self).rest()[1] == 'a' && old(self).rest()[2] == 'g' && old(self).rest()[3] == 'm' && old(self).rest()[4] == 'a' && is_ws(old(self).rest()[5])),      //@C15:directive-recognised", ret='r'),
        scanner('have_openqasm', '', " !r ==> (final(self).prevc() == old(self).prevc() || ascii_letter(final(self).prevc())),\n    // (the `O` is consumed) `PENQASM` and a white-space character: the version header\n    r == (old(self).rest().len() >= 8 && old(self).rest()[0] == 'P' && old(self).rest()[1] == 'E' && old(self).rest()[2] == 'N' && old(self).rest()[3] == 'Q' && old(self).rest()[4] == 'A' && old(self).rest()[5] == 'S' && old(self).rest()[6] == 'M' && is_ws(old(self).rest()[7])),      //@C15:directive-recognised", ret='r'),
        scanner('openqasm_version'),
        scanner('pragma_or_ident_or_unknown_prefix', " old(self).prevc() == 'p',", ' k == TokenKind::Pragma || k == TokenKind::Ident || k == TokenKind::InvalidIdent,', ret='k'),
        scanner('ident_or_unknown_prefix', " old(self).prevc() == '_' || xid_start(old(self).prevc()),", ' k == TokenKind::Ident || k == TokenKind::InvalidIdent,', ret='k'),
        scanner('hardware_ident', '', ''' k == TokenKind::Dollar || k == TokenKind::HardwareIdent || k == TokenKind::InvalidIdent,
    // `$` followed by digits (separators allowed) is a hardware qubit -- the longest such run; `$` followed by an ASCII character that is
    // neither is the dollar sign alone
    (old(self).rest().len() == 0 || (old(self).rest()[0] as u32) < 128) ==> (k == TokenKind::HardwareIdent) == has_dec(old(self).rest().take(run_dec(old(self).rest()) as int))
        && (k == TokenKind::Dollar || k == TokenKind::HardwareIdent) && eaten(*old(self), *final(self)) == run_dec(old(self).rest()),      //@C15:hardware-qubit''', ret='k'),
        scanner('fake_ident_or_unknown_prefix', '', ' k == TokenKind::InvalidIdent,', ret='k'),
        scanner('float_with_no_leading_digit', *SB['float_with_no_leading_digit'][:2], **SB['float_with_no_leading_digit'][2]),
        scanner('number', *SB['number'][:2], **SB['number'][2]),
        scanner('double_quoted_string', " old(self).prevc() == '\"',", '''
    // the flag is exact: terminated iff a closing quote (not escaped) exists, and then the token ends right after it;
    // an unterminated string runs to the end of the input
    r.0 == (str_end(old(self).rest(), '"') is Some),                                                 //@C11,C15:terminated-flag-exact
    r.0 ==> eaten(*old(self), *final(self)) == str_end(old(self).rest(), '"')->Some_0,                //@C15,C14:string-extent
    !r.0 ==> final(self).rest().len() == 0,                                                            //@C15,C14:string-extent
    // the consecutive-underscores flag (a lexical error for a bit string) is only raised when two adjacent underscores were read
    r.2 ==> adj_us(old(self).rest(), eaten(*old(self), *final(self))),                            //@C15,C11:no-spurious-underscore-error
''', ret='r', loops={1: '''invariant
    advanced(*old(self), *self), fits(*old(self)), 0 <= count_newlines <= eaten(*old(self), *self), !terminated,
    consecutive_underscores ==> adj_us(old(self).rest(), eaten(*old(self), *self)),
    prev_char == '_' ==> eaten(*old(self), *self) > 0 && old(self).rest()[eaten(*old(self), *self) - 1] == '_',
    // what remains decides the outcome: the string ends where the rest of it ends
    str_end(old(self).rest(), '"') == lift(str_end(self.rest(), '"'), eaten(*old(self), *self)),
ensures advanced(*old(self), *self), !terminated, self.rest().len() == 0, str_end(old(self).rest(), '"') is None,
decreases self.rest().len(),'''},
                loop_ghost='''broadcast use lex_lemmas;
let ghost k0 = eaten(*old(self), *self); let ghost s0 = old(self).rest(); let ghost c_in = *self;
proof { assert(self.rest() == s0.skip(k0)); if self.rest().len() > 1 { assert(self.rest().skip(1) =~= s0.skip(k0 + 1)); assert(self.rest().skip(2) =~= s0.skip(k0 + 2)); } }''', ghost=[('{', 'after', 'broadcast use lex_lemmas;'), ('                        consecutive_underscores = true;', 'before', "proof { assert(s0[k0 - 2] == '_' && s0[(k0 - 2) + 1] == '_'); }"), ("let mut prev_char = '\\0';", 'after', 'proof { assert(old(self).rest().skip(0) =~= old(self).rest()); }'), ('                    return (terminated, only_ones_and_zeros, consecutive_underscores);', 'before', 'proof { lemma_advanced_rest(*old(self), *self); }')]),
        scanner('single_quoted_string', " old(self).prevc() == '\\'',", '''
    // the flag is exact: terminated iff a closing quote (not escaped) exists, and then the token ends right after it;
    // an unterminated string runs to the end of the input
    r.0 == (str_end(old(self).rest(), '\\'') is Some),                                                 //@C11,C15:terminated-flag-exact
    r.0 ==> eaten(*old(self), *final(self)) == str_end(old(self).rest(), '\\'')->Some_0,                //@C15,C14:string-extent
    !r.0 ==> final(self).rest().len() == 0,                                                            //@C15,C14:string-extent
    r.2 ==> adj_us(old(self).rest(), eaten(*old(self), *final(self))),                                //@C15,C11:no-spurious-underscore-error
''', ret='r', loops={1: '''invariant
    advanced(*old(self), *self), fits(*old(self)), 0 <= count_newlines <= eaten(*old(self), *self), !terminated,
    consecutive_underscores ==> adj_us(old(self).rest(), eaten(*old(self), *self)),
    prev_char == '_' ==> eaten(*old(self), *self) > 0 && old(self).rest()[eaten(*old(self), *self) - 1] == '_',
    // what remains decides the outcome: the string ends where the rest of it ends
    str_end(old(self).rest(), '\\'') == lift(str_end(self.rest(), '\\''), eaten(*old(self), *self)),
ensures advanced(*old(self), *self), !terminated, self.rest().len() == 0, str_end(old(self).rest(), '\\'') is None,
decreases self.rest().len(),'''},
                loop_ghost='''broadcast use lex_lemmas;
let ghost k0 = eaten(*old(self), *self); let ghost s0 = old(self).rest(); let ghost c_in = *self;
proof { assert(self.rest() == s0.skip(k0)); if self.rest().len() > 1 { assert(self.rest().skip(1) =~= s0.skip(k0 + 1)); assert(self.rest().skip(2) =~= s0.skip(k0 + 2)); } }''', ghost=[('{', 'after', 'broadcast use lex_lemmas;'), ('                        consecutive_underscores = true;', 'before', "proof { assert(s0[k0 - 2] == '_' && s0[(k0 - 2) + 1] == '_'); }"), ("let mut prev_char = '\\0';", 'after', 'proof { assert(old(self).rest().skip(0) =~= old(self).rest()); }'), ('                    return (terminated, only_ones_and_zeros, consecutive_underscores);', 'before', 'proof { lemma_advanced_rest(*old(self), *self); }')]),
        scanner('eat_decimal_digits', *SB['eat_decimal_digits'][:2], **SB['eat_decimal_digits'][2]),
        scanner('eat_hexadecimal_digits', *SB['eat_hexadecimal_digits'][:2], **SB['eat_hexadecimal_digits'][2]),
        scanner('eat_float_exponent', *SB['eat_float_exponent'][:2], **SB['eat_float_exponent'][2]),
        scanner('eat_literal_suffix'),
        ('has_timing_or_imaginary_suffix', dict(props=ALLP, rewrites=[('D7', D7_OLD, D7_NEW)],
                                                ret='r', spec='ensures *final(self) == *old(self), r == unit_ahead(old(self).rest()),      //@C15:unit-recognised')),
        scanner('eat_identifier', '', '''
    // maximal munch: nothing if the next character cannot start an identifier, otherwise it and the longest run of continue characters
    !(peek(*old(self)) == '_' || xid_start(peek(*old(self)))) ==> eaten(*old(self), *final(self)) == 0,          //@C15,C14:identifier-maximal-munch
    (old(self).rest().len() > 0 && (peek(*old(self)) == '_' || xid_start(peek(*old(self))))) ==> eaten(*old(self), *final(self)) >= 1
        && (forall|i: int| 1 <= i < eaten(*old(self), *final(self)) ==> xid_continue(#[trigger] old(self).rest()[i]))
        && (final(self).rest().len() > 0 ==> !xid_continue(final(self).rest()[0])),                            //@C15,C14:identifier-maximal-munch''',
                ghost=[HEAD, ('        self.eat_while(is_id_continue);', 'before', 'let ghost c1 = *self;'), ('        self.eat_while(is_id_continue);', 'after', '''proof {
    lemma_step(*old(self), c1, *self);
    assert forall|i: int| 1 <= i < eaten(*old(self), *self) implies xid_continue(#[trigger] old(self).rest()[i]) by {
        assert(c1.rest()[i - 1] == old(self).rest()[i]);
    }
}''')]),
    ])
    # ------------------------------------------------------------------ LEXSTR (oq3_parser::lexed_str)
    x = U.file(X)
    k = U.file(SK)
    k.item('enum', 'SyntaxKind')
    k.item('macro_rules', 'T')
    x.item('struct', 'LexedStr')
    x.item('struct', 'LexError')
    x.item('struct', 'Converter')
    U.prelude('contracts/lexstr.prelude.rs')
    XP = ['C14', 'C01', 'C11', 'C15', 'C02', 'C12']
    KW = dict(ret='r', props=['C15', 'C01'], spec='ensures r is Some ==> (r->Some_0 as u16) < 128 && r->Some_0 != SyntaxKind::TOMBSTONE && r->Some_0 != SyntaxKind::EOF && r->Some_0 != SyntaxKind::UNDERSCORE,')
    # C15: "every keyword and type name ... with its own kind".  The table is NOT read from the bodies:
    # it is generated from the VARIANT NAMES of SyntaxKind: `X_KW` / `X_TY` is the kind of the spelling
    # lower(X) (a name made of single letters joined by `_`, O_P_E_N_Q_A_S_M, is the upper-case word)
    import os as _os
    from vlib.unit import REPO as _REPO
    _src = open(_os.path.join(_REPO, SK)).read()
    _enum = _src[_src.index('pub enum SyntaxKind'):]
    _enum = _enum[:_enum.index('\n}')]

    def _spelling(stem):
        parts = stem.split('_')
        return ''.join(parts) if len(parts) > 1 and all(len(x) == 1 for x in parts) else stem.lower()

    def _table(suffix, arg):
        kinds = [v for v in re.findall(r'(?m)^\s*(\w+)\s*,', _enum) if v.endswith(suffix)]
        pos = ['%s@ == "%s"@ ==> r == Some(SyntaxKind::%s),' % (arg, _spelling(v[:-len(suffix)]), v) for v in kinds]
        neg = 'r is Some ==> (%s),' % ' || '.join('%s@ == "%s"@' % (arg, _spelling(v[:-len(suffix)])) for v in kinds)
        return ('\n    // each spelling has its own kind, and nothing else has one        //@C15:keyword-table\n    '
                + '\n    '.join(p_ + '        //@C15:keyword-table' for p_ in pos) + '\n    ' + neg + '        //@C15:keyword-table'), len(kinds)
    def _all_spellings():
        return [_spelling(v[:-3]) for v in re.findall(r'(?m)^\s*(\w+)\s*,', _enum) if v.endswith('_KW') or v.endswith('_TY')] + ['_']

    def _ident_table():
        kws = [v for v in re.findall(r'(?m)^\s*(\w+)\s*,', _enum) if v.endswith('_KW')]
        tys = [v for v in re.findall(r'(?m)^\s*(\w+)\s*,', _enum) if v.endswith('_TY')]
        rows = [(_spelling(v[:-3]), v) for v in kws] + [(_spelling(v[:-3]), v) for v in tys]
        pos = ['(*kind is Ident && token_text@ == "%s"@) ==> r.1 == SyntaxKind::%s,        //@C15:identifier-keyword-type-table' % (t, v) for t, v in rows]
        neg = ('(*kind is Ident && token_text@ != "_"@ && %s) ==> r.1 == SyntaxKind::IDENT,        //@C15:identifier-keyword-type-table'
               % ' && '.join('token_text@ != "%s"@' % t for t, v in rows))
        return '\n    '.join(pos) + '\n    ' + neg + '\n'
    _kw, _nkw = _table('_KW', 'ident')
    _ty, _nty = _table('_TY', 'type_name')
    U.n_keywords = (_nkw, _nty)
    RSL = ('{', 'after', 'proof {\n@@STRLIT_FACTS@@\n}')
    k.impl('SyntaxKind', [('from_keyword', dict(KW, strmatch=True, ghost=[RSL], spec=KW['spec'] + _kw)),
                          ('from_scalar_type', dict(KW, strmatch=True, ghost=[RSL], spec=KW['spec'] + _ty))])
    U.file(SK2).impl('SyntaxKind', [('is_trivia', dict(ret='r', props=XP, spec='ensures r == (self == SyntaxKind::WHITESPACE || self == SyntaxKind::COMMENT),'))])
    REVEAL = ('(err, syntax_kind, ', 'before', 'proof { @@REVEAL_STRLITS@@ }')
    x.fn('extend_literal_func', ret='r', props=XP, ghost=[REVEAL], spec="""
ensures
    r.2 == len,
    is_token_kind(r.1), r.1 != SyntaxKind::EOF,                                                          //@C01,C02:token-kinds-fit-token-sets
    // kind of the same meaning
    (*kind is Int ==> r.1 == SyntaxKind::INT_NUMBER) && (*kind is Float ==> r.1 == SyntaxKind::FLOAT_NUMBER)
        && (*kind is Byte ==> r.1 == SyntaxKind::BYTE) && (*kind is Str ==> r.1 == SyntaxKind::STRING)
        && (*kind is BitStr ==> r.1 == SyntaxKind::BIT_STRING),                                          //@C15:literal-kind-table
    // every malformedness flag yields a (non-empty) lexical diagnostic; well-formed literals yield none
    (*kind is Int ==> (r.0@.len() > 0) == kind->Int_empty_int),                                        //@C11,C15:empty-int-diagnosed-and-only-then
    (*kind is Float ==> (r.0@.len() > 0) == kind->Float_empty_exponent),                               //@C11,C15:empty-exponent-diagnosed-and-only-then
    (*kind is Byte ==> (r.0@.len() > 0) == !kind->Byte_terminated),                                    //@C11,C15:unterminated-diagnosed-and-only-then
    (*kind is Str ==> (r.0@.len() > 0) == !kind->Str_terminated),                                      //@C11,C15:unterminated-diagnosed-and-only-then
    (*kind is BitStr && !kind->BitStr_terminated ==> r.0@.len() > 0),                                  //@C11:unterminated-bitstring-diagnosed
    (*kind is BitStr && kind->BitStr_terminated && !kind->BitStr_consecutive_underscores ==> r.0@.len() == 0),      //@C15,C11:well-formed-bitstring-not-diagnosed
""")
    x.fn('inner_extend_token', ret='r', props=XP, ghost=[REVEAL, ('{', 'after', 'proof {\n' + '\n'.join('reveal_strlit("%s"); assert(%s);' % (t_, ' && '.join(['"%s"@.len() == %d' % (t_, len(t_))] + ["\"%s\"@[%d] == '%s'" % (t_, i_, c_) for i_, c_ in enumerate(t_)])) for t_ in _all_spellings()) + '\n}')], spec="""
ensures
    r.2 == blen(token_text),
    // what reaches the parser fits its 128-bit token sets, and EOF/TOMBSTONE never come from a real token
    is_token_kind(r.1),                                                                                  //@C01,C02:token-kinds-fit-token-sets
    (r.1 == SyntaxKind::EOF) == (*kind is Eof),                                                        //@C01,C02:eof-only-from-eof
    // malformed lexemes are diagnosed on the token itself
    (*kind is BlockComment && !kind->BlockComment_terminated ==> r.0@.len() > 0),                      //@C11:unterminated-comment-diagnosed
    (*kind is OpenQasmVersionStmt && !(kind->OpenQasmVersionStmt_major && kind->OpenQasmVersionStmt_minor) ==> r.0@.len() > 0),   //@C11:bad-version-diagnosed
    (*kind is InvalidIdent ==> r.0@.len() > 0),                                                        //@C11:invalid-ident-diagnosed
    (*kind is Literal ==> (
        (kind->Literal_kind is Int ==> (r.0@.len() > 0) == kind->Literal_kind->Int_empty_int)
        && (kind->Literal_kind is Float ==> (r.0@.len() > 0) == kind->Literal_kind->Float_empty_exponent)
        && (kind->Literal_kind is Str ==> (r.0@.len() > 0) == !kind->Literal_kind->Str_terminated)
        && (kind->Literal_kind is BitStr && !kind->Literal_kind->BitStr_terminated ==> r.0@.len() > 0))),   //@C11:literal-flags-diagnosed
    // well-formed lexemes of these classes carry no diagnostic
    (*kind is LineComment || *kind is Whitespace || *kind is Ident || *kind is HardwareIdent || *kind is Pragma || *kind is Annotation
        || (*kind is BlockComment && kind->BlockComment_terminated)
        || (*kind is OpenQasmVersionStmt && kind->OpenQasmVersionStmt_major && kind->OpenQasmVersionStmt_minor)) ==> r.0@.len() == 0,   //@C15:no-spurious-error
    // each lexer kind maps to the parser kind of the same meaning
    (*kind is LineComment ==> r.1 == SyntaxKind::COMMENT) && (*kind is BlockComment ==> r.1 == SyntaxKind::COMMENT)
    && (*kind is Whitespace ==> r.1 == SyntaxKind::WHITESPACE) && (*kind is Pragma ==> r.1 == SyntaxKind::PRAGMA)
    && (*kind is Annotation ==> r.1 == SyntaxKind::ANNOTATION) && (*kind is OpenQasmVersionStmt ==> r.1 == SyntaxKind::VERSION_STRING)
    && (*kind is InvalidIdent ==> r.1 == SyntaxKind::IDENT) && (*kind is Unknown ==> r.1 == SyntaxKind::ERROR)
    && (*kind is Dim ==> r.1 == SyntaxKind::DIM_KW),                                                     //@C15:kind-table
    (*kind is Semi ==> r.1 == SyntaxKind::SEMICOLON) && (*kind is Comma ==> r.1 == SyntaxKind::COMMA) && (*kind is Dot ==> r.1 == SyntaxKind::DOT)
    && (*kind is OpenParen ==> r.1 == SyntaxKind::L_PAREN) && (*kind is CloseParen ==> r.1 == SyntaxKind::R_PAREN)
    && (*kind is OpenBrace ==> r.1 == SyntaxKind::L_CURLY) && (*kind is CloseBrace ==> r.1 == SyntaxKind::R_CURLY)
    && (*kind is OpenBracket ==> r.1 == SyntaxKind::L_BRACK) && (*kind is CloseBracket ==> r.1 == SyntaxKind::R_BRACK)
    && (*kind is At ==> r.1 == SyntaxKind::AT) && (*kind is Pound ==> r.1 == SyntaxKind::POUND) && (*kind is Tilde ==> r.1 == SyntaxKind::TILDE)
    && (*kind is Question ==> r.1 == SyntaxKind::QUESTION) && (*kind is Colon ==> r.1 == SyntaxKind::COLON) && (*kind is Dollar ==> r.1 == SyntaxKind::DOLLAR)
    && (*kind is Eq ==> r.1 == SyntaxKind::EQ) && (*kind is Bang ==> r.1 == SyntaxKind::BANG) && (*kind is Lt ==> r.1 == SyntaxKind::L_ANGLE)
    && (*kind is Gt ==> r.1 == SyntaxKind::R_ANGLE) && (*kind is Minus ==> r.1 == SyntaxKind::MINUS) && (*kind is And ==> r.1 == SyntaxKind::AMP)
    && (*kind is Or ==> r.1 == SyntaxKind::PIPE) && (*kind is Plus ==> r.1 == SyntaxKind::PLUS) && (*kind is Star ==> r.1 == SyntaxKind::STAR)
    && (*kind is Slash ==> r.1 == SyntaxKind::SLASH) && (*kind is Caret ==> r.1 == SyntaxKind::CARET) && (*kind is Percent ==> r.1 == SyntaxKind::PERCENT),   //@C15:punctuation-table
    (*kind is Ident && token_text@ == "_"@ ==> r.1 == SyntaxKind::UNDERSCORE),                           //@C15:underscore
    (*kind is Ident && token_text@ != "_"@ ==> r.1 != SyntaxKind::UNDERSCORE),                           //@C15:underscore
    // an identifier-shaped lexeme is the keyword / type name of exactly that spelling, else IDENT
    """ + _ident_table())
    x.impl(r"LexedStr<'a>", [
        ('len', dict(ret='r', props=XP, spec='requires self.kind@.len() >= 1, ensures r == self.kind@.len() - 1,')),
        ('is_empty', dict(ret='r', props=XP, spec='requires self.kind@.len() >= 1, ensures r == (self.kind@.len() == 1),')),
        ('kind', dict(ret='r', props=XP, spec='requires self.wf(), i < self.ntok(), ensures r == self.kind@[i as int],')),
        ('range_text', dict(ret='t', props=XP, trusted=True,
                            note='`&self.text[lo..hi]`: the char-boundary precondition of str slicing is outside the model (offsets are sums of token lengths, which are char boundaries by the Cursor contract)',
                            spec='requires self.wf(), r.start < r.end, r.end <= self.ntok(),')),
        ('text', dict(ret='t', props=XP, spec='requires self.wf(), i < self.ntok(),', ghost=[('self.range_text(', 'before', 'assert(self.kind@.len() == self.kind.len());')])),
        ('text_range', dict(ret='r', props=XP, spec="""
requires self.wf(), i < self.ntok(),
ensures r.start == self.start@[i as int], r.end == self.start@[i + 1], r.start <= r.end,              //@C12,C14:ranges-ordered
""")),
        ('text_start', dict(ret='r', props=XP, spec='requires self.wf(), i <= self.ntok(), ensures r == self.start@[i as int],')),
        ('text_len', dict(ret='r', props=XP, spec='requires self.wf(), i < self.ntok(), ensures r == self.start@[i + 1] - self.start@[i as int],')),
        ('errors_is_empty', dict(ret='r', props=['C11'], spec='ensures r == (self.error@.len() == 0),')),
        ('push', dict(props=XP, spec="""
requires old(self).wf_building(), offset <= u32::MAX, forall|i: int| 0 <= i < old(self).start@.len() ==> (#[trigger] old(self).start@[i]) as nat <= offset,
ensures
    final(self).kind@ == old(self).kind@.push(kind), final(self).start@ == old(self).start@.push(offset as u32),
    final(self).error@ == old(self).error@, final(self).text == old(self).text, final(self).wf_building(),
""")),
    ])
    x.impl(r"Converter<'a>", [
        ('new', dict(ret='r', props=XP, spec='ensures r.wf(), r.offset == 0, r.res.kind@.len() == 0, r.res.error@.len() == 0, r.res.text == text,')),
        ('finalize_with_eof', dict(ret='r', props=XP, rewrites=[('D11', 'fn finalize_with_eof(mut self)', 'fn finalize_with_eof(self)'),
                                                                ('D11', '        self.res.push(EOF, self.offset);\n        self.res', '        let mut this = self; this.res.push(EOF, this.offset);\n        this.res')],
                                       spec="""
requires self.wf(),
ensures
    r.wf(), r.kind@ == self.res.kind@.push(SyntaxKind::EOF), r.start@ == self.res.start@.push(self.offset as u32),
    r.error@ == self.res.error@, r.start@.last() == self.offset,                                          //@C14:table-ends-at-offset
""")),
        ('push', dict(props=XP, spec="""
requires old(self).wf(), len >= 1, old(self).offset + len <= 0x7fff_ffff,
ensures
    final(self).wf(), final(self).offset == old(self).offset + len,
    final(self).res.kind@ == old(self).res.kind@.push(kind),
    final(self).res.start@ == old(self).res.start@.push(old(self).offset as u32),                         //@C14:start-is-running-offset
    // a diagnostic is recorded iff one was passed, and it is located on this very token
    err is None ==> final(self).res.error@ == old(self).res.error@,                                       //@C11:error-iff-flag
    err is Some ==> final(self).res.error@.len() == old(self).res.error@.len() + 1
        && final(self).res.error@.last().token == old(self).res.kind@.len()
        && final(self).res.error@.drop_last() == old(self).res.error@,                                    //@C11,C12:error-on-that-token
""")),
        ('extend_token', dict(props=XP, spec="""
requires old(self).wf(), blen(token_text) >= 1, old(self).offset + blen(token_text) <= 0x7fff_ffff,
ensures
    final(self).wf(), final(self).offset == old(self).offset + blen(token_text),
    final(self).res.kind@.len() == old(self).res.kind@.len() + 1,
    final(self).res.kind@ == old(self).res.kind@.push(final(self).res.kind@.last()),
    is_token_kind(final(self).res.kind@.last()),                                                         //@C01,C02:token-kinds-fit-token-sets
    (final(self).res.kind@.last() == SyntaxKind::EOF) == (*kind is Eof),
    final(self).res.start@ == old(self).res.start@.push(old(self).offset as u32),
    final(self).res.error@.len() >= old(self).res.error@.len(),
    // malformed lexemes: a diagnostic located on this token
    ((*kind is BlockComment && !kind->BlockComment_terminated) || *kind is InvalidIdent
      || (*kind is OpenQasmVersionStmt && !(kind->OpenQasmVersionStmt_major && kind->OpenQasmVersionStmt_minor))
      || (*kind is Literal && kind->Literal_kind is Int && kind->Literal_kind->Int_empty_int)
      || (*kind is Literal && kind->Literal_kind is Float && kind->Literal_kind->Float_empty_exponent)
      || (*kind is Literal && kind->Literal_kind is Str && !kind->Literal_kind->Str_terminated)
      || (*kind is Literal && kind->Literal_kind is BitStr && !kind->Literal_kind->BitStr_terminated))
        ==> final(self).res.error@.len() == old(self).res.error@.len() + 1
            && final(self).res.error@.last().token == old(self).res.kind@.len(),                          //@C11:malformed-lexeme-diagnosed-on-token
""")),
    ])
    # D37 (tokenize): `let mut cursor = Cursor::new(input); std::iter::from_fn(move || { BODY })` -- BODY is the iterator's `next`; it is
    # copied from /repo into the chain function on every run.  Any other frame falls back to the whole-text guard.
    import os as _os3
    from vlib.unit import REPO as _REPO3
    _lx = open(_os3.path.join(_REPO3, L)).read()
    _mt = re.search(r"pub fn tokenize\(input: &str\) -> impl Iterator<Item = Token> \+ '_ \{\n\s*let mut cursor = Cursor::new\(input\);\n\s*std::iter::from_fn\(move \|\| \{\n(.*?)\n    \}\)\n\}\n", _lx, re.S)
    U.tokenize_frame_ok = bool(_mt)
    # (D38: `e != TokenKind::Eof` / `e == TokenKind::Eof` on the derived PartialEq of a field-less variant is `!matches!(e, ..)` / `matches!(e, ..)`)
    _d38 = lambda t: re.sub(r'([\w.]+)\s*==\s*TokenKind::Eof\b', r'matches!(\1, TokenKind::Eof)', re.sub(r'([\w.]+)\s*!=\s*TokenKind::Eof\b', r'!matches!(\1, TokenKind::Eof)', t))
    U.tokenize_body = _d38(_mt.group(1)) if _mt else "        let token = cursor.advance_token();\n        if token.kind != TokenKind::Eof {\n            Some(token)\n        } else {\n            None\n        }"
    if _mt:
        U.build_log = getattr(U, 'build_log', []) + [('D37', "tokenize: the body of its `from_fn` closure (the iterator's `next`) is copied from /repo into c14_chain_table_from_tokens")]
    else:
      f.guard('tokenize', "pub fn tokenize(input: &str) -> impl Iterator<Item = Token> + '_ { let mut cursor = Cursor::new(input); std::iter::from_fn(move || { let token = cursor.advance_token(); if token.kind != TokenKind::Eof { Some(token) } else { None } }) }",
              why='the chain lemma c14_chain_table_from_tokens restates this loop')
    # D37: LexedStr::new is `for token in tokenize(..) { BODY } TAIL`.  The header is restated by the chain function as "advance_token
    # until Eof" (tokenize's own text is guarded below / above); BODY and TAIL are copied from /repo on every run into that function, with
    # the nested str slice `&text[conv.offset..][..token.len as usize]` written as the stand-in slice_token_text(text, conv.offset, token.len).
    # Any other frame (another prologue, another iterator) falls back to the whole-text guard: undecided.
    import os as _os2
    from vlib.unit import REPO as _REPO2
    _ls = open(_os2.path.join(_REPO2, X)).read()
    _mn = re.search(r"pub fn new\(text: &'a str\) -> LexedStr<'a> \{\n\s*let mut conv = Converter::new\(text\);\n\s*for token in oq3_lexer::tokenize\(&text\[conv\.offset\.\.\]\) \{\n(.*?)\n        \}\n\s*([^\n;]+)\n    \}\n", _ls, re.S)
    U.new_frame_ok = bool(_mn)
    if _mn:
        _body = _mn.group(1).replace('&text[conv.offset..][..token.len as usize]', 'slice_token_text(text, conv.offset, token.len)')
        U.new_pieces = (_body, _mn.group(2).strip())
        U.build_log = getattr(U, 'build_log', []) + [('D37', "LexedStr::new: the `for token in tokenize(..)` header is restated as `advance_token until Eof` (tokenize's text is guarded); loop body and tail expression copied from /repo into c14_chain_table_from_tokens")]
    else:
        U.new_pieces = ('        let tt = slice_token_text(text, conv.offset, token.len);\n        conv.extend_token(&token.kind, tt);', 'conv.finalize_with_eof()')
    if not _mn:
      x.guard('new', "pub fn new(text: &'a str) -> LexedStr<'a> { let mut conv = Converter::new(text); for token in oq3_lexer::tokenize(&text[conv.offset..]) { let token_text = &text[conv.offset..][..token.len as usize]; conv.extend_token(&token.kind, token_text); } conv.finalize_with_eof() }",
              impl=r"LexedStr<'a>", why='the chain lemma c14_chain_table_from_tokens restates this loop')
    U.raw(open(__file__.replace('units/lex.py', 'contracts/lex.lemmas.rs')).read().replace('@@NEW_LOOP_BODY@@', U.new_pieces[0]).replace('@@NEW_TAIL@@', U.new_pieces[1]).replace('@@TOKENIZE_CLOSURE_BODY@@', U.tokenize_body), note='lemmas')
    for _fc in (U.file(L), U.file(K), U.file(X)):
        _fc.guard_rest('not under contract in this unit; text pinned (contracts/trusted_hashes.json)',
                       skip=(((r"<'a> LexedStr<'a>", 'new'), ("LexedStr<'a>", 'new')) if (U.new_frame_ok and _fc.rel == X) else ()) + (('tokenize',) if (U.tokenize_frame_ok and _fc.rel == L) else ()))
    U.assumed_dep = [
        'char::is_ascii / is_ascii_digit: documented behaviour (assume_specification)',
        'unicode_xid::is_xid_start/is_xid_continue and unicode_properties::is_emoji_char: uninterpreted tables, plus the ASCII facts of UAX #31 (axiom_xid_start_ascii / axiom_xid_continue_ascii)',
        'derive(Clone/Copy/PartialEq/Eq) on TokenKind, LiteralKind, Base: kept as derives (Verus built-in support)',
    ]
    U.trusted_decl = ["Cursor<'a> is an opaque struct (std::str::Chars inside); its state is modelled by rest/tok/prevc"]
    U.not_verified = ['LexedStr::new: only the `for token in tokenize(..)` header is restated (as "call the iterator\'s next until None"); its prologue, loop body and tail are copied from /repo into c14_chain_table_from_tokens (D37); LexedStr::{as_str,error,errors} (closures / binary_search_by_key)',
                      'tokenize: the `Cursor::new(input)` + `std::iter::from_fn(move || ..)` frame is matched textually; the closure body is copied from /repo into oq3_tokenize_next and verified against the contract of the iterator\'s next (D37)',
                      'Cursor::new (str::chars)', 'oq3_lexer::unescape (not used by the token table)']
    return U
