"""LEX stage B: exact extents and flags of numeric literals (C15 maximal munch, C11 flags).
Returns {function name: (extra requires, extra ensures, kwargs)} for the `scanner(..)` helper."""

HEAD = ('{', 'after', 'broadcast use lex_lemmas;')
LOOP_GHOST_DEC = '''broadcast use lex_lemmas;
let ghost k0 = eaten(*old(self), *self);
proof {
    let s = old(self).rest();
    assert(self.rest() == s.skip(k0));
    if self.rest().len() > 0 {
        assert(s.take(k0 + 1) =~= s.take(k0).push(s[k0]));
        %s(s.take(k0), s[k0]);
        assert(self.rest().skip(1) =~= s.skip(k0 + 1));
        assert(self.rest()[0] == s[k0]);
    }
}'''
INIT = ('let mut has_digits = false;', 'after',
        'proof { assert(old(self).rest().take(0) =~= Seq::<char>::empty()); assert(old(self).rest().skip(0) =~= old(self).rest()); }')


def digits(run, has, push_lemma):
    ens = '''
    // maximal munch: exactly the longest run of digits/underscores; true iff it contains a digit
    eaten(*old(self), *final(self)) == %(run)s(old(self).rest()),                                      //@C15:digits-maximal-munch
    r == %(has)s(old(self).rest().take(%(run)s(old(self).rest()) as int)),                             //@C11,C15:has-digits-flag
''' % dict(run=run, has=has)
    loop = '''invariant advanced(*old(self), *self),
    %(run)s(old(self).rest()) == eaten(*old(self), *self) + %(run)s(self.rest()),
    has_digits == %(has)s(old(self).rest().take(eaten(*old(self), *self))),
ensures advanced(*old(self), *self), eaten(*old(self), *self) == %(run)s(old(self).rest()),
    has_digits == %(has)s(old(self).rest().take(%(run)s(old(self).rest()) as int)),
decreases self.rest().len(),''' % dict(run=run, has=has)
    return ('', ens, dict(ret='r', loops={1: loop}, ghost=[HEAD, INIT], loop_ghost=LOOP_GHOST_DEC % push_lemma))


STEP = 'proof { lemma_advanced_refl(*self); lemma_step(c0, cur, *self); cur = *self; }'
RET_T = STEP + ' proof { assert(num_spec(first_digit, c0.rest()) == (LiteralKind::Int { base, empty_int: true }, eaten(c0, *self))) by { reveal(num_spec); } }    //@C15,C11:number-shape-and-flags'
RET_F = STEP + ' proof { assert(c0.rest().skip(0) =~= c0.rest()); assert(num_spec(first_digit, c0.rest()) == (LiteralKind::Int { base, empty_int: false }, eaten(c0, *self))) by { reveal(num_spec); } }    //@C15,C11:number-shape-and-flags'
BOUNDARY = STEP + '''
let ghost s0 = c0.rest();
let ghost pos1 = eaten(c0, *self);
proof {
    assert(s0.skip(0) =~= s0);
    assert(num_spec(first_digit, s0) == frac_exp_spec(base, s0, pos1)) by { reveal(num_spec); }    //@C15,C11:number-shape-and-flags
}'''
FLOAT_TAIL = '                Float {\n                    base,\n                    empty_exponent,\n                }'
FLOAT_OK = 'proof { lemma_advanced_refl(*self); lemma_step(c0, cur, *self); assert(frac_exp_spec(base, s0, pos1) == (LiteralKind::Float { base, empty_exponent }, eaten(c0, *self))) by { reveal(frac_exp_spec); } }    //@C15,C11:number-shape-and-flags'
INT_ARM_OLD = '            _ => Int {\n                base,\n                empty_int: false,\n            },\n        }\n    }'
INT_ARM_NEW = ('            _ => { proof { lemma_advanced_refl(*self); lemma_step(c0, cur, *self); assert(frac_exp_spec(base, s0, pos1) == (LiteralKind::Int { base, empty_int: false }, pos1)) by { reveal(frac_exp_spec); } /*@C15*/ } Int {\n'
               '                base,\n                empty_int: false,\n            } },\n        }\n    }')
RET_T_ANCHOR = '                        return Int {\n                            base,\n                            empty_int: true,'
RET_F_ANCHOR = '                    return Int {\n                        base,\n                        empty_int: false,'


def number():
    ens = '''
    // class, base, malformedness flag and extent are those of the OpenQASM 3 numeric-literal syntax
    (r, eaten(*old(self), *final(self))) == num_spec(first_digit, old(self).rest()),                  //@C15,C11:number-shape-and-flags
'''
    g = [('{', 'after', 'let ghost c0 = *self; let ghost mut cur = *self; proof { lemma_advanced_refl(c0); }'),
         # the phase boundary first (its anchor must still be intact)
         ('            self.eat_decimal_digits();\n        };\n', 'after', BOUNDARY)]
    for k in range(1, 7):
        g.append(('self.bump();', 'after', STEP, k))
    for k in (1, 2):
        g.append(('self.eat_decimal_digits();', 'after', STEP, k))
    g.append(('self.eat_decimal_digits();', 'after', STEP + '\nlet ghost p2 = pos1 + 1 + run_dec(s0.skip(pos1 + 1));\nproof { assert(eaten(c0, *self) == p2); }', 3))
    for k in (1, 2, 3):
        g.append((RET_T_ANCHOR, 'before', RET_T, k))
    g.append((RET_F_ANCHOR, 'before', RET_F, 1))
    g.append(('empty_exponent = !self.eat_float_exponent();', 'after', STEP, 1))
    g.append(('let empty_exponent = !self.eat_float_exponent();', 'after', STEP, 1))
    for k in (1, 2):
        g.append((FLOAT_TAIL, 'before', FLOAT_OK, k))
    return (" '0' <= old(self).prevc() <= '9', first_digit == old(self).prevc(),", ens,
            dict(ret='r', attrs=['#[verifier::rlimit(60)]'], rewrites=[('GHOST-block-arm', INT_ARM_OLD, INT_ARM_NEW)], ghost=g))


def entries():
    e = {}
    e['eat_decimal_digits'] = digits('run_dec', 'has_dec', 'lemma_has_dec_push')
    e['eat_hexadecimal_digits'] = digits('run_hex', 'has_hex', 'lemma_has_hex_push')
    e['eat_float_exponent'] = (" old(self).prevc() == 'e' || old(self).prevc() == 'E',", '''
    // optional sign, then the longest run of digits/underscores; true iff at least one digit
    eaten(*old(self), *final(self)) == exponent_spec(old(self).rest()).0,                             //@C15:exponent-maximal-munch
    r == exponent_spec(old(self).rest()).1,                                                            //@C11:empty-exponent-iff-no-digit
''', dict(ret='r', ghost=[HEAD, ("            self.bump();\n        }\n", 'after', '''proof {
    let s = old(self).rest();
    let sg = eaten(*old(self), *self);
    assert(self.rest() == s.skip(sg));
    assert(sg == (if s.len() > 0 && (s[0] == '-' || s[0] == '+') { 1int } else { 0int }));
    assert(s.skip(0) =~= s);
}''')]))
    e['float_with_no_leading_digit'] = (" '0' <= peek(*old(self)) <= '9',", '''
    (r, eaten(*old(self), *final(self))) == dot_float_spec(old(self).rest()),                          //@C15,C11:float-shape-and-flag
''', dict(ret='r'))
    e['number'] = number()
    return e
