"""SYNX — oq3_syntax/src/parsing.rs (lex, gate on lexical diagnostics, parse, build the tree) and the
conversion of lexical diagnostics   (C11 gate, C02 entry points, C12 lexical ranges, C01)"""
from vlib.unit import Unit

PARSING = 'crates/oq3_syntax/src/parsing.rs'
PLIB = 'crates/oq3_parser/src/lib.rs'
P = ['C11', 'C02', 'C12', 'C01']


def build():
    U = Unit('SYNX', props=P)
    U.default_closures = True     # rule-based D3/D16 (vlib/closures.py) applies to every function of this unit
    U.tag_loops = True
    U.raw(open(__file__.replace('units/synx.py', 'contracts/synx.prelude.rs')).read())
    U.file(PLIB).item('enum', 'TopEntryPoint')
    U.raw('''impl TopEntryPoint {
    /// unit PARSER (every grammar function returns normally on every input) + event::process: the
    /// output encodes a tree over exactly the tokens of the input
    #[verifier::external_body] pub fn parse(&self, input: &Input) -> (r: Output)
        ensures r.of() == input.of(), r.entry_is_source_file() == (*self is SourceFile),
    { unimplemented!() }
}
}
''')
    # SyntaxError is the real tuple struct of syntax_error.rs (its derives are dropped: no verified body uses them)
    import re as _re, os as _os
    from vlib.unit import REPO as _REPO
    _se = open(_os.path.join(_REPO, 'crates/oq3_syntax/src/syntax_error.rs')).read()
    _m = _re.search(r'pub struct SyntaxError\(([^)]*)\);', _se)
    _fields = [t.strip() for t in _m.group(1).split(',')] if _m else ['String', 'TextRange']
    U.raw(open(__file__.replace('units/synx.py', 'contracts/synx.prelude2.rs')).read().replace(
        '@@SYNTAX_ERROR_STRUCT@@', 'pub struct SyntaxError(%s);      // syntax_error.rs (fields made visible to specifications)' % ', '.join('pub ' + t for t in _fields)))
    se = U.file('crates/oq3_syntax/src/syntax_error.rs')
    se.impl('SyntaxError', [
        ('with_range', dict(ret='r', props=P, mut_self=True, spec='ensures r.1 == range, r.0 == self.0,')),
        ('range', dict(ret='r', props=P, spec='ensures r == self.1,                 //@C12:range-of-the-diagnostic')),
    ])
    # source_file.rs: the reporting interface hands out the diagnostic's own range
    sf = U.file('crates/oq3_source_file/src/source_file.rs')
    sf.item('trait', 'ErrorTrait')
    sf.impl('ErrorTrait for oq3_syntax::SyntaxError', [
        ('message', dict(props=P, trusted=True, note='&str -> String (to_string)')),
        ('range', dict(ret='r', props=P, spec='ensures r == self.1,                 //@C12:reported-range-is-the-range-of-the-diagnostic')),
    ])
    f = U.file(PARSING)
    SUB = [('D13', 'oq3_parser::', 'oq3_parser::')]

    def rw(text_count):
        return [('D13', 'oq3_parser::', 'oq3_parser::', text_count)]
    f.fn('build_tree', ret='r', props=P, trusted=True, 
         note='FnMut sink closure over rowan\'s GreenNodeBuilder: not verified; contract = unit SHORT (the steps cover the text) + rowan builder',
         spec='''ensures
    r.0.text() == lexed.src(), r.0.is_source_file() == parser_output.entry_is_source_file(),
    // the lexical diagnostics are appended after the syntactic ones
    r.1@.len() >= lexed.err_tokens().len(),
    lexed.err_tokens().len() > 0 ==> r.1@.len() > 0,''')
    f.fn('lexer_errors_to_syntax_errors', ret='r', props=P, rewrites=[
        ('D18', 'for (i, err) in lexed.errors() {', 'let mut oq3_it1 = lexed.errors();\n    loop {\n    match oq3_it1.next() { None => { break; } Some((i, err)) => {'),
        ('D18', '        errors.push(SyntaxError::new(err, text_range))\n    }', '        errors.push(SyntaxError::new(err, text_range))\n    } } }'),
    ], loops={1: '''invariant
    errors@.len() + oq3_it1.rest().len() == lexed.err_tokens().len(),
    oq3_it1.rest() =~= lexed.err_tokens().skip(errors@.len() as int),
    forall|k: int| 0 <= k < lexed.err_tokens().len() ==> #[trigger] lexed.err_tokens()[k] < lexed.ntok(),
    forall|i: nat| i < lexed.ntok() ==> (#[trigger] lexed.range_of(i)).0 <= lexed.range_of(i).1 && lexed.range_of(i).1 <= lexed.blen() && lexed.blen() <= u32::MAX,
    forall|k: int| 0 <= k < errors@.len() ==> #[trigger] in_text(errors@[k], lexed.blen()),
ensures oq3_it1.rest().len() == 0,
decreases oq3_it1.rest().len(),'''},
         spec='''requires
    forall|k: int| 0 <= k < lexed.err_tokens().len() ==> #[trigger] lexed.err_tokens()[k] < lexed.ntok(),
    forall|i: nat| i < lexed.ntok() ==> (#[trigger] lexed.range_of(i)).0 <= lexed.range_of(i).1 && lexed.range_of(i).1 <= lexed.blen() && lexed.blen() <= u32::MAX,
ensures
    // one syntax error per lexical diagnostic, each with start <= end <= length of the text
    r@.len() == lexed.err_tokens().len(),                                                          //@C11:lexical-diagnostics-kept
    forall|k: int| 0 <= k < r@.len() ==> #[trigger] in_text(r@[k], lexed.blen()),                  //@C12:lexical-ranges-in-text''')
    f.fn('parse_text', ret='r', props=P,  spec='''ensures
    r.0.text() == openqasm_code_text@,                                                             //@C02:tree-spells-the-input
    r.0.is_source_file(),''')
    f.fn('parse_text_check_lex', ret='r', props=P,  spec='''ensures
    // the tree is withheld exactly when lexing produced a diagnostic; then all diagnostics are lexical
    r.0 is None ==> r.1@.len() > 0,                                                                //@C11:tree-withheld-iff-lexical-diagnostic
    r.0 is Some ==> r.0->Some_0.text() == openqasm_code_text@ && r.0->Some_0.is_source_file(),     //@C02:tree-spells-the-input
    exists|l: oq3_parser::LexedStr| l.src() == openqasm_code_text@ && (r.0 is None) == (l.err_tokens().len() > 0)
        && (r.0 is None ==> r.1@.len() == l.err_tokens().len()),                                    //@C11:tree-withheld-iff-lexical-diagnostic''')
    U.assumed_dep = ['LexedStr::new / errors_is_empty / text_range / to_input, TopEntryPoint::parse: contracts proved in units LEX, SHORT, PARSER, restated over a ghost view',
                     'rowan / text-size: TextRange::new asserts start <= end; TextSize::try_from(usize) fails iff the value exceeds u32',
                     'build_tree (FnMut sink over GreenNodeBuilder): assumed to build a tree that spells the lexed text (unit SHORT proves the steps cover it)']
    U.not_verified = ['build_tree (closure passed as &mut dyn FnMut)', 'SourceFile::parse / parse_check_lex (Arc, PhantomData, validation::validate)']
    return U
