"""SYNX — oq3_syntax/src/parsing.rs (lex, gate on lexical diagnostics, parse, build the tree) and the
conversion of lexical diagnostics   (C11 gate, C02 entry points, C12 lexical ranges, C01)"""
from vlib.unit import Unit

PARSING = 'crates/oq3_syntax/src/parsing.rs'
PLIB = 'crates/oq3_parser/src/lib.rs'
P = ['C11', 'C02', 'C12', 'C01']


def build():
    U = Unit('SYNX', props=P)
    U.default_closures = True     # rule-based D3/D16 (vlib/closures.py) applies to every function of this unit
    U.tag_loops = True
    U.raw(open(__file__.replace('units/synx.py', 'contracts/synx.prelude.rs')).read())
    U.file(PLIB).item('enum', 'TopEntryPoint')
    U.raw('''impl TopEntryPoint {
    /// unit PARSER (every grammar function returns normally on every input) + event::process: the
    /// output encodes a tree over exactly the tokens of the input
    #[verifier::external_body] pub fn parse(&self, input: &Input) -> (r: Output)
        ensures r.of() == input.of(), r.entry_is_source_file() == (*self is SourceFile),
    { unimplemented!() }
}
}
''')
    # SyntaxError is the real tuple struct of syntax_error.rs (its derives are dropped: no verified body uses them)
    import re as _re, os as _os
    from vlib.unit import REPO as _REPO
    _se = open(_os.path.join(_REPO, 'crates/oq3_syntax/src/syntax_error.rs')).read()
    _m = _re.search(r'pub struct SyntaxError\(([^)]*)\);', _se)
    _fields = [t.strip() for t in _m.group(1).split(',')] if _m else ['String', 'TextRange']
    U.raw(open(__file__.replace('units/synx.py', 'contracts/synx.prelude2.rs')).read().replace(
        '@@SYNTAX_ERROR_STRUCT@@', 'pub struct SyntaxError(%s);      // syntax_error.rs (fields made visible to specifications)' % ', '.join('pub ' + t for t in _fields)))
    se = U.file('crates/oq3_syntax/src/syntax_error.rs')
    se.impl('SyntaxError', [
        # `message: impl Into<String>` is written as a named type parameter (same meaning; Verus has no argument-position impl Trait)
        ('new', dict(ret='r', props=P, rewrites=[('D35', 'pub fn new(message: impl Into<String>', 'pub fn new<M: Into<String>>(message: M')], spec='ensures r.1 == range,')),
        ('new_at_offset', dict(ret='r', props=P, rewrites=[('D35', 'pub fn new_at_offset(message: impl Into<String>', 'pub fn new_at_offset<M: Into<String>>(message: M')],
            spec='ensures r.1.start == offset, r.1.end == offset,      //@C12:diagnostic-at-an-offset-is-the-empty-range-there')),
        ('with_range', dict(ret='r', props=P, mut_self=True, spec='ensures r.1 == range, r.0 == self.0,')),
        ('range', dict(ret='r', props=P, spec='ensures r == self.1,                 //@C12:range-of-the-diagnostic')),
    ])
    # syntax_node.rs: SyntaxTreeBuilder hands the token texts to rowan's GreenNodeBuilder verbatim (C02) and records parser
    # diagnostics at the offset it is given (C12)
    U.file('crates/oq3_parser/src/syntax_kind/syntax_kind_enum.rs').item('enum', 'SyntaxKind')
    U.file('crates/oq3_parser/src/shortcuts.rs').item('enum', 'StrStep')
    U.file('crates/oq3_parser/src/syntax_kind.rs').impl('SyntaxKind', [('is_trivia', dict(ret='r', props=P, spec='ensures r == (self is WHITESPACE || self is COMMENT),'))])
    U.raw('''pub mod rowan_green {
    use vstd::prelude::*;
    use super::GreenNode;
    /// rowan::GreenNodeBuilder (external crate, trusted): `spelled()` is the concatenation of the token texts it was given, in order;
    /// the finished tree spells exactly that
    #[verifier::external_body] pub struct GreenNodeBuilder<'a> { _p: std::marker::PhantomData<&'a u8> }
    #[verifier::external_body] pub struct RawKind { _p: u16 }
    impl<'a> GreenNodeBuilder<'a> {
        pub uninterp spec fn spelled(&self) -> Seq<char>;
        #[verifier::external_body] pub fn token(&mut self, kind: RawKind, text: &str) ensures final(self).spelled() == old(self).spelled() + text@ { unimplemented!() }
        #[verifier::external_body] pub fn start_node(&mut self, kind: RawKind) ensures final(self).spelled() == old(self).spelled() { unimplemented!() }
        #[verifier::external_body] pub fn finish_node(&mut self) ensures final(self).spelled() == old(self).spelled() { unimplemented!() }
        #[verifier::external_body] pub fn finish(self) -> (r: GreenNode) ensures r.text() == self.spelled() { unimplemented!() }
    }
}
use rowan_green::GreenNodeBuilder;
/// syntax_node.rs: `impl Language for OpenQASM3Language` (kind <-> rowan's raw u16 kind)
pub struct OpenQASM3Language {}
impl OpenQASM3Language { #[verifier::external_body] pub fn kind_to_raw(kind: SyntaxKind) -> (r: rowan_green::RawKind) { unimplemented!() } }
''', note='rowan::GreenNodeBuilder (trusted): concatenates the token texts; OpenQASM3Language::kind_to_raw')
    sn = U.file('crates/oq3_syntax/src/syntax_node.rs')
    sn.item('struct', 'SyntaxTreeBuilder')
    sn.impl('SyntaxTreeBuilder', [
        ('finish_raw', dict(ret='r', props=P, spec='ensures r.0.text() == self.inner.spelled(), r.1 == self.errors,      //@C02:tree-spells-the-token-texts')),
        ('token', dict(props=P, spec='ensures final(self).inner.spelled() == old(self).inner.spelled() + text@, final(self).errors == old(self).errors,      //@C02:token-text-passed-on-verbatim')),
        ('start_node', dict(props=P, spec='ensures final(self).inner.spelled() == old(self).inner.spelled(), final(self).errors == old(self).errors,')),
        ('finish_node', dict(props=P, spec='ensures final(self).inner.spelled() == old(self).inner.spelled(), final(self).errors == old(self).errors,')),
        ('error', dict(props=P, spec='''ensures final(self).inner.spelled() == old(self).inner.spelled(),
    // a parser diagnostic is recorded at exactly the offset handed in (an empty range there)
    final(self).errors@.len() == old(self).errors@.len() + 1, final(self).errors@.drop_last() == old(self).errors@,
    final(self).errors@.last().1.start == text_pos && final(self).errors@.last().1.end == text_pos,      //@C12:parser-diagnostic-at-the-given-offset''')),
    ])
    # validation.rs: the one validator that is plain code (the others are closures over match_ast! / unescape callbacks)
    U.raw('''/// opaque view of the typed AST as far as validate_timing_literal needs it (trusted: rowan; node ranges lie inside the text, on char boundaries)
pub mod ast {
    use vstd::prelude::*;
    use super::{TextRange, TextSize};
    #[verifier::external_body] pub struct SyntaxNode { _p: u8 }
    impl SyntaxNode {
        pub uninterp spec fn sp_text_range(&self) -> TextRange;
        #[verifier::external_body] pub fn text_range(&self) -> (r: TextRange) ensures r == self.sp_text_range() { unimplemented!() }
    }
    #[verifier::external_body] pub struct TokenText { _p: u8 }
    impl TokenText {
        pub uninterp spec fn sp_str(&self) -> Seq<char>;
        #[verifier::external_body] pub fn as_str(&self) -> (r: &str) ensures r@ == self.sp_str() { unimplemented!() }
    }
    #[verifier::external_body] pub struct Identifier { _p: u8 }
    impl Identifier {
        #[verifier::external_body] pub fn text(&self) -> (r: TokenText) { unimplemented!() }
        #[verifier::external_body] pub fn syntax(&self) -> (r: &SyntaxNode) { unimplemented!() }
    }
    #[verifier::external_body] pub struct Literal { _p: u8 }
    impl Literal { #[verifier::external_body] pub fn syntax(&self) -> (r: &SyntaxNode) { unimplemented!() } }
    #[verifier::external_body] pub struct TimingLiteral { _p: u8 }
    impl TimingLiteral {
        pub uninterp spec fn sp_syntax(&self) -> SyntaxNode;
        pub uninterp spec fn sp_identifier(&self) -> Option<Identifier>;
        #[verifier::external_body] pub fn syntax(&self) -> (r: &SyntaxNode) ensures *r == self.sp_syntax() { unimplemented!() }
        #[verifier::external_body] pub fn identifier(&self) -> (r: Option<Identifier>) ensures r == self.sp_identifier() { unimplemented!() }
        #[verifier::external_body] pub fn literal(&self) -> (r: Option<Literal>) { unimplemented!() }
    }
}
impl TextSize {
    /// text-size: the UTF-8 length of the text (the conversion to u32 panics beyond u32::MAX)
    #[verifier::external_body] pub fn of(text: &str) -> (r: TextSize) requires text@.len() <= 0x3fff_ffff { unimplemented!() }
}
''', note='ast::{TimingLiteral,Identifier,Literal,SyntaxNode,TokenText} as validate_timing_literal sees them (trusted, rowan)')
    va = U.file('crates/oq3_syntax/src/validation.rs')
    for _fn in ('validate', 'validate_literal'):
        va.guard(_fn, None, why='validation.rs::%s (match_ast! over descendants / unescape callbacks: closures) is not verified; it only adds diagnostics, whose ranges C12 is about' % _fn)
    va.fn('validate_timing_literal', props=P, spec='''
requires old(errors)@.len() < usize::MAX, timing_literal.sp_identifier() is Some /* AP: a TIMING_LITERAL is a literal followed by an identifier */,
ensures
    // nothing already recorded is touched, and a diagnostic for a bad unit carries the range of the whole timing-literal NODE
    // (a node range lies inside the text on character boundaries: rowan)
    final(errors)@.len() >= old(errors)@.len(), final(errors)@.len() <= old(errors)@.len() + 1,
    forall|k: int| 0 <= k < old(errors)@.len() ==> final(errors)@[k] == old(errors)@[k],
    forall|k: int| old(errors)@.len() <= k < final(errors)@.len() ==> (#[trigger] final(errors)@[k]).1 == timing_literal.sp_syntax().sp_text_range(),      //@C12:unit-diagnostic-on-the-node''')
    # oq3_syntax/src/lib.rs: the two public entry points cannot be verified (Parse / ParseOrErrors carry PhantomData<fn() -> T>, a type
    # Verus rejects); they are glue around parse_text / parse_text_check_lex + validation, and their text is pinned
    lb = U.file('crates/oq3_syntax/src/lib.rs')
    for _fn in ('parse', 'parse_check_lex'):
        lb.guard(_fn, None, impl='SourceFile', why='SourceFile::%s is glue around parsing::parse_text(_check_lex) and validation::validate; PhantomData<fn() -> T> is outside the dialect' % _fn)
    # oq3_source_file/src/api.rs: generic plumbing (AsRef<Path>, file system); it hands the text it was given to the parser and the
    # diagnostics to the printer unchanged -- not verified, text pinned
    ap = U.file('crates/oq3_source_file/src/api.rs')
    for _fn in ('parse_source_file', 'parse_source_file_with_search', 'parse_source_string', 'inner_print_compiler_errors'):
        ap.guard(_fn, None, why='api.rs::%s is generic plumbing around the parser / printer: the diagnostics refer to exactly the text handed in' % _fn)
    # source_file.rs: the reporting interface hands out the diagnostic's own range
    sf = U.file('crates/oq3_source_file/src/source_file.rs')
    sf.fn('range_to_span', ret='r', props=P, spec='ensures r.start == range.start.raw, r.end == range.end.raw,      //@C12:printed-span-is-the-range')
    # (SourceTrait::have_syntax_errors is verified in unit SEMA: D40)
    sf.item('trait', 'ErrorTrait')
    sf.impl('ErrorTrait for oq3_syntax::SyntaxError', [
        ('message', dict(props=P, trusted=True, note='&str -> String (to_string)')),
        ('range', dict(ret='r', props=P, spec='ensures r == self.1,                 //@C12:reported-range-is-the-range-of-the-diagnostic')),
    ])
    f = U.file(PARSING)
    SUB = [('D13', 'oq3_parser::', 'oq3_parser::')]

    def rw(text_count):
        return [('D13', 'oq3_parser::', 'oq3_parser::', text_count)]
    # D39 (build_tree): `let mut builder = SyntaxTreeBuilder::default(); let is_eof = lexed.intersperse_trivia(&parser_output, &mut |step| SINK);
    # TAIL`.  The call frame (a closure capturing `&mut builder`, passed as `&mut dyn FnMut`) is outside the dialect and stays a trusted
    # stub; SINK (what happens for ONE step) and TAIL (tree + diagnostics) are copied from /repo into two helper functions and verified.
    _pt = open(_os.path.join(_REPO, PARSING)).read()
    _mb = _re.search(r"let is_eof = lexed\.intersperse_trivia\(&parser_output, &mut \|step\| (match step \{\n.*?\n    \})\);\n\n(    let \(node, mut errors\) = builder\.finish_raw\(\);\n.*?\n    \(node, errors, is_eof\))\n\}\n", _pt, _re.S)
    U.build_tree_frame_ok = bool(_mb) and "let mut builder = SyntaxTreeBuilder::default();\n\n    let is_eof = lexed.intersperse_trivia" in _pt
    if U.build_tree_frame_ok:
        _sink = _mb.group(1).replace('msg.to_string()', 'oq3_msg_to_string(msg)')
        _tail = _mb.group(2).replace('for (i, err) in lexed.errors() {', 'let mut oq3_it1 = lexed.errors();\n    loop\n@@TAIL_INV@@\n    {\n    match oq3_it1.next() { None => { break; } Some((i, err)) => {').replace('        errors.push(SyntaxError::new(err, text_range))\n    }', '        errors.push(SyntaxError::new(err, text_range))\n    } } }')
        _inv = '''        invariant
            errors@.len() + oq3_it1.rest().len() == n0 + lexed.err_tokens().len(),      //@C11,C12:one-diagnostic-per-lexical-error
            errors@.len() >= n0,
            oq3_it1.rest() =~= lexed.err_tokens().skip(errors@.len() - n0),             //@C11,C12:one-diagnostic-per-lexical-error
            errors@.take(n0 as int) == e0,                                              //@C12,C11:syntactic-diagnostics-kept
            forall|k: int| 0 <= k < lexed.err_tokens().len() ==> #[trigger] lexed.err_tokens()[k] < lexed.ntok(),
            forall|i: nat| i < lexed.ntok() ==> (#[trigger] lexed.range_of(i)).0 <= lexed.range_of(i).1 && lexed.range_of(i).1 <= lexed.blen() && lexed.blen() <= u32::MAX,
            forall|k: int| n0 <= k < errors@.len() ==> (#[trigger] errors@[k]).sp_range() == lexed.range_of(lexed.err_tokens()[k - n0] as nat),      //@C11,C12:lexical-diagnostic-on-its-lexeme
        ensures oq3_it1.rest().len() == 0,
        decreases oq3_it1.rest().len(),'''
        U.raw('''/// &str -> String (std: ToString for str)
#[verifier::external_body] fn oq3_msg_to_string(msg: &str) -> (r: String) ensures r@ == msg@ { unimplemented!() }
/// what build_tree does for ONE step handed over by intersperse_trivia: the body of its sink closure, copied from /repo on this run (D39)
fn oq3_build_tree_sink(builder: &mut SyntaxTreeBuilder, step: oq3_parser::StrStep<'_>)
    requires step is Error ==> step->Error_pos <= u32::MAX,       // unit SHORT: an error position is a token start or the end of the text (<= 2^31)
    ensures
        // a token step adds exactly its text to the tree; no other step adds text; only an error step adds a diagnostic,
        // placed at exactly the position handed over
        step is Token ==> final(builder).inner.spelled() == old(builder).inner.spelled() + step->Token_text@ && final(builder).errors == old(builder).errors,      //@C02:token-text-passed-on-verbatim
        (step is Enter || step is Exit) ==> final(builder).inner.spelled() == old(builder).inner.spelled() && final(builder).errors == old(builder).errors,      //@C02,C12:structure-steps-add-nothing
        step is Error ==> final(builder).inner.spelled() == old(builder).inner.spelled() && final(builder).errors@.len() == old(builder).errors@.len() + 1
            && final(builder).errors@.drop_last() == old(builder).errors@
            && final(builder).errors@.last().1.start.raw == step->Error_pos && final(builder).errors@.last().1.end.raw == step->Error_pos,      //@C12:parser-diagnostic-at-the-given-offset
{
    ''' + _sink + '''
}
/// the end of build_tree (tree and diagnostics), copied from /repo on this run (D39)
fn oq3_build_tree_tail(lexed: oq3_parser::LexedStr<'_>, builder: SyntaxTreeBuilder, is_eof: bool) -> (r: (GreenNode, Vec<SyntaxError>, bool))
    requires
        forall|k: int| 0 <= k < lexed.err_tokens().len() ==> #[trigger] lexed.err_tokens()[k] < lexed.ntok(),
        forall|i: nat| i < lexed.ntok() ==> (#[trigger] lexed.range_of(i)).0 <= lexed.range_of(i).1 && lexed.range_of(i).1 <= lexed.blen() && lexed.blen() <= u32::MAX,
    ensures
        r.0.text() == builder.inner.spelled(), r.2 == is_eof,                                                  //@C02:tree-spells-the-token-texts
        // the syntactic diagnostics come first, untouched; then one diagnostic per lexical error, on its lexeme
        r.1@.len() == builder.errors@.len() + lexed.err_tokens().len(),                                         //@C11:lexical-diagnostics-kept
        r.1@.take(builder.errors@.len() as int) == builder.errors@,                                            //@C12,C11:syntactic-diagnostics-kept
        forall|k: int| builder.errors@.len() <= k < r.1@.len() ==> (#[trigger] r.1@[k]).sp_range() == lexed.range_of(lexed.err_tokens()[k - builder.errors@.len()] as nat),      //@C11,C12:lexical-diagnostic-on-its-lexeme
{
    let ghost n0 = builder.errors@.len(); let ghost e0 = builder.errors@;
''' + _tail.replace('@@TAIL_INV@@', _inv).replace('let (node, mut errors) = builder.finish_raw();', 'let (node, mut errors) = builder.finish_raw();\n    proof { assert(errors@.take(n0 as int) =~= e0); }') + '''
}
''', note='D39: sink closure body and tail of build_tree copied from /repo')
        U.build_log = getattr(U, 'build_log', []) + [('D39', 'build_tree: sink closure body -> oq3_build_tree_sink, tail -> oq3_build_tree_tail (copied from /repo; the intersperse_trivia call frame stays a trusted stub)')]
    f.fn('build_tree', ret='r', props=P, trusted=True, hash_strip=([_mb.group(1), _mb.group(2)] if U.build_tree_frame_ok else None),
         note='FnMut sink closure over rowan\'s GreenNodeBuilder: not verified; contract = unit SHORT (the steps cover the text) + rowan builder',
         spec='''ensures
    r.0.text() == lexed.src(), r.0.is_source_file() == parser_output.entry_is_source_file(),
    // the lexical diagnostics are appended after the syntactic ones
    r.1@.len() >= lexed.err_tokens().len(),
    lexed.err_tokens().len() > 0 ==> r.1@.len() > 0,''')
    f.fn('lexer_errors_to_syntax_errors', ret='r', props=P, rewrites=[
        ('D18', 'for (i, err) in lexed.errors() {', 'let mut oq3_it1 = lexed.errors();\n    loop {\n    match oq3_it1.next() { None => { break; } Some((i, err)) => {'),
        ('D18', '        errors.push(SyntaxError::new(err, text_range))\n    }', '        errors.push(SyntaxError::new(err, text_range))\n    } } }'),
    ], loops={1: '''invariant
    errors@.len() + oq3_it1.rest().len() == lexed.err_tokens().len(),
    oq3_it1.rest() =~= lexed.err_tokens().skip(errors@.len() as int),
    forall|k: int| 0 <= k < lexed.err_tokens().len() ==> #[trigger] lexed.err_tokens()[k] < lexed.ntok(),
    forall|i: nat| i < lexed.ntok() ==> (#[trigger] lexed.range_of(i)).0 <= lexed.range_of(i).1 && lexed.range_of(i).1 <= lexed.blen() && lexed.blen() <= u32::MAX,
    forall|k: int| 0 <= k < errors@.len() ==> #[trigger] in_text(errors@[k], lexed.blen()),
    forall|k: int| 0 <= k < errors@.len() ==> (#[trigger] errors@[k]).sp_range() == lexed.range_of(lexed.err_tokens()[k] as nat),
ensures oq3_it1.rest().len() == 0,
decreases oq3_it1.rest().len(),'''},
         spec='''requires
    forall|k: int| 0 <= k < lexed.err_tokens().len() ==> #[trigger] lexed.err_tokens()[k] < lexed.ntok(),
    forall|i: nat| i < lexed.ntok() ==> (#[trigger] lexed.range_of(i)).0 <= lexed.range_of(i).1 && lexed.range_of(i).1 <= lexed.blen() && lexed.blen() <= u32::MAX,
ensures
    // one syntax error per lexical diagnostic, each with start <= end <= length of the text
    r@.len() == lexed.err_tokens().len(),                                                          //@C11:lexical-diagnostics-kept
    forall|k: int| 0 <= k < r@.len() ==> #[trigger] in_text(r@[k], lexed.blen()),                  //@C12:lexical-ranges-in-text
    // ... and it is located on its lexeme: exactly the byte range of the token it belongs to
    forall|k: int| 0 <= k < r@.len() ==> (#[trigger] r@[k]).sp_range() == lexed.range_of(lexed.err_tokens()[k] as nat),      //@C11,C12:lexical-diagnostic-on-its-lexeme''')
    f.fn('parse_text', ret='r', props=P,  spec='''ensures
    r.0.text() == openqasm_code_text@,                                                             //@C02:tree-spells-the-input
    r.0.is_source_file(),''')
    f.fn('parse_text_check_lex', ret='r', props=P,  spec='''ensures
    // the tree is withheld exactly when lexing produced a diagnostic; then all diagnostics are lexical
    r.0 is None ==> r.1@.len() > 0,                                                                //@C11:tree-withheld-iff-lexical-diagnostic
    r.0 is Some ==> r.0->Some_0.text() == openqasm_code_text@ && r.0->Some_0.is_source_file(),     //@C02:tree-spells-the-input
    exists|l: oq3_parser::LexedStr| l.src() == openqasm_code_text@ && (r.0 is None) == (l.err_tokens().len() > 0)
        && (r.0 is None ==> r.1@.len() == l.err_tokens().len()),                                    //@C11:tree-withheld-iff-lexical-diagnostic''')
    # everything else these files hold (Display impls, kind <-> raw kind, the rest of source_file.rs / api.rs / validation.rs): read by
    # no contract, pinned so that a change is "no verdict" rather than a silent pass
    _n = 0
    for _fc in (se, sn, sf, ap, f, va):
        _n += _fc.guard_rest('not read by any contract of unit SYNX: text pinned', skip=(('SourceTrait', 'have_syntax_errors'),))
    # oq3_lexer/src/unescape.rs (escape scanning behind validate_literal's callbacks; closures over FnMut): pinned as a whole
    U.file('crates/oq3_lexer/src/unescape.rs').guard_file('escape scanning used by validate_literal (callbacks over FnMut): not verified; pinned as a whole')
    _n += 1
    U.n_pinned = getattr(U, 'n_pinned', 0) + _n
    U.assumed_dep = ['LexedStr::new / errors_is_empty / text_range / to_input, TopEntryPoint::parse: contracts proved in units LEX, SHORT, PARSER, restated over a ghost view',
                     'rowan / text-size: TextRange::new asserts start <= end; TextSize::try_from(usize) fails iff the value exceeds u32',
                     'build_tree (FnMut sink over GreenNodeBuilder): assumed to build a tree that spells the lexed text (unit SHORT proves the steps cover it)']
    U.not_verified = ['validation.rs: validate (match_ast! over descendants), validate_literal (unescape callbacks): closures', 'build_tree (closure passed as &mut dyn FnMut)', 'SourceFile::parse / parse_check_lex (Arc, PhantomData, validation::validate)']
    return U
