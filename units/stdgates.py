"""the names of the standard gate library, read on every run from the string literals of SymbolTable::standard_library_gates"""
import os
import re
from vlib.unit import REPO
from vlib.rustsrc import RustFile


def std_gate_spec():
    rf = RustFile(os.path.join(REPO, 'crates/oq3_semantics/src/symbols.rs'))
    try:
        it = rf.find_fn('standard_library_gates', None, 1)
        names = sorted(set(re.findall(r'"(\w+)"', rf.src[it['header_start']:it['end']])))
    except KeyError:
        names = []
    return ('/// a gate name of the standard library (generated from SymbolTable::standard_library_gates)\n'
            'pub open spec fn std_gate(n: Seq<char>) -> bool { %s }\n' % (' || '.join('n == "%s"@' % n_ for n_ in names) or 'false'))


# the standard gate library of OpenQASM 3 (stdgates.inc) and the OpenQASM 2 gates the implementation adds, with the number of
# angle parameters and of qubits of each -- written from the language documents, not from the code
STD_ARITY = {'p': (1, 1), 'x': (0, 1), 'y': (0, 1), 'z': (0, 1), 'h': (0, 1), 's': (0, 1), 'sdg': (0, 1), 't': (0, 1), 'tdg': (0, 1), 'sx': (0, 1),
             'rx': (1, 1), 'ry': (1, 1), 'rz': (1, 1), 'cx': (0, 2), 'cy': (0, 2), 'cz': (0, 2), 'cp': (1, 2), 'crx': (1, 2), 'cry': (1, 2), 'crz': (1, 2),
             'ch': (0, 2), 'swap': (0, 2), 'ccx': (0, 3), 'cswap': (0, 3), 'cu': (4, 2),
             'CX': (0, 2), 'phase': (1, 1), 'cphase': (1, 2), 'id': (0, 1), 'u1': (1, 1), 'u2': (2, 1), 'u3': (3, 1)}


def std_gate_rows():
    """the rows `(vec![names..], [n_angles, n_qubits])` of SymbolTable::standard_library_gates, read from /repo: [(name, n_cl, n_qu)]"""
    rf = RustFile(os.path.join(REPO, 'crates/oq3_semantics/src/symbols.rs'))
    try:
        it = rf.find_fn('standard_library_gates', None, 1)
    except KeyError:
        return None
    text = rf.src[it['header_start']:it['end']]
    text = re.sub(r'/\*.*?\*/', '', text, flags=re.S)
    rows = []
    for m in re.finditer(r'\(\s*vec!\[([^\]]*)\]\s*,\s*\[\s*(\d+)\s*,\s*(\d+)\s*\]\s*,?\s*\)', text):
        for nm in re.findall(r'"(\w+)"', m.group(1)):
            rows.append((nm, int(m.group(2)), int(m.group(3))))
    # every string literal of the function has to be a gate name of a row this reader understood: a table written in another
    # shape (arrays, a const, a helper) is not a broken table, it is text this reader cannot judge
    text_nc = re.sub(r'//[^\n]*', '', text)
    if not rows or len(re.findall(r'"[^"\n]*"', text_nc)) != len(rows):
        return None
    return rows


def std_gate_arity_obligations():
    """Verus text: the arity table of the language as a spec function, and one assertion per row of the table in /repo"""
    rows = std_gate_rows()
    chain = ' else '.join('if n == "%s"@ { Some((%dnat, %dnat)) }' % (k, a, q) for k, (a, q) in STD_ARITY.items()) + ' else { None }'
    out = ['/// the gates of the standard library with (number of angle parameters, number of qubits): stdgates.inc of OpenQASM 3 and the',
           '/// OpenQASM 2 gates the implementation adds (written from the language documents)',
           'pub open spec fn std_gate_arity(n: Seq<char>) -> Option<(nat, nat)> { %s }' % chain,
           '/// one obligation per row `(names, [angles, qubits])` of SymbolTable::standard_library_gates, generated from the text of /repo on this run',
           'proof fn c09_c13_std_gate_table_rows() {']
    names = sorted(set(list(STD_ARITY) + [r[0] for r in (rows or [])]))
    for n in names:
        out.append('    reveal_strlit("%s"); assert(%s);' % (n, ' && '.join(['"%s"@.len() == %d' % (n, len(n))] + ['"%s"@[%d] == \'%s\'' % (n, i_, c_) for i_, c_ in enumerate(n)])))
    if rows is None:
        out.append('    assert(false);      // the gate table of /repo is not in the shape `(vec![names], [angles, qubits])` this reader understands: undecided, not a verdict')
    else:
        for nm, a, q in rows:
            out.append('    assert(std_gate_arity("%s"@) == Some((%dnat, %dnat)));      //@C09,C13:std-gate-has-the-arity-of-the-library' % (nm, a, q))
        seen = set(r[0] for r in rows)
        for k in STD_ARITY:
            out.append('    assert(%s);      //@C09,C13:std-gate-is-in-the-table   (%s)' % ('true' if k in seen else 'false', k))
        out.append('    assert(%d == %d);      //@C09:no-gate-twice-in-the-table' % (len(rows), len(seen)))
    out.append('}')
    return '\n'.join(out) + '\n'
