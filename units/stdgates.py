"""the names of the standard gate library, read on every run from the string literals of SymbolTable::standard_library_gates"""
import os
import re
from vlib.unit import REPO
from vlib.rustsrc import RustFile


def std_gate_spec():
    rf = RustFile(os.path.join(REPO, 'crates/oq3_semantics/src/symbols.rs'))
    try:
        it = rf.find_fn('standard_library_gates', None, 1)
        names = sorted(set(re.findall(r'"(\w+)"', rf.src[it['header_start']:it['end']])))
    except KeyError:
        names = []
    return ('/// a gate name of the standard library (generated from SymbolTable::standard_library_gates)\n'
            'pub open spec fn std_gate(n: Seq<char>) -> bool { %s }\n' % (' || '.join('n == "%s"@' % n_ for n_ in names) or 'false'))
