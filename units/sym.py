"""SYM — symbols.rs (SymbolId, SymbolTable) + context.rs look-up/bind entry points  (C19, C07)"""
import re
from vlib.unit import Unit

T = 'crates/oq3_semantics/src/types.rs'
S = 'crates/oq3_semantics/src/symbols.rs'
C = 'crates/oq3_semantics/src/context.rs'
E = 'crates/oq3_semantics/src/semantic_error.rs'

WF_PRES = 'final(self).wf()'


def build():
    U = Unit('SYM', props=['C19', 'C07'])
    U.default_closures = True     # rule-based D3/D16 (vlib/closures.py) applies to every function of this unit
    U.tag_loops = True     # loop invariants state property-relevant facts about abstractions: a failing one is reported
    t = U.file(T)
    for k, n in [('enum', 'IsConst'), ('type', 'Width'), ('enum', 'ArrayDims'), ('struct', 'SubroutineDef'), ('enum', 'Type')]:
        t.item(k, n)
    s = U.file(S)
    s.item('enum', 'ScopeType')
    s.item('struct', 'SymbolId')
    s.item('enum', 'SymbolError')
    s.item('type', 'SymbolIdResult')
    s.item('type', 'SymbolRecordResult')
    s.item('struct', 'Symbol')
    s.item('struct', 'SymbolRecord')
    s.item('struct', 'ScopeSymbolTable', attrs=['#[verifier::external_body]'])
    s.item('struct', 'SymbolTable')
    U.file(E).item('enum', 'SemanticErrorKind')
    U.file(E).item('struct', 'SemanticError')
    U.file(E).item('struct', 'SemanticErrorList')
    U.file(C).item('struct', 'Context')
    U.prelude('contracts/sym.prelude.rs')
    from units.stdgates import std_gate_spec, std_gate_arity_obligations
    U.raw(std_gate_spec())
    U.raw(std_gate_arity_obligations(), note='arity table of the standard gate library: one obligation per row of the table in /repo')

    s.impl('SymbolId', [
        ('new', dict(ret='r', props=['C19'], spec='ensures r.0 == 0,')),
        ('post_increment', dict(ret='r', props=['C19'], spec='''
requires old(self).0 < usize::MAX,
ensures r.0 == old(self).0, final(self).0 == old(self).0 + 1,''')),
    ])
    s.impl('Default for SymbolId', [('default', dict(ret='r', props=['C19'], spec='ensures r.0 == 0,'))])
    s.impl('Symbol', [
        ('new', dict(ret='r', props=['C19'], trusted=True, note='generic T: ToString; `name.to_string()`',
                     spec='ensures r.name@ == to_string_spec(name), r.typ == *typ,')),
        ('name', dict(ret='r', props=['C19'], trusted=True, note='&String -> &str deref coercion', spec='ensures r@ == self.name@,')),
    ])
    s.impl(r"SymbolRecord<'_>", [
        ('new', dict(ret='r', props=['C19'], spec='ensures r.symbol == symbol, r.symbol_id == symbol_id,')),
        ('symbol_id', dict(ret='r', props=['C19'], spec='ensures r == self.symbol_id,')),
    ])
    s.impl('ScopeSymbolTable', [
        ('new', dict(ret='r', trusted=True, props=['C19'], note='hashbrown::HashMap::new',
                     spec='ensures r.map() =~= Map::<Seq<char>, SymbolId>::empty(), r.stype() == scope_type,')),
        ('insert', dict(trusted=True, props=['C19'], note='hashbrown::HashMap::insert',
                        spec='ensures final(self).map() =~= old(self).map().insert(to_string_spec(name), sym), final(self).stype() == old(self).stype(),')),
        ('get_symbol_id', dict(ret='r', trusted=True, props=['C19'], note='hashbrown::HashMap::get',
                               spec='''ensures (r is Some) == self.map().contains_key(name@), r is Some ==> *r->Some_0 == self.map()[name@],''')),
        ('len', dict(ret='r', trusted=True, props=['C19'], note='hashbrown::HashMap::len', spec='ensures r == self.map().len(),')),
        ('contains_name', dict(ret='r', trusted=True, props=['C19'], note='hashbrown::HashMap::contains_key',
                               spec='ensures r == self.map().contains_key(name@),')),
        ('scope_type', dict(ret='r', trusted=True, props=['C19'], note='field of an external_body struct', spec='ensures r == self.stype(),')),
    ])

    NEWB = [
        # the store is append-only and the new symbol carries exactly (name, typ)
        'final(self).store() =~= old(self).store().push(final(self).store().last())',
        'sym_of(name@, *typ, final(self).store().last())',
        # the id is the old size of the store: unique, never reused
        'r.0 == old(self).store().len()',
        # exactly the innermost scope gains exactly this binding
        'final(self).scopes() =~= old(self).scopes().update(old(self).depth() - 1, old(self).scopes().last().insert(name@, r))',
        'final(self).scope_types() =~= old(self).scope_types()',
        'final(self).wf()',
    ]
    NEWB_POST = '\n' + '\n'.join('    %s,' % c for c in NEWB)
    NEWB_OK = '({ let r = r->Ok_0; ' + ' && '.join('(%s)' % c for c in NEWB) + ' })'

    s.impl('SymbolTable', [
        ('number_of_scopes', dict(ret='r', props=['C19'], spec='ensures r == self.depth(),')),
        ('enter_scope', dict(props=['C19', 'C07', 'C03'], spec='''
requires
    old(self).wf_core(),
    !(scope_type == ScopeType::Global && old(self).depth() > 0),      // the `panic!` of the body
    (scope_type == ScopeType::Global) == (old(self).depth() == 0),
ensures
    final(self).scopes() =~= old(self).scopes().push(Map::<Seq<char>, SymbolId>::empty()),
    final(self).scope_types() =~= old(self).scope_types().push(scope_type),
    final(self).store() =~= old(self).store(), final(self).counter() == old(self).counter(),
    final(self).wf(),''')),
        ('exit_scope', dict(props=['C19', 'C07', 'C03'], spec='''
requires old(self).wf(), old(self).depth() > 1,                      // the `assert!` of the body
ensures
    // exactly the innermost scope's bindings disappear; ids keep denoting the same symbols
    final(self).scopes() =~= old(self).scopes().drop_last(),
    final(self).scope_types() =~= old(self).scope_types().drop_last(),
    final(self).store() =~= old(self).store(), final(self).counter() == old(self).counter(),
    final(self).wf(),''')),
        ('new_binding_no_check', dict(ret='r', props=['C19', 'C07'], spec='''
requires old(self).wf(), old(self).room(),
ensures''' + NEWB_POST,
            ghost=[('let symbol = Symbol::new(name, typ);', 'before', 'broadcast use to_string_spec_str;'),
                   ('current_symbol_id\n', 'before', '''proof {
    let st0 = old(self).scope_symbol_table_stack@;
    let st1 = self.scope_symbol_table_stack@;
    assert(st1.len() == st0.len());
    assert(forall|i: int| 0 <= i < st0.len() - 1 ==> st1[i] == st0[i]);     //@C19,C07:bind-touches-only-innermost-scope
    assert(st1.last().map() == st0.last().map().insert(name@, current_symbol_id));   //@C19,C07:bind-goes-to-innermost-scope
    assert(self.all_symbols@ == old(self).all_symbols@.push(symbol));
    assert forall|i: int, n: Seq<char>| 0 <= i < st1.len() && #[trigger] st1[i].map().contains_key(n) implies
                st1[i].map()[n].0 < self.all_symbols@.len() && self.all_symbols@[st1[i].map()[n].0 as int].name@ == n by {
        if i < st1.len() - 1 { assert(st1[i] == st0[i]); assert(st0[i].map().contains_key(n)); }
        else { if n == name@ {} else { assert(st0[i].map().contains_key(n)); } }
    }
}''')])),
        # flat_map / filter closures with a side effect (`new_binding` in the filter): not verified; what the include needs of it
        ('standard_library_gates', dict(ret='r', props=['C07', 'C09', 'C13'], trusted=True, hash_strip=[re.compile(r'\(\s*vec!\[[^\]]*\]\s*,\s*\[\s*\d+\s*,\s*\d+\s*\]\s*,?\s*\)'), re.compile(r'\bg\d+q\d+p\b')],      # (rows, and the row variables named after their arity)
             note='flat_map / filter closures capturing &mut self (the frame is pinned; the rows of the gate table are checked one by one: c09_c13_std_gate_table_rows)',
                                        spec='''requires old(self).wf(),
ensures final(self).wf(), final(self).depth() == old(self).depth(),
    // every gate of the library is bound afterwards (by this call, or it was bound before: then its name is returned)
    forall|n: Seq<char>| #[trigger] std_gate(n) ==> resolve(final(self).scopes(), n) is Some,''')),
        ('new_binding', dict(ret='r', props=['C19', 'C07', 'C09'], spec='''
requires old(self).wf(), old(self).room(),
ensures
    // fails iff the current scope already has the name, and then changes nothing
    (r is Err) == old(self).scopes().last().contains_key(name@),                     //@C19,C07:bind-fails-iff
    r is Err ==> r == Err::<SymbolId, SymbolError>(SymbolError::AlreadyBound) && *final(self) == *old(self),   //@C19,C07:bind-fail-frame
    r is Ok ==> ''' + NEWB_OK + ''',                                                   //@C19,C07:bind-ok''')),
        ('current_scope_mut', dict(ret='r', props=['C19'], spec='''
requires old(self).scope_symbol_table_stack@.len() >= 1,
ensures
    *r == old(self).scope_symbol_table_stack@.last(),
    final(self).scope_symbol_table_stack@ == old(self).scope_symbol_table_stack@.update(old(self).scope_symbol_table_stack@.len() - 1, *final(r)),
    final(self).all_symbols == old(self).all_symbols, final(self).symbol_id_counter == old(self).symbol_id_counter,''')),
        ('current_scope', dict(ret='r', props=['C19'], spec='''
requires self.depth() >= 1,
ensures r.map() =~= self.scopes().last(), r.stype() == self.scope_types().last(),''')),
        ('current_scope_type', dict(ret='r', props=['C19', 'C13'], spec='requires self.depth() >= 1, ensures r == self.scope_types().last(),')),
        ('in_global_scope', dict(ret='r', props=['C19', 'C13'], spec='requires self.wf(), ensures r == (self.depth() == 1),')),
        ('current_scope_contains_name', dict(ret='r', props=['C19'], spec='requires self.depth() >= 1, ensures r == self.scopes().last().contains_key(name@),')),
        ('len_current_scope', dict(ret='r', props=['C19'], spec='requires self.depth() >= 1, ensures r == self.scopes().last().len(),')),
        ('lookup', dict(ret='r', props=['C19', 'C07'], spec='''
requires self.wf(),
ensures
    // the binding of the innermost open scope that has one
    match r {
        Ok(rec) => resolve(self.scopes(), name@) == Some(rec.symbol_id)
                   && rec.symbol_id.0 < self.store().len() && *rec.symbol == self.store()[rec.symbol_id.0 as int]
                   && rec.symbol.name@ == name@,
        Err(e) => resolve(self.scopes(), name@) is None && e == SymbolError::MissingBinding,
    },                                                                                  //@C19,C07:lookup-innermost
''', loops={1: ('it', '''invariant
    self.wf(),
    it.seq().len() == self.scope_symbol_table_stack@.len(),
    forall|j: int| 0 <= j < it.seq().len() ==> *#[trigger] it.seq()[j] == self.scope_symbol_table_stack@[self.scope_symbol_table_stack@.len() - 1 - j],    //@C19,C07:scopes-walked-innermost-first
    resolve(self.scopes(), name@) == resolve(self.scopes().take(self.scope_symbol_table_stack@.len() - it.index()), name@),    //@C19,C07:lookup-innermost''')},
            ghost=[('for table in', 'before', 'proof { assert(self.scopes().take(self.scopes().len() as int) =~= self.scopes()); }'),
                   ('if let Some(symbol_id) = table.get_symbol_id(name) {', 'before', '''proof {
    let k = self.scope_symbol_table_stack@.len() - it.index();
    assert(self.scopes().take(k).drop_last() =~= self.scopes().take(k - 1));
    assert(self.scopes().take(k).last() == self.scopes()[k - 1]);
    assert(self.scopes()[k - 1] == table.map());
}''')])),
        ('lookup_or_new_binding', dict(ret='r', props=['C19'], spec='''
requires old(self).wf(), old(self).room(),
ensures
    resolve(old(self).scopes(), name@) is Some ==> r == resolve(old(self).scopes(), name@)->Some_0 && *final(self) == *old(self),
    resolve(old(self).scopes(), name@) is None ==> r.0 == old(self).store().len() && sym_of(name@, *typ, final(self).store().last()),
    // ... and then it is a binding in the current scope, exactly as new_binding makes one
    resolve(old(self).scopes(), name@) is None ==> ({ let r = r; ''' + ' && '.join('(%s)' % c for c in NEWB) + ''' }),
    final(self).wf(),''')),
        ('new', dict(ret='r', props=['C19'], spec='''
ensures
    r.wf(), r.depth() == 1,
    // the built-in constants and the built-in gate are present from the start
    resolve(r.scopes(), "pi"@) is Some, resolve(r.scopes(), "π"@) is Some, resolve(r.scopes(), "euler"@) is Some,
    resolve(r.scopes(), "ℇ"@) is Some, resolve(r.scopes(), "tau"@) is Some, resolve(r.scopes(), "τ"@) is Some,
    resolve(r.scopes(), "U"@) is Some,                                                 //@C19:builtins
''', rewrites=[('D7', '''        for const_name in ["pi", "π", "euler", "ℇ", "tau", "τ"] {
            let _ =
                symbol_table.new_binding(const_name, &Type::Float(Some(64), types::IsConst::True));
        }''', '\n'.join('''        { let const_name = "%s";
            let _ =
                symbol_table.new_binding(const_name, &Type::Float(Some(64), types::IsConst::True));
        }''' % n for n in ["pi", "π", "euler", "ℇ", "tau", "τ"]))])),
    ])
    s.impl(r'Index<&SymbolId> for SymbolTable', [
        ('index', dict(ret='r', props=['C19', 'C07'], spec='ensures *r == self.store()[symbol_id.0 as int],')),
    ])
    ef = U.file(E)
    PUSHK = 'final(self).kinds() =~= old(self).kinds().push(%s), final(self).nodes() =~= old(self).nodes().push(%s), final(self).include_errors == old(self).include_errors,'
    ef.impl('SemanticErrorList', [
        ('new', dict(ret='r', props=['C07', 'C12'], spec='ensures r.kinds() =~= Seq::<SemanticErrorKind>::empty(), r.list@.len() == 0, r.include_errors@.len() == 0,')),
        ('push_included', dict(props=['C07', 'C13', 'C08', 'C12'], spec='ensures final(self).list == old(self).list, final(self).include_errors@ == old(self).include_errors@.push(new_errors),')),
        ('insert_error', dict(props=['C07', 'C12'], spec='ensures ' + PUSHK % ('error.error_kind', 'error.node'))),
        ('insert_syntax_node', dict(props=['C07', 'C12'], spec='ensures ' + PUSHK % ('error_kind', 'node'))),
        # exactly one diagnostic of that kind is appended, attached to the syntax node of the AST node given
        ('insert', dict(props=['C07', 'C12'], spec='ensures ' + PUSHK % ('error_kind', 'node.sp_syntax()') + '      //@C07,C12:diagnostic-on-the-node')),
    ])
    ef.impl('SemanticError', [
        ('new', dict(ret='r', props=['C12'], spec='ensures r.error_kind == error_kind, r.node == node,')),
        # C12: the range of a semantic diagnostic is the range of the node it was reported on
        ('range', dict(ret='r', props=['C12'], spec='ensures r == self.node.sp_text_range(),      //@C12:range-of-the-node')),
        ('kind', dict(ret='r', props=['C12', 'C07'], spec='ensures *r == self.error_kind,')),
    ])
    # the reporting interface (oq3_source_file::ErrorTrait) hands out that same range
    U.file('crates/oq3_source_file/src/source_file.rs').item('trait', 'ErrorTrait')
    ef.impl('ErrorTrait for SemanticError', [
        ('message', dict(props=['C12'], trusted=True, note='formats the kind and the node text')),
        ('range', dict(ret='r', props=['C12'], spec='ensures r == self.node.sp_text_range(),      //@C12:reported-range-is-the-range-of-the-node')),
    ])
    s.impl('Default for SymbolTable', [
        ('default', dict(ret='r', props=['C19'], spec='''ensures
    r.wf(), r.depth() == 1,
    resolve(r.scopes(), "pi"@) is Some, resolve(r.scopes(), "π"@) is Some, resolve(r.scopes(), "euler"@) is Some,
    resolve(r.scopes(), "ℇ"@) is Some, resolve(r.scopes(), "tau"@) is Some, resolve(r.scopes(), "τ"@) is Some,
    resolve(r.scopes(), "U"@) is Some,                                                 //@C19:builtins''')),
    ])
    c = U.file(C)
    c.impl('Context', [
        # the context a semantic analysis starts from (the SEMA unit assumes exactly this of Context::new)
        ('new', dict(ret='r', props=['C11', 'C03', 'C07'], spec='''
ensures
    r.symbol_table.wf(), r.symbol_table.depth() == 1,                                      //@C03,C07:fresh-context-global-scope-only
    r.semantic_errors.kinds() =~= Seq::<SemanticErrorKind>::empty(), r.semantic_errors.include_errors@.len() == 0,
    r.program.n_stmts() == 0, r.annotations@.len() == 0,                                   //@C11:fresh-context-is-empty''')),
        # `include "stdgates.inc"`: defines the library unconditionally.  Not verifiable (the Vec<&str> returned by
        # SymbolTable::standard_library_gates keeps `self.symbol_table` mutably borrowed across the loop, so no invariant can
        # mention it): trusted, and its text is pinned (contracts/trusted_hashes.json)
        ('standard_library_gates', dict(props=['C07', 'C09', 'C13'], trusted=True, note='closure chain over a Vec<&str> that keeps self.symbol_table mutably borrowed', spec='''
requires old(self).symbol_table.wf(),
ensures final(self).symbol_table.wf(), final(self).symbol_table.depth() == old(self).symbol_table.depth(),
    forall|n: Seq<char>| #[trigger] std_gate(n) ==> resolve(final(self).symbol_table.scopes(), n) is Some,''')),
        ('push_errors_from_included_file', dict(props=['C11', 'C03'], spec='''
ensures final(self).semantic_errors.list == old(self).semantic_errors.list,
    final(self).semantic_errors.include_errors@ == old(self).semantic_errors.include_errors@.push(errors),
    final(self).symbol_table == old(self).symbol_table, final(self).program == old(self).program, final(self).annotations == old(self).annotations,''')),
        ('push_annotation', dict(props=['C06'], spec='''
ensures final(self).annotations@ == old(self).annotations@.push(annotation), final(self).semantic_errors == old(self).semantic_errors,
    final(self).symbol_table == old(self).symbol_table, final(self).program == old(self).program,''')),
        ('annotations_is_empty', dict(ret='r', props=['C06'], spec='ensures r == (self.annotations@.len() == 0),')),
        ('insert_error', dict(props=['C07', 'C12'], spec='''
ensures final(self).semantic_errors.kinds() =~= old(self).semantic_errors.kinds().push(error_kind),
    final(self).semantic_errors.nodes() =~= old(self).semantic_errors.nodes().push(node.sp_syntax()),                    //@C12:diagnostic-on-the-node
    final(self).semantic_errors.include_errors == old(self).semantic_errors.include_errors,
    final(self).symbol_table == old(self).symbol_table, final(self).program == old(self).program, final(self).annotations == old(self).annotations,''')),
        ('lookup_symbol', dict(ret='r', props=['C07'], spec='''
requires old(self).symbol_table.wf(),
ensures
    final(self).symbol_table == old(self).symbol_table,
    // reported as undefined exactly once iff resolution fails, nothing otherwise
    r is Err ==> final(self).semantic_errors.kinds() == old(self).semantic_errors.kinds().push(SemanticErrorKind::UndefVarError),   //@C07:undef-once
    r is Ok ==> final(self).semantic_errors.kinds() == old(self).semantic_errors.kinds(),                                           //@C07:undef-once
    (r is Ok) == (resolve(old(self).symbol_table.scopes(), name@) is Some),
    r is Ok ==> resolve(old(self).symbol_table.scopes(), name@) == Some(r->Ok_0.symbol_id) && r->Ok_0.symbol.name@ == name@,''')),
        ('lookup_gate_symbol', dict(ret='r', props=['C07', 'C13'], spec='''
requires old(self).symbol_table.wf(),
ensures
    final(self).symbol_table == old(self).symbol_table,
    r is Err ==> final(self).semantic_errors.kinds() == old(self).semantic_errors.kinds().push(SemanticErrorKind::UndefGateError),  //@C07:undef-once
    r is Ok ==> final(self).semantic_errors.kinds() == old(self).semantic_errors.kinds(),                                           //@C07:undef-once
    (r is Ok) == (resolve(old(self).symbol_table.scopes(), name@) is Some),
    r is Ok ==> resolve(old(self).symbol_table.scopes(), name@) == Some(r->Ok_0.symbol_id) && r->Ok_0.symbol.name@ == name@,''')),
        ('new_binding', dict(ret='r', props=['C07', 'C09'], spec='''
requires old(self).symbol_table.wf(), old(self).symbol_table.room(),
ensures
    final(self).symbol_table.wf(),
    (r is Err) == old(self).symbol_table.scopes().last().contains_key(name@),
    // a redeclaration is reported exactly once, and never replaces the first binding
    r is Err ==> final(self).symbol_table == old(self).symbol_table
              && final(self).semantic_errors.kinds().len() == old(self).semantic_errors.kinds().len() + 1
              && final(self).semantic_errors.kinds().drop_last() == old(self).semantic_errors.kinds()
              && final(self).semantic_errors.kinds().last() is RedeclarationError
              && final(self).semantic_errors.kinds().last()->RedeclarationError_0@ == name@,   //@C07:redecl-once
    r is Ok ==> final(self).semantic_errors.kinds() == old(self).semantic_errors.kinds()
              && sym_of(name@, *typ, final(self).symbol_table.store().last())
              && r->Ok_0.0 == old(self).symbol_table.store().len(),                          //@C07:redecl-once''')),
    ])
    U.raw(open(__file__.replace('units/sym.py', 'contracts/sym.lemmas.rs')).read(), note='lemmas')
    for _fc in (U.file(S), U.file(C), U.file(E)):
        # (printing / formatting helpers are not pinned: no property depends on them)
        _fc.guard_rest('not under contract in this unit; text pinned (contracts/trusted_hashes.json)',
                       skip=('print_errors', 'print_errors_no_file', 'print_included_errors', 'dump', 'fmt', 'source_file_path', 'message'))
    U.assumed_dep = [
        'hashbrown::HashMap<String, SymbolId> behaves as a map (insert/get/contains_key/len) — through the six one-line ScopeSymbolTable methods',
        'ToString::to_string on &str returns the same characters (axiom to_string_spec_str)',
        'derive(Clone/PartialEq/Eq/Debug) on the copied types: structural',
        'SemanticErrorList::insert appends one diagnostic of the given kind (rowan node handle opaque)',
    ]
    U.not_verified = ['SymbolTable::{standard_library_gates (trusted contract: binds the whole library),gates,hardware_qubits,dump} (iterator adapters with closures capturing &mut self)',
                      'SymbolErrorTrait / SymbolType impls (closure in Result::map)']
    return U
