"""registry: which units decide which property, and what each check does and does not decide"""

UNITS = ['types', 'sym']

PROPS = {
    'C20': dict(
        units=['types'],
        decided=[
            'promote_types(t,t) == t',
            'promote_types is the join of the tower up to const outside the carve-outs (=> symmetric, upper bound, Void iff no bound)',
            'result const only if both operands const (outside the const carve-outs)',
            'kind never goes down (no carve-out)',
            'can_cast_literal is a superset of "promotion lands on the target" and excludes float/complex->int, complex->float',
            'implicit_cast_type returns the promotion (machine non-const float for integer division)',
        ],
        not_decided=['associativity over triples (three-call relational clause; follows from join outside carve-outs, not stated)'],
        explanation='Verus proves the postconditions of every function of types.rs that promotion depends on, for all types (all widths, dims), no bound.',
    ),
    'C19': dict(
        units=['sym'],
        decided=[
            'representation invariant wf established by SymbolTable::new and preserved by every operation (=> all histories, no length bound)',
            'lookup(n) == resolve(view, n): the binding of the innermost open scope that has one',
            'new_binding fails iff the current scope has the name, then changes nothing; otherwise appends (name,type) with id = old store length and updates exactly the top map',
            'exit_scope drops exactly the top map, store and counter untouched; ids index the store and keep name and type after exit',
            'the seven built-ins resolve after new()',
        ],
        not_decided=['ScopeSymbolTable <-> hashbrown::HashMap (six one-line delegations, trusted)', 'standard_library_gates/gates/hardware_qubits/dump'],
        explanation='Verus proves per-operation contracts over a stack-of-maps view; induction over histories is the invariant.',
    ),
    'C07': dict(
        units=['sym'],
        decided=[
            'C19 contracts (innermost-first resolution, redeclaration only in the current scope, ids index the final table)',
            'Context::lookup_symbol / lookup_gate_symbol push exactly one UndefVarError / UndefGateError iff resolution fails, nothing otherwise, and resolve innermost-first',
            'Context::new_binding pushes exactly one RedeclarationError(name) iff the name is in the current scope and never replaces the first binding',
        ],
        not_decided=['that every construct is wrapped in enter/exit (stmt_to_asg_stmt: closures)', 'gate/def parameter binding (bind_*)',
                     'analysis order initializer-before-binding (SEMA unit, when available)'],
        explanation='Verus; see C19.',
    ),
}
