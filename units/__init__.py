"""registry: which units decide which property, and what each check does and does not decide"""

# claimed in DESIGN.md but whose unit is not built yet: listed under not_applicable until it is
NOT_YET = {
}

UNITS = ['types', 'sym', 'lex', 'parser', 'sema', 'short', 'astx', 'synx']

PROPS = {
    'C20': dict(
        units=['types'],
        decided=[
            'promote_types(t,t) == t',
            'promote_types is the join of the tower up to const outside the carve-outs (=> symmetric, upper bound, Void iff no bound)',
            'result const only if both operands const (outside the const carve-outs)',
            'kind never goes down (no carve-out)',
            'can_cast_literal is a superset of "promotion lands on the target" and excludes float/complex->int, complex->float',
            'implicit_cast_type returns the promotion (machine non-const float for integer division)',
        ],
        not_decided=['associativity over triples (three-call relational clause; follows from join outside carve-outs, not stated)'],
        explanation='Verus proves the postconditions of every function of types.rs that promotion depends on, for all types (all widths, dims), no bound.',
    ),
    'C19': dict(
        units=['sym'],
        decided=[
            'representation invariant wf established by SymbolTable::new and preserved by every operation (=> all histories, no length bound)',
            'lookup(n) == resolve(view, n): the binding of the innermost open scope that has one',
            'new_binding fails iff the current scope has the name, then changes nothing; otherwise appends (name,type) with id = old store length and updates exactly the top map',
            'exit_scope drops exactly the top map, store and counter untouched; ids index the store and keep name and type after exit',
            'the seven built-ins resolve after new()',
        ],
        not_decided=['ScopeSymbolTable <-> hashbrown::HashMap (six one-line delegations, trusted)', 'standard_library_gates/gates/hardware_qubits/dump'],
        explanation='Verus proves per-operation contracts over a stack-of-maps view; induction over histories is the invariant.',
    ),
    'C07': dict(
        units=['sym', 'sema'],
        decided=[
            'C19 contracts (innermost-first resolution, redeclaration only in the current scope, ids index the final table)',
            'Context::lookup_symbol / lookup_gate_symbol push exactly one UndefVarError / UndefGateError iff resolution fails, nothing otherwise, and resolve innermost-first',
            'Context::new_binding pushes exactly one RedeclarationError(name) iff the name is in the current scope and never replaces the first binding',
            'lookup_identifier: id and type of the symbol, or (Err, Type::Undefined) with exactly one UndefVarError',
            'classical declarations bind the name after the type and the initializer were analysed (the binding is the last symbol-table event of the statement)',
            "scope structure of every construct (assertions inside stmt_to_asg_stmt): then / else / while / case / default bodies are analysed in a fresh scope of their own; the for iterable is analysed in the enclosing scope and the loop variable is bound first thing in the loop's own scope; gate / def parameters live in a fresh scope, the gate / def name is bound in the enclosing scope after the body; a def's return type is analysed outside the parameter scope",
            'names that go out of scope are not visible afterwards: after any statement exactly the entry scopes are open, outer scopes are untouched and the current scope has only gained bindings (scoped frame on every analyser function)',
            'only declarations bind: every expression / type / operand function leaves all scopes exactly as they were',
        ],
        not_decided=['typed parameter binding order inside bind_typed_parameter_list (count only)', 'syntax_to_semantic (top-level loop, includes)'],
        explanation='Verus; see C19.',
    ),
    'C14': dict(
        units=['lex'],
        decided=[
            'advance_token: Eof iff input exhausted; otherwise consumes >= 1 char, len == UTF-8 size of the consumed chars (>= 1, char boundary), suffix_start <= len',
            'every lexer loop decreases the remaining input; no arithmetic overflow; every debug_assert holds',
            'chain lemma: the token table has strictly increasing start offsets ending at the input length; EOF only last; every slice index in range',
            'LexedStr accessors: every assert / index / subtraction safe under the table invariant',
        ],
        not_decided=['"lexing the same text twice gives the same stream": follows from purity (safe Rust, no interior mutability: mechanical scan), not proved',
                     'char-boundary precondition of `&self.text[lo..hi]` in range_text (trusted; offsets are sums of UTF-8 sizes of whole chars by the contracts above)',
                     'the 8 Cursor primitives over std::str::Chars (trusted model rest/tok/prevc)'],
        explanation='Verus over the real lexer and token table; all inputs up to 2^31-1 bytes.',
        assumptions=['source text <= 2^31 - 1 bytes (u32 offsets, i32 newline counter)'],
    ),
    'C15': dict(
        units=['lex'],
        decided=[
            'inner_extend_token: every punctuation / comment / whitespace / pragma / annotation / literal-class lexer kind maps to the parser kind of the same meaning; `_` <-> UNDERSCORE',
            'no spurious lexical error on well-formed comment / whitespace / ident / pragma / annotation / version tokens',
            'scanner kind postconditions: line comment, block comment, whitespace, identifier classes; maximal-munch extents: whitespace runs, identifiers (start character + longest run of continue characters), line comments (up to the next line break), strings and nested block comments (see C11), digit runs and exponents',
            'a token starting with a digit is the numeric literal of the OpenQASM 3 syntax (spec function num_spec): class, base, flags and extent by maximal munch; digit runs and exponents are consumed by maximal munch',
            'keyword and type-name tables: from_keyword / from_scalar_type give each of the 45 keyword kinds and 9 type kinds to exactly the spelling its variant name stands for, and None to everything else (table generated from the SyntaxKind variant names, not from the bodies)',
            'inner_extend_token: an identifier-shaped lexeme gets the keyword / type kind of exactly that spelling, `_` is UNDERSCORE, every other spelling is IDENT',
        ],
        not_decided=[
            'lifting per-token facts to arbitrary lexeme sequences',
        ],
        explanation='Verus; per-token classification contracts.',
    ),
    'C11': dict(
        units=['lex', 'synx', 'sema', 'sym'],
        decided=[
            'every malformedness flag of the lexer (unterminated string/bitstring/block comment, empty int, empty exponent, bad version, invalid identifier) yields a non-empty message',
            'Converter::push records it under the index of that very token; nothing is recorded otherwise',
            'strings, bit strings and block comments: `terminated` is set exactly when the closing quote (not escaped) / the `*/` closing the outermost level of the nested comment exists (spec functions str_end / bc_end), the token then ends right after it, and an unterminated one runs to the end of the input',
            'numeric literals: empty_int / empty_exponent are set exactly when the OpenQASM 3 numeric syntax (num_spec) says so: a base prefix without digits, an exponent marker [sign] without digits',
            'Context::new (unit SYM): the context an analysis starts from has only the global scope open, no diagnostics (own or included), no statements and no pending annotations — this is the context analyze_source returns when analysis is gated off',
            'analyze_source (unit SEMA): whenever the source or any included file has a syntax diagnostic (SourceTrait::have_syntax_errors, taken as specified) the result carries a fresh context: empty program, no semantic diagnostics, none for included files; otherwise the analysis runs and the flag is false',
            'parse_text_check_lex (unit SYNX): the tree is withheld exactly when the lexed text has a lexical diagnostic, and then exactly the lexical diagnostics are returned (one syntax error per diagnostic); otherwise the tree of the same text is returned',
        ],
        not_decided=[
            'recursive have_syntax_errors over included files',
            'SourceTrait::have_syntax_errors itself (oq3_source_file): a trait default method that recurses through the impl for SourceFile — Verus rejects this shape ("cyclic self-reference" between the trait declaration and the method body), so it is outside the technique; analyze_source is proved against its specification',
        ],
        explanation='Verus.',
    ),
    'C01': dict(
        units=['lex', 'parser', 'synx'],
        decided=[
            'lexer: every loop decreases the remaining input, advance_token consumes >= 1 char unless at EOF, no arithmetic overflow, every debug_assert holds (all inputs <= 2^31-1 bytes)',
            'token table and parser core: no index / shift / subtraction failure in Converter, LexedStr accessors, Input, TokenSet (kinds >= 128 are never members), Parser',
            'grammar, every function and every token context: each assert!, p.bump(K), unreachable!, u8/u32/usize arithmetic is safe',
            'grammar: every one of the 13 loops strictly decreases the number of remaining tokens on each back edge (=> work bounded by tokens x nesting)',
            'marker discipline: Marker::complete / abandon and CompletedMarker::precede / extend_to are verified against exact contracts on the event list (the `unreachable!()` arms are proved unreachable, indices in bounds, no u32 underflow), and every grammar function is proved to call them only on valid markers: a pending marker refers to a reserved Start slot, a completed one to a completed Start slot; the frame "slots that existed stay what they were" is part of what every grammar function guarantees (contracts generated from the signatures: which markers come in, which go out)',
            'grammar: the mutual recursion terminates: every one of the 92 grammar functions has the measure (remaining tokens at entry, rank) and Verus proves, at every call site, that the callee is entered after a token was consumed or has a smaller rank (rank table found by tools/rank_search.py, re-checked on every run; guards that all callers establish are preconditions of cast_expr, modified_gate_call_expr, array_type_spec; gate_call_expr has a cursor-dependent rank)',
            'parsing.rs: the u32 conversions and TextRange::new of the lexical-diagnostic conversion never fail (unit SYNX)',
        ],
        not_decided=[
            'the loop of the higher-order helper `delimited` (trusted; used once, by call_arg_list): it is assumed to invoke its closure only on parser states reached from its own entry by consuming tokens',
            'DropBomb (every marker is completed or abandoned before it is dropped: an external crate with a Drop impl), event::process (needs "every forward_parent points at a Start event", not carried), TopEntryPoint::parse balance assertions, Builder::enter, rowan tree construction, validation.rs (e.g. Literal::token().unwrap(); its nested `unquote` has a BOUNDED stand-in in the thorough tier only: Kani on the extracted text, every text of <= 3 ASCII bytes — labelled bounded, never counted as proved)',
            'Parser::nth step-limit assertion (unreachable once every loop and recursion makes progress; not proved)',
            'native stack depth',
        ],
        explanation='Verus on the real lexer, token table, parser core and the whole grammar.',
        assumptions=['source text <= 2^31 - 1 bytes', 'Input built by LexedStr::to_input: no EOF kind inside, jointness bits allocated (wf; established in the LEX unit chain lemma / SHORT unit)'],
    ),
    'C05': dict(
        units=['parser', 'astx'],
        decided=[
            'current_op returns, for the operator at the cursor, the binding power and associativity of the table bp_of, and that operator is the composite token actually present (so the following bump consumes exactly it)',
            'outside the three recorded carve-outs bp_of orders the 19 binary operators exactly as the OpenQASM 3 table; all are left-associative; compound assignments are right-associative and lowest',
            'expr_bp parses the right operand of an operator of binding power b with minimum b + 1 if it is left-associative and b if right-associative (so chains of one level nest to the left / right as the table says)',
            "hand-written typed accessors (unit ASTX, over an abstract view of the node's children): while / for body and condition, if condition and bodies, gate angle / qubit parameter lists, callee names of calls and gate calls, binary lhs / rhs, range start / step / stop (2 and 3 children), assignment target and value return the constituent of that role; if then / else bodies when the then-body is a block (recorded finding otherwise)",
        ],
        not_decided=[
            'that the Pratt loop builds the tree the table implies (functional correctness of expr_bp / precede)',
            'generated accessors (support::child one-liners), Gate / Def accessors, token-based accessors (op_details, Literal::kind)',
            'that the node shapes assumed by unit ASTX (children of IF_STMT, WHILE_STMT, FOR_STMT, BIN_EXPR, RANGE_EXPR, ASSIGNMENT_STMT) are what the grammar builds',
        ],
        explanation='Verus: postcondition of current_op against a spec table + lemmas comparing the table with the specification order.',
    ),
    'C12': dict(
        units=['lex', 'parser', 'synx', 'sym', 'short'],
        decided=[
            'lexical diagnostics: token index < number of tokens, ranges start[i]..start[i+1] ordered, in range, on token (= char) boundaries',
            'an ERROR node is only ever completed after an error event has been recorded (precondition of Marker::complete at every call site of the grammar), recorded errors are never lost',
            'parser diagnostics (unit SHORT, intersperse_trivia): every Error step handed to the tree builder is placed at the start of a raw token of the table or at the end of the text (so start <= length, on a character boundary)',
            'semantic diagnostics (unit SYM, semantic_error.rs): SemanticErrorList::insert appends exactly one diagnostic attached to the syntax node of the AST node it was given, and SemanticError::range is the text range of that node',
            'the conversion of lexical diagnostics to syntax errors (parsing.rs): every range has start <= end <= length of the text, TextRange::new / TextSize::try_from never fail (unit SYNX)',
        ],
        not_decided=[
            'escape-validation offsets, ERROR *tokens* without a diagnostic (lexer Unknown -> ERROR kind)',
            '"a diagnostic-free parse contains no error node" as a whole-tree statement',
        ],
        explanation='Verus.',
    ),
    'C03': dict(
        units=['sema', 'sym', 'astx'],
        decided=[
            'every unwrap / panic! / unreachable! / todo! / index site inside the analyser functions under contract (closure-free part of syntax_to_semantics.rs, all of asg.rs) is one of: proved unreachable, assumed-parser (listed accessor / arm assumptions: hold on diagnostic-free trees), or a recorded known finding with a witness program',
            'SymbolTable::exit_scope / enter_scope assertions and Program::set_version / AnnotatedStmt::new panics are preconditions (call sites in unverified functions: not decided)',
            'the statement analyser itself is under contract (stmt_to_asg_stmt, expr_stmt_to_asg_stmt, block_*, list helpers, bind_*; closures desugared by rule D3/D16, with_scope! expanded by its definition D17): every unwrap / unreachable! in it is proved, assumed-parser or a recorded finding; the `unreachable!` of the nested-include arm is PROVED unreachable (blocks are only analysed inside an opened scope)',
            'scopes are balanced: every analyser function leaves exactly the scopes open that were open on entry (scope types equal), so enter_scope / exit_scope preconditions (never Global, never close the global scope) hold at every call site and only the global scope is open after a top-level statement',
            'syntax_to_semantic (the top-level loop, D18/D21/D22 desugarings): every unwrap is proved or assumed-parser, `included_iter.next().unwrap()` is proved from the assumed shape of `included`; it is entered and left with only the global scope open (also through the recursion into included files)',
            'unsupported statement kinds (cal, defcal, extern, let, old-style declarations, measure statement, version line) push exactly one NotImplementedError and yield the null statement / nothing',
        ],
        not_decided=['syntax_to_semantic / analyze_source / parse_* (generic SourceTrait plumbing, include recursion): not verified', 'memory / termination of the recursion over trees', 'source_file.rs include handling', 'hand-written AST accessors outside unit ASTX are total except the recorded ones (assumed); PragmaStatement::pragma_text (string slicing) has a BOUNDED stand-in in the thorough tier only (Kani on the extracted text, keyword + at most 3 ASCII bytes) — labelled bounded, never counted as proved'],
        explanation='Verus over an opaque, mechanically generated AST view (accessors may return anything unless listed as assumed-parser).',
    ),
    'C06': dict(
        units=['sema', 'astx'],
        decided=[
            'binary_op_to_asg_type maps each syntactic operator to the graph operator of the same meaning (carve-out: **)',
            'for every ASG node: a constructor parameter named like a field initialises that field, an accessor named like a field returns it (83 contracts generated from struct definitions and signatures, never from bodies)',
            'Program::insert_stmt appends; gate-call modifiers are kept; an expression that is present is always translated',
            'every statement kind maps to the graph construct of the same meaning (stmt_kind_ok: 29 kinds; include / annotation / version line yield no node); X::to_stmt wraps self in the Stmt variant whose payload type is X (generated from the enum definition)',
            'expression statements: gate call / modified gate call / gphase / plain expression map to GateCall / GateCall or ModifiedGPhaseCall / GPhaseCall / ExprStmt, and gate modifiers keep their kind, count and order',
            'syntax_to_semantic: the statements of the program so far are kept in order and this file only appends (also across includes, which are evaluated in place); pending annotations are attached to the next translated statement (an AnnotatedStmt carrying exactly them) and none stays pending; without pending annotations there is no wrapper',
            'argument lists, qubit operand lists, index lists and parameter lists keep their length (nothing dropped or duplicated); a block yields at most one graph statement per source statement, in iteration order',
        ],
        not_decided=['which translated statement ends up in which role (then / else / body): the translation is not a spec function, so roles are only pinned by constructor / accessor contracts and by the scope assertions', 'annotation attachment / include expansion (syntax_to_semantic: not verified)', 'AST accessor roles (e.g. RangeExpr::start_step_stop, IfStmt bodies): methods over rowan nodes, opaque here'],
        explanation='Verus.',
    ),
    'C08': dict(
        units=['sema', 'types'],
        decided=[
            'literal constructors: int / float / bool / duration / imaginary-float literals have the type of their class, all const (carve-out: imaginary int)',
            'Cast::to_texpr has the target type; MeasureExpression::to_texpr has the bit shape of its operand; UnaryExpr::to_texpr',
            'BinaryExpr::new_texpr_with_cast: result type is the common type (implicit_cast_type = promotion, float for integer division) and each operand has that type or is an explicit cast to exactly it',
            'identifier expressions carry the symbol type (lookup_identifier); equal_up_to_constness is exactly "equal up to const"',
            'kind lowering is always diagnosed (must_diagnose, written from the statement: float -> int, complex -> real, anything to or from bit / bool / duration / stretch / angle / bit register of another kind): on every path of a declaration with initializer and of an assignment to a declared variable a type diagnostic is reported — never stored silently, not even behind a cast (assignment: outside the recorded integer-literal finding); can_cast_literal never allows such a literal cast; across kinds promotion returns exactly the higher-kind operand',
            'declaration rule (classical_declaration_statement_to_asg_stmt): the stored initializer has the declared type up to const, or is an explicit cast to exactly the declared type, or IncompatibleTypesError was reported last (carve-out: const / carve-out-typed non-literal values of another tower type)',
            'assignment rule (assignment_stmt_to_asg_stmt): after the right-hand side, the target is resolved once, at most one type diagnostic follows, the stored value has exactly the variable type or is an explicit cast to it (carve-out: integer literal into a non-uint variable), MutateConstError is appended iff the target is a const symbol',
        ],
        not_decided=['"a width narrowing of a non-constant value is always diagnosed" as a separate clause (kind lowering is decided; narrowing follows for non-const values from the declaration / assignment rules and C20, const values are the recorded carve-out)',
                     'kind lowering when the value is an integer-literal expression assigned to / declared as uint (decided by the sign of the literal; that an integer literal expression is typed int is not an invariant of TExpr)',
                     'types of call / index / range expressions beyond what their constructors assign'],
        explanation='Verus.',
    ),
    'C09': dict(
        units=['sema', 'sym', 'astx'],
        decided=[
            'scalar_type_to_type: base type <-> keyword, const flag = argument, bit[n] / qubit[n] -> one-dimensional registers of length n, width = designator value',
            'designator_to_asg: an integer literal yields exactly its value (carve-out: >= 2^32), any other literal is diagnosed, a const identifier yields its recorded value or InvalidDesignatorError',
            'TryFrom<&TExpr> for u32 accepts only a cast of a non-negative integer literal that fits u32',
            'Context::new_binding / SymbolTable::new_binding store exactly (name, type) (SYM unit)',
            "gate definitions record Type::Gate(number of angle parameters, number of qubit parameters) under the gate's name; subroutine definitions record the number of typed parameters and the declared return type (Void when none written); qubit declarations record Qubit / QubitArray(length as written) — each as the last symbol-table event of the statement",
            'bind_parameter_list declares every parameter, in order, with exactly the given type, and nothing else',
        ],
        not_decided=['types of typed (def) parameters individually (count only)', 'the standard-gate table (flat_map/filter with a side-effecting closure), gates()'],
        explanation='Verus.',
    ),
    'C13': dict(
        units=['sema', 'sym', 'types'],
        decided=[
            'gate_call_expr_to_asg_stmt: after the operands and parameters, exactly [UndefGateError if unresolved] ++ [NumGateParamsError iff Gate(np,_) and np != |params|] ++ [NumGateQubitsError iff nq != |qubits|] / [IncompatibleTypesError iff resolved non-gate] are appended',
            'gate_operand_to_asg_texpr: an identifier operand is reported iff its type is not qubit / hardware qubit / qubit array',
            'Type::is_quantum is exactly {Qubit, QubitArray, HardwareQubit}; is_const exact',
            'expr_to_asg_texpr, BinExpr arm: exactly one IncompatibleTypesError per quantum operand; ReturnExpr arm: ReturnInGlobalScopeError iff in global scope; call_expr_to_asg_texpr: NumDefParamsError iff the argument count differs (in-body tagged assertions)',
            'assignment_stmt_to_asg_stmt: MutateConstError iff the target symbol is const',
            'a qubit declaration, a gate definition and a subroutine definition push NotInGlobalScopeError exactly when they are not in the global scope, and a delay pushes IncompatibleTypesError exactly when its duration expression is not of type duration (assertions inside stmt_to_asg_stmt)',
        ],
        not_decided=['qubit/gate/def/include outside global scope, non-duration delay (arms of stmt_to_asg_stmt: closures)'],
        explanation='Verus.',
    ),
    'C02': dict(
        units=['lex', 'short', 'parser', 'synx'],
        decided=[
            '(a) token lengths are the UTF-8 sizes of the consumed characters and tile the input; (b) the token table ends at the input length (LEX unit chain lemma)',
            '(c) to_input keeps exactly the non-trivia kinds, in order; a token is marked joint iff the very next raw token is not trivia (or it is a float not ending in `.`); the input is well formed and EOF-free',
            '(d) Parser::eat(K) advances by exactly 2 / 3 raw tokens for the composite kinds and only when the pieces are present and glued, 1 otherwise; do_bump is the only writer of pos; the Token event carries that count',
            '(f) Builder: do_token emits exactly one Token step carrying the text of the next n raw tokens; eat_trivias emits every pending trivia token in place; the Token steps handed to the sink cover the raw tokens [0, pos) consecutively (invariant preserved by token / exit / eat_trivias / do_token)',
            '(g) the SourceFile entry point returns with the cursor at the end of the input: every non-trivia token was consumed (postcondition of entry::top::source_file; source_file_contents stops only at EOF, or at `}` when asked to)',
            'intersperse_trivia (D18): every step of the parser output reaches the builder in order; the Token steps handed to the sink are exactly the raw tokens [0, q) of the table with q the position the Token steps lead to (each consumes the pending trivia and exactly its n_input_tokens raw tokens); the `unreachable!` arms are proved from the assumed shape of the output (Enter first, Exit last, no FloatSplit)',
            'both parse entry points lex exactly the text they were given and hand the tree builder the token table and the parser output of that same text (unit SYNX; the builder itself is trusted)',
        ],
        not_decided=[
            '(e) Output encode/decode identity is decided in the thorough tier only (Kani, full domain for one event)',
            'Builder::enter (iterator chain, n_attached_trivias): trusted to emit only pending trivia and the Enter step',
            'event::process keeps the order of Token events; rowan GreenNodeBuilder turns balanced Enter/Token/Exit streams into a tree whose text is the concatenation (external crate)',
        ],
        explanation='Verus: token accounting chain lexer -> LexedStr -> Input -> parser events -> Builder; Kani (thorough): Output encode/decode.',
        kani=True,
    ),
}
