"""registry: which units decide which property, and what each check does and does not decide"""

UNITS = ['types']

PROPS = {
    'C20': dict(
        units=['types'],
        decided=[
            'promote_types(t,t) == t',
            'promote_types is the join of the tower up to const outside the carve-outs (=> symmetric, upper bound, Void iff no bound)',
            'result const only if both operands const (outside the const carve-outs)',
            'kind never goes down (no carve-out)',
            'can_cast_literal is a superset of "promotion lands on the target" and excludes float/complex->int, complex->float',
            'implicit_cast_type returns the promotion (machine non-const float for integer division)',
        ],
        not_decided=['associativity over triples (three-call relational clause; follows from join outside carve-outs, not stated)'],
        explanation='Verus proves the postconditions of every function of types.rs that promotion depends on, for all types (all widths, dims), no bound.',
    ),
}
