"""TYPES — crates/oq3_semantics/src/types.rs + asg.rs::implicit_cast_type  (C20, helper for C08)"""
from vlib.unit import Unit

T = 'crates/oq3_semantics/src/types.rs'
A = 'crates/oq3_semantics/src/asg.rs'

D1_GUARD_OLD = """        (Int(w1, _), Int(w2, _))
        | (UInt(w1, _), UInt(w2, _))
        | (Float(w1, _), Float(w2, _))
        | (Complex(w1, _), Complex(w2, _))
        | (Angle(w1, _), Angle(w2, _))
            if w1 == w2 =>
        {
            true
        }
"""
D1_GUARD_NEW = """        (Int(w1, _), Int(w2, _)) if w1 == w2 => { true }
        (UInt(w1, _), UInt(w2, _)) if w1 == w2 => { true }
        (Float(w1, _), Float(w2, _)) if w1 == w2 => { true }
        (Complex(w1, _), Complex(w2, _)) if w1 == w2 => { true }
        (Angle(w1, _), Angle(w2, _)) if w1 == w2 => { true }
"""


def build():
    U = Unit('TYPES', props=['C20', 'C08'])
    U.default_closures = True     # rule-based D3/D16 (vlib/closures.py) applies to every function of this unit
    add(U)
    return U


def add(U, with_lemmas=True, arith_op=True):
    f = U.file(T)
    f.item('enum', 'IsConst')
    f.item('type', 'Width')
    f.item('enum', 'BaseType')
    f.item('enum', 'ArrayDims')
    f.item('struct', 'SubroutineDef')
    f.item('enum', 'Type')
    if arith_op:
        U.file(A).item('enum', 'ArithOp')
    U.prelude('contracts/types.prelude.rs')

    f.impl('ArrayDims', [
        ('dims', dict(ret='r', props=['C20', 'C08'])),
        ('num_dims', dict(ret='r', props=['C20', 'C08'], spec='''
ensures r == (match *self { ArrayDims::D1(..) => 1usize, ArrayDims::D2(..) => 2usize, ArrayDims::D3(..) => 3usize }),''')),
    ])
    f.impl('Type', [
        ('base_type', dict(ret='r', props=['C20', 'C08'], spec='ensures r == sp_base(*self),      //@C08,C20:base-type-is-the-variant')),
        ('is_scalar', dict(ret='r', props=['C08'], spec='''
ensures r == (*self is Bit || *self is Int || *self is UInt || *self is Float || *self is Angle
              || *self is Complex || *self is Bool || *self is Duration || *self is Stretch),''')),
        ('width', dict(ret='r', props=['C20', 'C08', 'C09'], spec='ensures r == sp_width(*self),')),
        ('is_const', dict(ret='r', props=['C20', 'C08', 'C09', 'C13'], spec='ensures r == sp_is_const(*self),')),
        ('is_quantum', dict(ret='r', props=['C13'], spec='ensures r == (*self is Qubit || *self is QubitArray || *self is HardwareQubit),')),
        ('dims', dict(ret='r', props=['C20', 'C08'])),
        ('num_dims', dict(ret='r', props=['C20', 'C08'], spec='''
ensures r == (match *self {
    Type::QubitArray(d) => (match d { ArrayDims::D1(..) => 1usize, ArrayDims::D2(..) => 2usize, ArrayDims::D3(..) => 3usize }),
    Type::IntArray(d) => (match d { ArrayDims::D1(..) => 1usize, ArrayDims::D2(..) => 2usize, ArrayDims::D3(..) => 3usize }),
    Type::BitArray(d, _) => (match d { ArrayDims::D1(..) => 1usize, ArrayDims::D2(..) => 2usize, ArrayDims::D3(..) => 3usize }),
    _ => 0usize }),''')),
        ('equal_up_to_shape', dict(ret='r', props=['C20', 'C08'], spec='''
ensures r == (*self == *other || (*self is BitArray && *other is BitArray) || (*self is QubitArray && *other is QubitArray)),''')),
        ('equal_up_to_dims', dict(ret='r', props=['C20', 'C08'], spec='''
ensures *self == *other ==> r,''')),
    ])
    f.fn('equal_up_to_constness', ret='r', props=['C20', 'C08'],
         d1=True,
         spec='ensures r == eq_upto_const(*ty1, *ty2),')
    f.fn('equal_base_type', ret='r', props=['C20', 'C08'], spec='''
ensures
    r == same_kind(*ty1, *ty2),                                                        //@C08,C20:same-kind
    r ==> ((*ty1 is Int) == (*ty2 is Int)) && ((*ty1 is UInt) == (*ty2 is UInt)) && ((*ty1 is Float) == (*ty2 is Float))
          && ((*ty1 is Complex) == (*ty2 is Complex)),
    eq_upto_const(*ty1, *ty2) ==> r,
    (*ty1 is Int && *ty2 is Int) || (*ty1 is UInt && *ty2 is UInt) || (*ty1 is Float && *ty2 is Float)
        || (*ty1 is Complex && *ty2 is Complex) ==> r,''')
    f.fn('promote_constness', ret='r', props=['C20', 'C08'], spec='ensures r == c_and(*ty1, *ty2),')
    f.fn('promote_width', ret='r', props=['C20', 'C08'], spec='ensures r == wmax(sp_width(*ty1), sp_width(*ty2)),')
    f.fn('promote_type_width', ret='r', props=['C20', 'C08'], spec='''
ensures
    (*ty1 is Int && *ty2 is Int) ==> r == Type::Int(wmax(sp_width(*ty1), sp_width(*ty2)), c_and(*ty1, *ty2)),
    (*ty1 is UInt && *ty2 is UInt) ==> r == Type::UInt(wmax(sp_width(*ty1), sp_width(*ty2)), c_and(*ty1, *ty2)),
    (*ty1 is Float && *ty2 is Float) ==> r == Type::Float(wmax(sp_width(*ty1), sp_width(*ty2)), c_and(*ty1, *ty2)),
    !((*ty1 is Int && *ty2 is Int) || (*ty1 is UInt && *ty2 is UInt) || (*ty1 is Float && *ty2 is Float)) ==> r == Type::Void,''')
    f.fn('promote_base_type', ret='r', props=['C20', 'C08'], spec='''
ensures
    // cross-kind pairs of the tower: an operand of the higher kind is returned
    (kind_le(*ty1, *ty2) && !kind_le(*ty2, *ty1)) ==> r == *ty2,
    (kind_le(*ty2, *ty1) && !kind_le(*ty1, *ty2)) ==> r == *ty1,
    // everything else has no cross-kind promotion
    !((kind_le(*ty1, *ty2) && !kind_le(*ty2, *ty1)) || (kind_le(*ty2, *ty1) && !kind_le(*ty1, *ty2))) ==> r == Type::Void,
decreases (if ty1 is Float || ty1 is Complex { 1int } else { 0int }) + (if ty1 is Complex && ty2 is Float { 1int } else { 0int }),''')

    C20_POST = '''
ensures
    // "returns the type itself for two equal types"
    *ty1 == *ty2 ==> r == *ty1,                                                       //@C20:idempotent
    // join of the numeric tower (=> symmetric up to const, upper bound, Void iff no bound)
    !co_shape(*ty1, *ty2) ==> eq_upto_const(r, join_spec(*ty1, *ty2)),                //@C20:join
    // "const only if both operands are"
    (r != Type::Void && !co_const(*ty1, *ty2)) ==> (sp_is_const(r) ==> sp_is_const(*ty1) && sp_is_const(*ty2)),  //@C20:const
    // never a type outside {operand kinds, tower, Void}
    r != Type::Void ==> (in_tower(r) || eq_upto_const(r, *ty1)),                      //@C20:range
    // the kind never goes down, carve-outs included
    (in_tower(*ty1) && in_tower(*ty2) && r != Type::Void) ==> (kind_le(*ty1, r) && kind_le(*ty2, r)),   //@C20:kind-upper-bound
    // (helper for C08, read off the code: this is what the recorded findings C20-narrow / C20-const-cross say)
    // across kinds the result is exactly the operand of the higher kind
    (in_tower(*ty1) && in_tower(*ty2) && kind_le(*ty1, *ty2) && !kind_le(*ty2, *ty1)) ==> r == *ty2,
    (in_tower(*ty1) && in_tower(*ty2) && kind_le(*ty2, *ty1) && !kind_le(*ty1, *ty2)) ==> r == *ty1,
'''
    f.fn('promote_types', ret='r', props=['C20', 'C08'], spec=C20_POST)
    f.fn('promote_types_not_equal', ret='r', props=['C20', 'C08'], spec='''
requires !eq_upto_const(*ty1, *ty2),
''' + C20_POST)
    f.fn('can_cast_literal', ret='r', props=['C20', 'C08'], spec='''
ensures
    // superset of "promotion lands on the target"
    eq_upto_const(*ty1, *ty_lit) ==> r,                                               //@C20:cast-superset
    (tower_le(*ty_lit, *ty1) || (in_tower(*ty1) && in_tower(*ty_lit) && kind_le(*ty_lit, *ty1))) ==> r,   //@C20:cast-superset
    // never float/complex into an integer target, never complex into a float target
    ((*ty1 is Int || *ty1 is UInt) && (*ty_lit is Float || *ty_lit is Complex)) ==> !r,   //@C20:cast-excludes
    (*ty1 is Float && *ty_lit is Complex) ==> !r,                                     //@C20:cast-excludes
    // a literal is never cast silently across a conversion that must be diagnosed
    must_diagnose(*ty1, *ty_lit) ==> !r,                                              //@C08:no-literal-cast-for-kind-lowering
''')
    U.implicit_cast_kw = dict(ret='r', props=['C20', 'C08'],
                 spec='''
ensures
    // the common type of an arithmetic expression is the promotion of the operand types,
    // except that integer division is carried out in (non-const, machine) float
    !(*op is Div) || (*ty1 is Float || *ty2 is Float) ==>
        ((*ty1 == *ty2 ==> r == *ty1)
         && (!co_shape(*ty1, *ty2) ==> eq_upto_const(r, join_spec(*ty1, *ty2)))
         && ((r != Type::Void && !co_const(*ty1, *ty2)) ==> (sp_is_const(r) ==> sp_is_const(*ty1) && sp_is_const(*ty2)))),  //@C20,C08:arith-common-type
    (*op is Div && !(*ty1 is Float) && !(*ty2 is Float)) ==> r == Type::Float(None, IsConst::False),   //@C20,C08:arith-common-type
''')
    if arith_op:
        U.raw('/// asg.rs refers to the functions of types.rs as `types::f`: in this single-module unit that is this module itself\npub mod types { pub use super::*; }\n')
        U.file(A).fn('implicit_cast_type', **U.implicit_cast_kw)

    # property clauses derived from the contracts (two-call / lemma-style obligations)
    if with_lemmas:
        U.raw(open(__file__.replace('units/types.py', 'contracts/types.lemmas.rs')).read(), note='lemmas')
    U.trusted_decl = []
    U.file(T).guard_rest('not under contract in this unit; text pinned (contracts/trusted_hashes.json)')
    U.assumed_dep = [
        'std::cmp::max::<u32> returns the larger argument (assume_specification)',
        'boolenum derive: From<bool> for IsConst maps true->True, false->False (external_body)',
        'derive(Clone/PartialEq/Eq/Debug) on IsConst, BaseType, ArrayDims, SubroutineDef, Type, ArithOp: clone returns an equal value, == is structural equality (external_body impls)',
    ]
    U.not_verified = ['ArrayDims::dims, Type::dims (vec! construction; not used by any contract)']
